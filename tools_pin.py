#!/usr/bin/env python3
"""tools_pin.py <dir with replays/<ID>/*.json from the unchanged tree>
Replays every witness against the current tree (already built) and files it as a pinned witness:
  held now      -> /verif/replays/<ID>/pinned-fixed-<hash>.json   (expect: held; a regression is reported at once)
  still violated-> /verif/replays/<ID>/pinned-finding-<hash>.json (expect: violated; must be covered by KNOWN_FINDINGS.txt)
Authoring helper; never used by a check."""
import json, os, subprocess, sys, glob
src = sys.argv[1]
for idd in sorted(os.listdir(src)):
    for f in sorted(glob.glob(f"{src}/{idd}/*.json")):
        if os.path.basename(f).startswith("pinned-"):
            continue
        w = json.load(open(f))
        r = subprocess.run(["/verif/target/debug/vh", "check", idd, "quick", "--replay", f], capture_output=True, text=True, cwd="/verif")
        out = r.stdout
        verdict = "?"
        for line in out.splitlines():
            if '"verdict"' in line:
                verdict = line.split('"')[3]
        h = os.path.basename(f).split(".")[0]
        os.makedirs(f"/verif/replays/{idd}", exist_ok=True)
        if verdict == "held" or verdict == "out-of-scope":
            kind, expect = "fixed", "held"
        elif verdict == "violated":
            kind, expect = "finding", "violated"
        else:
            print("SKIP", idd, h, verdict, out[-300:])
            continue
        pinned = {"property": idd, "expect": expect, "sig_on_pinned_tree": w.get("sig"), "detail_on_pinned_tree": (w.get("detail") or "")[:600], "case": w["case"]}
        json.dump(pinned, open(f"/verif/replays/{idd}/pinned-{kind}-{h}.json", "w"), indent=1)
        print(idd, kind, w.get("sig"), "rc", r.returncode)
