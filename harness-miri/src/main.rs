//! Miri sidecar. usage: vm <diff|escape|config|markdown> <shard> <ops>
//! Interpreted by Miri: undefined behaviour, out-of-bounds, invalid UTF-8 assumptions and
//! (debug) arithmetic overflow in scrut's library or its dependencies abort the run with a report.
//! On top of that the monitors' invariants are re-checked on every operation; a failed
//! invariant prints `MONITOR-VIOLATION ...` and exits 3.

use std::collections::BTreeMap;
use std::path::PathBuf;
use std::time::Duration;

use scrut::config::DocumentConfig;
use scrut::config::OutputStreamControl;
use scrut::config::TestCaseConfig;
use scrut::config::TestCaseWait;
use scrut::diff::DiffLine;
use scrut::diff::DiffTool;
use scrut::escaping::Escaper;
use scrut::expectation::Expectation;
use scrut::expectation::ExpectationMaker;
use scrut::rules::escaped::EscapedRule;
use scrut::rules::registry::RuleRegistry;
use scrut::rules::rule::RuleMaker;

struct Rng(u64);
impl Rng {
    fn next(&mut self) -> u64 {
        self.0 = self.0.wrapping_add(0x9E3779B97F4A7C15);
        let mut z = self.0;
        z = (z ^ (z >> 30)).wrapping_mul(0xBF58476D1CE4E5B9);
        z = (z ^ (z >> 27)).wrapping_mul(0x94D049BB133111EB);
        z ^ (z >> 31)
    }
    fn below(&mut self, n: usize) -> usize {
        (self.next() % n as u64) as usize
    }
}

fn split(out: &[u8]) -> Vec<&[u8]> {
    let mut v = vec![];
    let mut s = 0;
    for i in 0..out.len() {
        if out[i] == b'\n' {
            v.push(&out[s..=i]);
            s = i + 1;
        }
    }
    if s < out.len() {
        v.push(&out[s..]);
    }
    v
}

fn fail(msg: String) -> ! {
    println!("MONITOR-VIOLATION {msg}");
    std::process::exit(3);
}

fn diff_workload(shard: u64, ops: usize) {
    let maker = ExpectationMaker::new(RuleRegistry::default());
    let texts = ["a", "b (?)", "a* (glob+)", "[ab] (regex*)", "a\\tb (escaped)", "c (no-eol)", "* (glob*)", "ab (+)"];
    let pool: Vec<Expectation> = texts.iter().map(|t| maker.parse(t).expect("parse")).collect();
    let alpha: [&[u8]; 8] = [b"a", b"b", b"ab", b"c", b"", b"a\tb", b"\xff\xfe", b"a\r"];
    let mut rng = Rng(0xC02 ^ (shard << 20));
    let mut runs = 0usize;
    let mut variants = [0usize; 3];
    for op in 0..ops {
        let n = rng.below(6);
        let exps: Vec<Expectation> = (0..n).map(|_| pool[rng.below(pool.len())].clone()).collect();
        let m = rng.below(8);
        let mut out: Vec<u8> = vec![];
        for j in 0..m {
            out.extend_from_slice(alpha[rng.below(alpha.len())]);
            if j + 1 < m || rng.below(4) != 0 {
                out.push(b'\n');
            }
        }
        let diff = DiffTool::new(exps.clone()).diff(&out).expect("diff");
        let lines = split(&out);
        let mut next_line = 0usize;
        let mut last: Option<usize> = None;
        let mut mentioned = vec![0u32; exps.len()];
        for d in &diff.lines {
            match d {
                DiffLine::MatchedExpectation { index, lines: ls, .. } => {
                    variants[0] += 1;
                    if last.is_some_and(|l| *index <= l) {
                        fail(format!("C02 expectation order, op {op} shard {shard}"));
                    }
                    last = Some(*index);
                    mentioned[*index] += 1;
                    if ls.len() > 1 {
                        runs += 1;
                    }
                    for (li, bytes) in ls {
                        if *li != next_line || lines[*li] != &bytes[..] || !exps[*index].matches(bytes) {
                            fail(format!("C02 line accounting, op {op} shard {shard}"));
                        }
                        next_line += 1;
                    }
                }
                DiffLine::UnmatchedExpectation { index, .. } => {
                    variants[1] += 1;
                    if last.is_some_and(|l| *index <= l) {
                        fail(format!("C02 expectation order, op {op} shard {shard}"));
                    }
                    last = Some(*index);
                    mentioned[*index] += 1;
                }
                DiffLine::UnexpectedLines { lines: ls } => {
                    variants[2] += 1;
                    for (li, bytes) in ls {
                        if *li != next_line || lines[*li] != &bytes[..] {
                            fail(format!("C02 line accounting, op {op} shard {shard}"));
                        }
                        next_line += 1;
                    }
                }
            }
        }
        if next_line != lines.len() {
            fail(format!("C02 line lost, op {op} shard {shard}"));
        }
        for (i, n) in mentioned.iter().enumerate() {
            if *n > 1 || (*n == 0 && !exps[i].optional) {
                fail(format!("C02 expectation accounting, op {op} shard {shard}"));
            }
        }
    }
    println!(
        "MIRI-OK diff shard={shard} ops={ops} matched={} unmatched={} unexpected={} runs={runs}",
        variants[0], variants[1], variants[2]
    );
}

fn escape_workload(shard: u64, ops: usize) {
    let mut rng = Rng(0xC11 ^ (shard << 20));
    let specials: [u8; 12] = [b'\\', b'\t', 0, 0x1b, b'\r', 0x7f, 0x80, 0xc3, 0xa9, 0xff, b' ', b'('];
    let mut escaped_marked = 0usize;
    let mut plain = 0usize;
    for op in 0..ops {
        let len = rng.below(10);
        let line: Vec<u8> = (0..len)
            .map(|_| if rng.below(2) == 0 { specials[rng.below(specials.len())] } else { (rng.next() & 0xff) as u8 })
            .filter(|b| *b != b'\n')
            .collect();
        for esc in [Escaper::Ascii, Escaper::Unicode] {
            let is_ascii = matches!(esc, Escaper::Ascii);
            let t = esc.escaped_expectation(&line);
            let _ = esc.has_unprintable(&line);
            if let Some(expr) = t.strip_suffix(" (escaped)") {
                escaped_marked += 1;
                let mode = if is_ascii { "ascii" } else { "unicode" };
                let rule = match EscapedRule::make(expr) {
                    Ok(r) => r,
                    Err(e) => fail(format!("C11 {mode} escaped text does not parse: {e} op {op} shard {shard}")),
                };
                // the escaped rendering, read back as an escaped expectation, matches its line
                if !rule.matches(&line) {
                    fail(format!("C11 {mode} escaped rendering does not match its line, op {op} shard {shard}"));
                }
            } else {
                plain += 1;
            }
        }
    }
    println!("MIRI-OK escape shard={shard} ops={ops} escaped={escaped_marked} plain={plain}");
}

// ---------------------------------------------------------------------------------------------
// C17: configuration -> YAML text -> configuration, through serde_yaml and its `unsafe-libyaml`
// back end (the one place in scrut's dependency tree where hand-written unsafe code handles
// document text). Equality is judged on the real structs (derived PartialEq).

const PLAIN: &[&str] = &["bar", "zoing", "/tmp/wait", "the-wait-path", "x1", "some/file/name", "v", "a.b-c_d"];
const SPECIAL: &[&str] = &[
    "\"", "\\", ":", ": ", "{", "}", ",", "#", " #", "'", "[", "]", "\\t", "\\n", "*", "&", "!", "|", ">", "%", "@", "`", "- ", "? ", "~", "null",
    "true", "no", "123", "1.5", "0x1f", "$HOME", "=", " ", "  ", "a b", "\u{fc}", "\u{65e5}\u{672c}", "e\u{301}", "\u{1f602}", "\u{a0}", "\u{3000}",
    "\u{85}", "\u{2028}", "\u{feff}", "\u{7f}", "\u{9b}", "\t", "---", "...",
];
const NAMES: &[&str] = &["FOO", "BAR", "foo", "_x1", "a", "PATH", "LC_ALL", "My_Var9", "null", "y", "On"];
const ML: &[&str] = &["---", "...", "title: x", "", "  indented", "- item", "# comment", "key: |", "trailing blank ", "```scrut", "\u{fc}ber"];

fn gen_string(rng: &mut Rng) -> String {
    match rng.below(10) {
        0..=2 => PLAIN[rng.below(PLAIN.len())].to_string(),
        3 => String::new(),
        _ => {
            let mut s = String::new();
            for _ in 0..1 + rng.below(3) {
                if rng.below(3) == 0 {
                    s.push_str(PLAIN[rng.below(PLAIN.len())]);
                } else {
                    s.push_str(SPECIAL[rng.below(SPECIAL.len())]);
                }
            }
            s
        }
    }
}

fn gen_multiline(rng: &mut Rng) -> String {
    let n = 2 + rng.below(3);
    let mut s = (0..n).map(|_| ML[rng.below(ML.len())]).collect::<Vec<_>>().join("\n");
    match rng.below(4) {
        0 => s.push('\n'),
        1 => s.push_str("\n\n"),
        _ => {}
    }
    s
}

fn gen_ms(rng: &mut Rng) -> u64 {
    const DAY: u64 = 86_400_000;
    match rng.below(6) {
        0 => 1 + rng.below(999) as u64,
        1 => 1000 * (1 + rng.below(59) as u64),
        2 => 60_000 * (1 + rng.below(59) as u64) + 1000 * rng.below(60) as u64,
        3 => DAY * (1 + rng.below(400) as u64),
        4 => [1u64, 999, 1000, 1001, 59_999, 60_000, 3_600_000, DAY, 30 * DAY, 365 * DAY, 2_629_800_000, 31_557_600_000][rng.below(12)],
        _ => 1 + (rng.next() % (400 * DAY - 1)),
    }
}

fn gen_tc(rng: &mut Rng) -> TestCaseConfig {
    let mask = if rng.below(6) == 0 { 1 << rng.below(8) } else { 1 + rng.below(255) };
    let mut t = TestCaseConfig::empty();
    if mask & 1 != 0 {
        t.output_stream = Some([OutputStreamControl::Stdout, OutputStreamControl::Stderr, OutputStreamControl::Combined][rng.below(3)].clone());
    }
    if mask & 2 != 0 {
        t.keep_crlf = Some(rng.below(2) == 0);
    }
    if mask & 4 != 0 {
        t.timeout = Some(Duration::from_millis(gen_ms(rng)));
    }
    if mask & 8 != 0 {
        t.detached = Some(rng.below(2) == 0);
    }
    if mask & 16 != 0 {
        t.skip_document_code = Some(rng.below(256) as i32);
    }
    if mask & 32 != 0 {
        t.strip_ansi_escaping = Some(rng.below(2) == 0);
    }
    if mask & 64 != 0 {
        t.wait = Some(TestCaseWait {
            timeout: Duration::from_millis(gen_ms(rng)),
            path: if rng.below(2) == 0 { Some(PathBuf::from(gen_string(rng))) } else { None },
        });
    }
    if mask & 128 != 0 {
        let mut env = BTreeMap::new();
        for _ in 0..1 + rng.below(3) {
            let v = if rng.below(5) == 0 { gen_multiline(rng) } else { gen_string(rng) };
            env.insert(NAMES[rng.below(NAMES.len())].to_string(), v);
        }
        t.environment = env;
    }
    t
}

fn config_workload(shard: u64, ops: usize) {
    let mut rng = Rng(0xC17 ^ (shard << 20));
    let (mut one, mut block, mut doc, mut bytes) = (0usize, 0usize, 0usize, 0usize);
    for op in 0..ops {
        let tc = gen_tc(&mut rng);
        match op % 3 {
            0 => {
                let line = tc.to_yaml_one_liner();
                bytes += line.len();
                let back: TestCaseConfig = match serde_yaml::from_str(&line) {
                    Ok(b) => b,
                    Err(e) => fail(format!("C17 one-liner {line:?} is rejected: {e} op {op} shard {shard}")),
                };
                if back != tc {
                    fail(format!("C17 one-liner {line:?} reads back as {back:?}, original {tc:?} op {op} shard {shard}"));
                }
                one += 1;
            }
            1 => {
                let y = serde_yaml::to_string(&tc).unwrap_or_else(|e| fail(format!("C17 render error {e} op {op} shard {shard}")));
                bytes += y.len();
                let back: TestCaseConfig = match serde_yaml::from_str(&y) {
                    Ok(b) => b,
                    Err(e) => fail(format!("C17 block {y:?} is rejected: {e} op {op} shard {shard}")),
                };
                if back != tc {
                    fail(format!("C17 block {y:?} reads back as {back:?}, original {tc:?} op {op} shard {shard}"));
                }
                block += 1;
            }
            _ => {
                let mut d = DocumentConfig::empty();
                d.defaults = tc;
                if rng.below(2) == 0 {
                    d.append = (0..1 + rng.below(2)).map(|_| PathBuf::from(gen_string(&mut rng))).collect();
                }
                if rng.below(2) == 0 {
                    d.prepend = (0..1 + rng.below(2)).map(|_| PathBuf::from(gen_string(&mut rng))).collect();
                }
                if rng.below(2) == 0 {
                    d.shell = Some(PathBuf::from(gen_string(&mut rng)));
                }
                if rng.below(2) == 0 {
                    // the renderer omits the documented default (15 min); stay away from it, the monitor proper covers it
                    let ms = gen_ms(&mut rng);
                    d.total_timeout = Some(Duration::from_millis(if (899_000..=901_000).contains(&ms) { 5000 } else { ms }));
                }
                let y = serde_yaml::to_string(&d).unwrap_or_else(|e| fail(format!("C17 render error {e} op {op} shard {shard}")));
                bytes += y.len();
                let back: DocumentConfig = match serde_yaml::from_str(&y) {
                    Ok(b) => b,
                    Err(e) => fail(format!("C17 document block {y:?} is rejected: {e} op {op} shard {shard}")),
                };
                if back != d {
                    fail(format!("C17 document block {y:?} reads back as {back:?}, original {d:?} op {op} shard {shard}"));
                }
                doc += 1;
            }
        }
    }
    println!("MIRI-OK config shard={shard} ops={ops} one_liner={one} block_testcase={block} block_document={doc} yaml_bytes={bytes}");
}

fn main() {
    let args: Vec<String> = std::env::args().collect();
    let what = args.get(1).map(|s| s.as_str()).unwrap_or("diff");
    let shard: u64 = args.get(2).and_then(|s| s.parse().ok()).unwrap_or(0);
    let ops: usize = args.get(3).and_then(|s| s.parse().ok()).unwrap_or(50);
    match what {
        "diff" => diff_workload(shard, ops),
        "escape" => escape_workload(shard, ops),
        "config" => config_workload(shard, ops),
        "noop" => println!("MIRI-OK noop"),
        _ => std::process::exit(2),
    }
}
