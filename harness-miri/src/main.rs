//! Miri sidecar. usage: vm <diff|escape> <shard> <ops>
//! Interpreted by Miri: undefined behaviour, out-of-bounds, invalid UTF-8 assumptions and
//! (debug) arithmetic overflow in scrut's library or its dependencies abort the run with a report.
//! On top of that the monitors' invariants are re-checked on every operation; a failed
//! invariant prints `MONITOR-VIOLATION ...` and exits 3.

use scrut::diff::DiffLine;
use scrut::diff::DiffTool;
use scrut::escaping::Escaper;
use scrut::expectation::Expectation;
use scrut::expectation::ExpectationMaker;
use scrut::rules::escaped::EscapedRule;
use scrut::rules::registry::RuleRegistry;
use scrut::rules::rule::RuleMaker;

struct Rng(u64);
impl Rng {
    fn next(&mut self) -> u64 {
        self.0 = self.0.wrapping_add(0x9E3779B97F4A7C15);
        let mut z = self.0;
        z = (z ^ (z >> 30)).wrapping_mul(0xBF58476D1CE4E5B9);
        z = (z ^ (z >> 27)).wrapping_mul(0x94D049BB133111EB);
        z ^ (z >> 31)
    }
    fn below(&mut self, n: usize) -> usize {
        (self.next() % n as u64) as usize
    }
}

fn split(out: &[u8]) -> Vec<&[u8]> {
    let mut v = vec![];
    let mut s = 0;
    for i in 0..out.len() {
        if out[i] == b'\n' {
            v.push(&out[s..=i]);
            s = i + 1;
        }
    }
    if s < out.len() {
        v.push(&out[s..]);
    }
    v
}

fn fail(msg: String) -> ! {
    println!("MONITOR-VIOLATION {msg}");
    std::process::exit(3);
}

fn diff_workload(shard: u64, ops: usize) {
    let maker = ExpectationMaker::new(RuleRegistry::default());
    let texts = ["a", "b (?)", "a* (glob+)", "[ab] (regex*)", "a\\tb (escaped)", "c (no-eol)", "* (glob*)", "ab (+)"];
    let pool: Vec<Expectation> = texts.iter().map(|t| maker.parse(t).expect("parse")).collect();
    let alpha: [&[u8]; 8] = [b"a", b"b", b"ab", b"c", b"", b"a\tb", b"\xff\xfe", b"a\r"];
    let mut rng = Rng(0xC02 ^ (shard << 20));
    let mut runs = 0usize;
    let mut variants = [0usize; 3];
    for op in 0..ops {
        let n = rng.below(6);
        let exps: Vec<Expectation> = (0..n).map(|_| pool[rng.below(pool.len())].clone()).collect();
        let m = rng.below(8);
        let mut out: Vec<u8> = vec![];
        for j in 0..m {
            out.extend_from_slice(alpha[rng.below(alpha.len())]);
            if j + 1 < m || rng.below(4) != 0 {
                out.push(b'\n');
            }
        }
        let diff = DiffTool::new(exps.clone()).diff(&out).expect("diff");
        let lines = split(&out);
        let mut next_line = 0usize;
        let mut last: Option<usize> = None;
        let mut mentioned = vec![0u32; exps.len()];
        for d in &diff.lines {
            match d {
                DiffLine::MatchedExpectation { index, lines: ls, .. } => {
                    variants[0] += 1;
                    if last.is_some_and(|l| *index <= l) {
                        fail(format!("C02 expectation order, op {op} shard {shard}"));
                    }
                    last = Some(*index);
                    mentioned[*index] += 1;
                    if ls.len() > 1 {
                        runs += 1;
                    }
                    for (li, bytes) in ls {
                        if *li != next_line || lines[*li] != &bytes[..] || !exps[*index].matches(bytes) {
                            fail(format!("C02 line accounting, op {op} shard {shard}"));
                        }
                        next_line += 1;
                    }
                }
                DiffLine::UnmatchedExpectation { index, .. } => {
                    variants[1] += 1;
                    if last.is_some_and(|l| *index <= l) {
                        fail(format!("C02 expectation order, op {op} shard {shard}"));
                    }
                    last = Some(*index);
                    mentioned[*index] += 1;
                }
                DiffLine::UnexpectedLines { lines: ls } => {
                    variants[2] += 1;
                    for (li, bytes) in ls {
                        if *li != next_line || lines[*li] != &bytes[..] {
                            fail(format!("C02 line accounting, op {op} shard {shard}"));
                        }
                        next_line += 1;
                    }
                }
            }
        }
        if next_line != lines.len() {
            fail(format!("C02 line lost, op {op} shard {shard}"));
        }
        for (i, n) in mentioned.iter().enumerate() {
            if *n > 1 || (*n == 0 && !exps[i].optional) {
                fail(format!("C02 expectation accounting, op {op} shard {shard}"));
            }
        }
    }
    println!(
        "MIRI-OK diff shard={shard} ops={ops} matched={} unmatched={} unexpected={} runs={runs}",
        variants[0], variants[1], variants[2]
    );
}

fn escape_workload(shard: u64, ops: usize) {
    let mut rng = Rng(0xC11 ^ (shard << 20));
    let specials: [u8; 12] = [b'\\', b'\t', 0, 0x1b, b'\r', 0x7f, 0x80, 0xc3, 0xa9, 0xff, b' ', b'('];
    let mut escaped_marked = 0usize;
    let mut plain = 0usize;
    for op in 0..ops {
        let len = rng.below(10);
        let line: Vec<u8> = (0..len)
            .map(|_| if rng.below(2) == 0 { specials[rng.below(specials.len())] } else { (rng.next() & 0xff) as u8 })
            .filter(|b| *b != b'\n')
            .collect();
        for esc in [Escaper::Ascii, Escaper::Unicode] {
            let is_ascii = matches!(esc, Escaper::Ascii);
            let t = esc.escaped_expectation(&line);
            let _ = esc.has_unprintable(&line);
            if let Some(expr) = t.strip_suffix(" (escaped)") {
                escaped_marked += 1;
                let mode = if is_ascii { "ascii" } else { "unicode" };
                let rule = match EscapedRule::make(expr) {
                    Ok(r) => r,
                    Err(e) => fail(format!("C11 {mode} escaped text does not parse: {e} op {op} shard {shard}")),
                };
                // the escaped rendering, read back as an escaped expectation, matches its line
                if !rule.matches(&line) {
                    fail(format!("C11 {mode} escaped rendering does not match its line, op {op} shard {shard}"));
                }
            } else {
                plain += 1;
            }
        }
    }
    println!("MIRI-OK escape shard={shard} ops={ops} escaped={escaped_marked} plain={plain}");
}

fn main() {
    let args: Vec<String> = std::env::args().collect();
    let what = args.get(1).map(|s| s.as_str()).unwrap_or("diff");
    let shard: u64 = args.get(2).and_then(|s| s.parse().ok()).unwrap_or(0);
    let ops: usize = args.get(3).and_then(|s| s.parse().ok()).unwrap_or(50);
    match what {
        "diff" => diff_workload(shard, ops),
        "escape" => escape_workload(shard, ops),
        "noop" => println!("MIRI-OK noop"),
        _ => std::process::exit(2),
    }
}
