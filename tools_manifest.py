#!/usr/bin/env python3
"""Regenerates /verif/MANIFEST.json from the table below (authoring helper, not used by checks)."""
import json, subprocess

CLAIMED = {
 "C01": ("history/input + executable model: DiffTool verdict vs independent DP membership oracle over generated (expectations, output) pairs",
         "Exploration: 2e5 (quick) / 1.2e7 (thorough) generated pairs; every reported pass is checked against a dynamic-programming membership test of e1{q1}..en{qn} and the reported assignment is re-validated as a witness. Decides the executions produced, sizes <= 8 expectations x 12 lines (+ long tails).",
         "Match matrix (Expectation::matches) taken as data; bounded sizes; harness line splitting is its own."),
 "C02": ("structural-invariant monitor over Diff.lines (exactly-once / order / conservation) on generated pairs incl. hostile bytes, in crash-attributing worker processes",
         "Exploration: each Diff is walked once with counters against the harness's own split of the output; panics/aborts are attributed per case; termination = returned before watchdog.",
         "Hang = inconclusive, not violation; bounded sizes."),
 "C03": ("differential monitor: DiffTool verdict vs deterministic one-look-ahead run oracle, cross-checked against the DP oracle",
         "Exploration: only cases the determinism oracle puts in scope are judged; member <=> pass.",
         "Conservative scope test; match matrix as data."),
}
ALL = ["C%02d" % i for i in range(1, 21)]
NA_REASON = {}

def main():
    commits = subprocess.run(["git", "-C", "/repo", "log", "--format=%H %s"], capture_output=True, text=True).stdout.splitlines()
    hook_commits = [c.split()[0] for c in commits if c.split(" ", 1)[1].startswith("verif hooks")]
    checks = []
    for pid in ALL:
        if pid not in CLAIMED:
            continue
        tech, text, note = CLAIMED[pid]
        checks.append({
            "property_id": pid,
            "quick_cmd": f"./check {pid} quick",
            "thorough_cmd": f"./check {pid} thorough",
            "evidence_file": f"/verif/evidence/{pid}.json",
            "replay_cmd_template": f"./check {pid} quick --replay {{path}}",
            "engine": "vh",
            "level_claimed": {"category": "exploration", "text": text, "design_ref": f"DESIGN.md section 6, {pid}"},
            "level_note": note,
            "technique": "runtime monitoring: " + tech,
        })
    na = [{"property_id": p, "reason": NA_REASON.get(p, "monitor not built yet in this commit (planned in DESIGN.md section 6); not claimed")} for p in ALL if p not in CLAIMED]
    m = {
        "version": 1,
        "setup_cmd": "./check --build",
        "hooks": {
            "guard": "cargo feature `verif` (off by default)",
            "enable": "cargo build --features verif (harness: path dependency scrut = { path = \"/repo\", features = [\"verif\"] }; binary: cargo build --features verif --bin scrut --target-dir /verif/target/scrut-bin)",
            "baseline_off_cmd": "cd /repo && cargo test --workspace --no-fail-fast --offline",
            "source_commits": hook_commits,
            "add_only": True,
        },
        "engines": [{"name": "vh", "path": "/verif/harness", "serves_properties": sorted(CLAIMED), "kind_free_text": "Rust harness: seeded generators, independent oracles, supervisor + crash-attributing worker processes, end-to-end driver for the hooked scrut binary, offline trace checkers"}],
        "checks": checks,
        "not_applicable": na,
        "notes": "Every check rebuilds the harness (linking scrut's library) and the hooked scrut binary from /repo's working tree. Exit 0 held / 1 violation (VIOLATION line) / 2 inconclusive or harness error. Known findings: /verif/KNOWN_FINDINGS.txt.",
    }
    json.dump(m, open("/verif/MANIFEST.json", "w"), indent=1)
    print("claimed", sorted(CLAIMED), "n/a", [x["property_id"] for x in na])

if __name__ == "__main__":
    main()
