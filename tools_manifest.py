#!/usr/bin/env python3
"""Regenerates /verif/MANIFEST.json from the table below (authoring helper, not used by checks)."""
import json, subprocess

def E(tech, text, note):
    return (tech, text, note)

CLAIMED = {
 "C01": E("input + executable model: DiffTool / TestCase::validate verdict vs an independent DP membership oracle over generated (expectations, output) pairs; every reported pass re-validated as a witness assignment",
          "Exploration: 1e6 (quick) / 4e7 (thorough, incl. the complete sweep of <=3 expectations x <=4 lines) generated pairs. Decides the executions produced; sizes <= 8 expectations x 12 lines (+ long tails up to 2000 lines).",
          "Match matrix (Expectation::matches) taken as data (C04 judges it); bounded sizes; harness line splitting is its own."),
 "C02": E("structural-invariant monitor over Diff.lines (exactly-once / order / conservation of bytes) on generated pairs incl. hostile bytes, in crash-attributing worker processes; Miri sidecar (thorough) interprets the same invariant over DiffTool",
          "Exploration: every Diff is walked once with counters against the harness's own split of the output; panics/aborts attributed per case; termination = returned before the watchdog; thorough adds 16 Miri shards.",
          "Hang = inconclusive, not violation; bounded sizes."),
 "C03": E("differential monitor: DiffTool verdict vs a deterministic one-line-look-ahead run oracle, cross-checked against the DP oracle",
          "Exploration: only cases the determinism oracle puts in scope are judged; member <=> pass; includes the output's own lines as expectations.",
          "Conservative scope test (any line matched by two candidates => out of scope); match matrix as data."),
 "C04": E("differential monitor: Expectation::matches for every rule kind vs the harness's own matchers (byte equality, escape decoder, glob DP, backtracking full-match regex evaluator over a generated AST), default and Cram-compat registries; end-to-end part: the same pairs rendered into a .md and a .t document, one `scrut test -r json` invocation in both orders, every verdict against the oracle of its own dialect",
          "Exploration: expressions rendered from token lists / ASTs so the documented meaning is known by construction; candidate lines = members, one-edit mutants, anchoring extensions, non-ASCII.",
          "Expression size <= 12 nodes, lines <= 40 scalars, valid UTF-8 for glob/regex; constructs scrut changes for Cram compatibility are not specified cases."),
 "C05": E("input + model: TestCase::validate vs (exit-code gate and DP membership on the configured stream); end-to-end: documents whose commands exit N / print payloads / kill their shell, result kinds of `scrut test -r json` vs a sequential model, marker log",
          "Exploration: 1e5 in-process cases + 400 documents (quick); the 'no exit code => never success' clause is judged end to end only.",
          "Signals KILL/TERM/SEGV/ABRT; Markdown and Cram; bash of this image."),
 "C06": E("construction oracle: Markdown documents rendered from a block-list AST, MarkdownParser::parse result vs the expected test list (command, expectations, exit code, config, line number, title); truncation family; panic capture; e2e sidecar counting results of `scrut test -r json`",
          "Exploration: 2e4 (quick) / 1e6 (thorough) documents.",
          "Constructs scrut does not document are generated for the no-crash clause only; title rule relaxed where the statement is ambiguous."),
 "C07": E("construction oracle: Cram documents rendered from an item list, CramParser::parse result vs the expected test list",
          "Exploration: 2e4 / 1e6 documents, every order of item kinds, whitespace-only expectations, single-space indentation differences.",
          "Cram-compat expectation maker replicated from the binary."),
 "C08": E("construction oracle for the line grammar (expression x suffix, near-miss suffixes) + round-trip law parse -> canonical form -> parse compared on probe contents, both escapers",
          "Exploration: 4e4 / 1.5e6 lines.",
          "A blank other than U+0020 before the group is generated for the no-crash clause and for the round trip only."),
 "C09": E("round-trip law: generated outcome (real validate) -> TestCaseGenerator / UpdateGenerator -> parser -> validate against the same output (in-process); end-to-end: scrut create / update / --convert then scrut test on payloads of 18 hostile line classes",
          "Exploration: 4e4 in-process outcomes + 320 e2e runs (quick).",
          "output_stream=stderr configurations not generated; CR LF under --convert out of scope (formats differ in keep_crlf)."),
 "C10": E("conservation + idempotence monitor: document from a block list, generate_update (in-process) and `scrut update --replace --assume-yes` twice (e2e): lines outside scrut blocks identical, block count/language/config/comments/commands kept, passing tests untouched, second update byte-identical, updated document passes",
          "Exploration: 8e3 in-process + 200 e2e documents (quick).",
          "Fence length and blank after the language may change; benign output text except fence look-alikes."),
 "C11": E("law monitor: printable (own Unicode tables for Cc/Cf/Cn from CPython unicodedata 14.0) and lossless (escaped text read back as that kind of expectation matches the line and no mutant); complete sweeps of bytes, byte pairs and Unicode scalars in the thorough tier",
          "Exploration: 1.4e4 batches quick; thorough sweeps all 256 bytes, 65536 pairs and every scalar.",
          "Code points assigned after Unicode 7 in category Cf are counted, not judged (table skew)."),
 "C12": E("history + executable model: random histories of state-changing snippets through StatefulExecutor(BashRunner) vs ONE real bash session fed the same snippets; per-section comparison; 1-minimal op list as signature",
          "Exploration: 240 histories (quick) / 5000 (thorough), every state class of the statement.",
          "bash 5.2.15 of this image; TESTDIR-class variables never modified (C12 and C18 contradict there, observation O-1)."),
 "C13": E("construction oracle: commands cat payload files / print literals, expected bytes computed by the harness (CR LF and CSI transforms its own), both executors, all stream/keep_crlf/strip_ansi settings; direct replace_crlf up to 1e6 pairs; memcheck sidecar (thorough)",
          "Exploration: 220 sequences (quick) / 16000 (thorough), payloads up to 8 MB on both streams.",
          "strip_ansi_escaping judged by the harness's own ECMA-48 remover (every other byte must survive); forged divider output and the EXIT trap text under `set -v` are listed findings."),
 "C14": E("(A) invariant at a hook: timeout_decision events checked purely logically (chosen = min, is_global, remaining non-increasing); (B) real-time matrix at the process boundary with an 8x gap (1 s vs 8 s), marker files prove the command was aborted",
          "Exploration: 200 decision runs + 24 matrix rows (quick).",
          "Wall clock only separates 1 s from 8 s; Cram attribution of a document timeout not judged per test."),
 "C15": E("end-to-end + sequential model: result kinds and exit status of `scrut test -r json` on documents with skip codes (default, per document, per test, under --cram-compat) at every position",
          "Exploration: 400 runs (quick) / 6000 (thorough).",
          "Included documents (front-matter and -P/-A) around skipped documents are part of the runs; not decided: a custom document code together with an included test that exits with it, inline codes inside included documents, includes under --cram-compat, differing skip codes inside one script."),
 "C16": E("layering algebra on TestCaseConfig/DocumentConfig vs 'first layer that sets it' (in-process, parser level) + end-to-end behaviour probes (which stream is recorded, CR LF, $VAR, document time limit via hook) under CLI flags, inline config, front-matter defaults, format defaults",
          "Exploration: 1e5 layerings + 200 e2e runs (quick).",
          "Environment judged on the first test of a document only (later tests inherit exported state, C12)."),
 "C17": E("round-trip law: to_yaml_one_liner -> fence line -> MarkdownParser; serde_yaml block form; front-matter; equality of configurations; Miri sidecar (thorough) interpreting the same round trips through serde_yaml / unsafe-libyaml",
          "Exploration: 5e4 / 3e6 configurations, hostile values; thorough adds 16 x 150 round trips interpreted by Miri.",
          "Values include U+0085/2028/2029/FEFF, DEL, C1 controls and non-characters; the generated document is read under both format bases."),
 "C18": E("end-to-end boundary observation: private TMPDIR tree before/after/2 s after each scrut process for 18 outcome classes x default/keep/work-directory, env and pwd probes from the JSON of failing tests, bursts of 8 concurrent processes; memcheck sidecar (thorough)",
          "Exploration: 216 runs (quick) / 1440 (thorough).",
          "Schedules between processes sampled by bursts; tests never modify the documented variables (O-1)."),
 "C19": E("totality + completeness monitor: outcomes from real validate through all five renderers (in-process) and `scrut test -r pretty|diff|json|yaml` on hostile payloads (e2e): no crash, every unmatched expectation / unexpected line shown, json/yaml well-formed with one entry per outcome",
          "Exploration: 2e4 outcome lists + 240 e2e runs (quick).",
          "Canonical expectation form and escaped line taken as data (C08/C11 judge those)."),
 "C20": E("end-to-end + sequential model: marker log (unique ids appended by the commands), -r json results, exit status, summary line for runs over 1..5 documents with prepend/append, pass/fail/timeout/skip/detach",
          "Exploration: 300 runs (quick) / 6000 (thorough).",
          "Order of documents inside a directory argument not judged."),
}
ALL = ["C%02d" % i for i in range(1, 21)]
NA_REASON = {}

def main():
    commits = subprocess.run(["git", "-C", "/repo", "log", "--format=%H %s"], capture_output=True, text=True).stdout.splitlines()
    hook_commits = [c.split()[0] for c in commits if c.split(" ", 1)[1].startswith("verif hooks")]
    checks = []
    for pid in ALL:
        if pid not in CLAIMED:
            continue
        tech, text, note = CLAIMED[pid]
        checks.append({
            "property_id": pid,
            "quick_cmd": f"./check {pid} quick",
            "thorough_cmd": f"./check {pid} thorough",
            "evidence_file": f"/verif/evidence/{pid}.json",
            "replay_cmd_template": f"./check {pid} quick --replay {{path}}",
            "engine": "vh",
            "level_claimed": {"category": "exploration", "text": text, "design_ref": f"DESIGN.md section 6, {pid}"},
            "level_note": note,
            "technique": "runtime monitoring: " + tech,
        })
    na = [{"property_id": p, "reason": NA_REASON.get(p, "monitor not built yet in this commit (planned in DESIGN.md section 6); not claimed")} for p in ALL if p not in CLAIMED]
    m = {
        "version": 1,
        "setup_cmd": "./check --build",
        "hooks": {
            "guard": "cargo feature `verif` (off by default)",
            "enable": "cargo build --features verif (harness: path dependency scrut = { path = \"/repo\", features = [\"verif\"] }; binary: cargo build --features verif --bin scrut --target-dir /verif/target/scrut-bin)",
            "baseline_off_cmd": "cd /repo && cargo test --workspace --no-fail-fast --offline",
            "source_commits": hook_commits,
            "add_only": True,
        },
        "engines": [{"name": "vh", "path": "/verif/harness", "serves_properties": sorted(CLAIMED), "kind_free_text": "Rust harness: seeded generators, independent oracles, supervisor + crash-attributing worker processes, end-to-end driver for the hooked scrut binary, offline trace checkers"}],
        "checks": checks,
        "not_applicable": na,
        "notes": "Every check rebuilds the harness (linking scrut's library) and the hooked scrut binary from /repo's working tree. Exit 0 held / 1 violation (VIOLATION line) / 2 inconclusive or harness error. Known findings: /verif/KNOWN_FINDINGS.txt.",
    }
    json.dump(m, open("/verif/MANIFEST.json", "w"), indent=1)
    print("claimed", sorted(CLAIMED), "n/a", [x["property_id"] for x in na])

if __name__ == "__main__":
    main()
