pub mod lang;
pub mod seqmodel;
