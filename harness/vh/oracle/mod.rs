pub mod lang;
