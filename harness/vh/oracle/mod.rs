pub mod lang;
pub mod seqmodel;
pub mod rulematch;
pub mod unicode_tables;
