//! Sequential model of `scrut test` (oracle for C14(B), C15, C20).
//!
//! Independent of scrut: the model only knows what the *documents* say. A run is a list of
//! documents; every document is the concatenation
//!   prepend(CLI) ++ prepend(front-matter) ++ own ++ append(front-matter) ++ append(CLI)
//! executed in order until a skip, a timeout or an abort.
//!
//! What the model deliberately does NOT claim (corners the property statements leave open, or
//! that scrut documents differently for the two formats):
//!  * whether test cases *after* a skipping / timed-out one are executed (Markdown: they are not;
//!    Cram with `(exit 80)`: the script runs on) -> `Run::May`;
//!  * whether the timed-out test case itself got far enough to write its marker -> `Run::May`;
//!  * which test case of a Cram document carries the `timeout` result when the document limit
//!    fires (scrut attributes it to the first one by design) -> `DocEnd::TimedOut{attributed:false}`;
//!  * a result for a detached test case in a skipped / timed-out document ("at most one");
//!  * anything but the exit status once the run is aborted (exit 1): scrut parses every document
//!    before it runs the first one and prints no report when it bails out;
//!  * timing of instantaneous commands under limits below 20 s (`fragile`).

use serde::Deserialize;
use serde::Serialize;

#[derive(Clone, Copy, Debug, PartialEq, Eq, Serialize, Deserialize)]
pub enum Format {
    Markdown,
    Cram,
}

/// one test case as written in a document
#[derive(Clone, Debug, PartialEq, Serialize, Deserialize)]
pub struct TestSpec {
    /// unique id: title of the test case and the word it appends to the marker log
    pub id: String,
    /// exit code the command ends with
    pub exit: i32,
    /// `exit N` (ends the whole script of a Cram document) instead of `(exit N)`
    pub hard_exit: bool,
    /// the `[N]` line of the test case
    pub expect_code: Option<i32>,
    /// the expectation equals what the command prints
    pub output_ok: bool,
    /// inline `skip_document_code` (Markdown only)
    pub skip_code: Option<i32>,
    /// inline `timeout` (Markdown only)
    pub timeout_ms: Option<u64>,
    /// the command sleeps that long after writing its marker
    pub sleep_ms: u64,
    /// inline `detached: true` (Markdown only)
    pub detached: bool,
    /// inline `wait: <duration>` (Markdown only): scrut sleeps that long before it starts the
    /// command; the sleep counts against the document limit
    #[serde(default)]
    pub wait_ms: Option<u64>,
    /// the command first makes its shell deaf to SIGTERM: 0 = no, 1 = `trap '' TERM` (ignored),
    /// 2 = `trap 'echo cleanup' TERM` (handler); or it gives up its output streams before it goes
    /// on: 3 = `exec >&- 2>&-` (closed), 4 = `exec >/dev/null 2>&1` (redirected). No influence on the model: a limit bounds such a
    /// command like any other
    #[serde(default)]
    pub trap_term: u8,
    /// the command prints (and the expectation contains) that many extra characters: makes the
    /// document / the compiled script large
    #[serde(default)]
    pub pad: u16,
    /// the command ends by sending this signal to its own shell (`kill -N $$`; 0 = it does not):
    /// the execution ends without an exit code
    #[serde(default)]
    pub kill_self: u8,
    /// `wait: {timeout: <wait_ms>, path: <wait_path>}`: the wait ends as soon as the path exists
    /// below the temporary directory of the document (`$TMPDIR` of the test cases)
    #[serde(default)]
    pub wait_path: Option<String>,
    /// an earlier test case creates that path (before, or a fraction of a second into the wait)
    #[serde(default)]
    pub wait_path_appears: bool,
    /// additional shell text right after the marker (e.g. `touch "$TMPDIR/ready"`)
    #[serde(default)]
    pub extra: String,
}

impl TestSpec {
    pub fn pass(id: &str) -> TestSpec {
        TestSpec {
            id: id.to_string(),
            exit: 0,
            hard_exit: false,
            expect_code: None,
            output_ok: true,
            skip_code: None,
            timeout_ms: None,
            sleep_ms: 0,
            detached: false,
            wait_ms: None,
            trap_term: 0,
            pad: 0,
            kill_self: 0,
            wait_path: None,
            wait_path_appears: false,
            extra: String::new(),
        }
    }
}

#[derive(Clone, Copy, Debug, PartialEq, Eq, Serialize, Deserialize)]
pub enum Defect {
    None,
    /// the path is given on the command line but no file is written
    Missing,
    /// front-matter that is not valid YAML for a document configuration (Markdown)
    BadFrontMatter,
    /// file content is not UTF-8
    NotUtf8,
    /// front-matter `shell:` names a program that does not exist (Markdown)
    MissingShell,
}

#[derive(Clone, Debug, PartialEq, Serialize, Deserialize)]
pub struct DocSpec {
    /// path relative to the directory scrut runs in, e.g. `d0.md`, `sub/d1.t`, `aux/p0.md`
    pub name: String,
    pub format: Format,
    pub tests: Vec<TestSpec>,
    /// front-matter prepend / append: names of auxiliary documents (Markdown only)
    pub prepend: Vec<String>,
    pub append: Vec<String>,
    /// front-matter `defaults: {skip_document_code: N}` (Markdown only)
    pub skip_code: Option<i32>,
    /// front-matter `total_timeout` in ms (Markdown only); Some(0) = unlimited
    pub total_timeout_ms: Option<u64>,
    pub defect: Defect,
    /// that many additional passing test cases (padded with `filler_pad` characters) follow the
    /// listed ones: large documents without large case descriptions
    #[serde(default)]
    pub filler: usize,
    #[serde(default)]
    pub filler_pad: u16,
    /// the file is written there (path relative to the run directory) and `name` - the path by
    /// which scrut reaches the document - leads to it through the symbolic link `link`
    #[serde(default)]
    pub stored_at: Option<String>,
    /// (link path, target path), both relative to the run directory; the target is a directory
    /// or the document itself. Never points to an ancestor: no cycles
    #[serde(default)]
    pub link: Option<(String, String)>,
}

impl DocSpec {
    pub fn new(name: &str, format: Format, tests: Vec<TestSpec>) -> DocSpec {
        DocSpec {
            name: name.to_string(),
            format,
            tests,
            prepend: vec![],
            append: vec![],
            skip_code: None,
            total_timeout_ms: None,
            defect: Defect::None,
            filler: 0,
            filler_pad: 0,
            stored_at: None,
            link: None,
        }
    }

    /// the listed test cases followed by the filler ones
    pub fn all_tests(&self) -> Vec<TestSpec> {
        let mut v = self.tests.clone();
        let stem: String = self.name.chars().filter(|c| c.is_ascii_alphanumeric()).collect();
        for i in 0..self.filler {
            let mut t = TestSpec::pass(&format!("{stem}f{i}"));
            t.pad = self.filler_pad;
            v.push(t);
        }
        v
    }
}

#[derive(Clone, Debug, PartialEq, Serialize, Deserialize)]
pub struct RunSpec {
    /// documents under test
    pub docs: Vec<DocSpec>,
    /// auxiliary documents (only reached through prepend / append)
    pub aux: Vec<DocSpec>,
    /// paths given on the command line, in order: a document name or a directory
    /// (`sub` stands for all documents named `sub/...`)
    pub args: Vec<String>,
    pub cli_prepend: Vec<String>,
    pub cli_append: Vec<String>,
    /// `--timeout-seconds`
    pub cli_timeout_s: Option<u64>,
    /// `--cram-compat`: Markdown documents are executed like Cram documents, i.e. all test cases
    /// of a document in ONE bash script with ONE configuration
    #[serde(default)]
    pub cram_compat: bool,
}

pub const DEFAULT_SKIP_CODE: i32 = 80;
pub const DEFAULT_DOC_LIMIT_MS: u64 = 900_000;

#[derive(Clone, Copy, Debug, PartialEq, Eq, Hash, PartialOrd, Ord)]
pub enum Class {
    Pass,
    Fail,
    Timeout,
    Skipped,
}

impl Class {
    pub fn name(&self) -> &'static str {
        match self {
            Class::Pass => "pass",
            Class::Fail => "fail",
            Class::Timeout => "timeout",
            Class::Skipped => "skipped",
        }
    }
    /// classification of a `result.kind` of the JSON report
    pub fn of_kind(kind: &str) -> Class {
        match kind {
            "success" => Class::Pass,
            "timeout" => Class::Timeout,
            "skipped" => Class::Skipped,
            _ => Class::Fail,
        }
    }
}

#[derive(Clone, Copy, Debug, PartialEq, Eq)]
pub enum Run {
    /// the marker must appear exactly once
    Must,
    /// the marker may appear at most once
    May,
}

#[derive(Clone, Copy, Debug, PartialEq, Eq, Hash)]
pub enum Role {
    PrependCli,
    PrependDoc,
    Own,
    AppendDoc,
    AppendCli,
}

impl Role {
    pub fn name(&self) -> &'static str {
        match self {
            Role::PrependCli => "prepend-cli",
            Role::PrependDoc => "prepend-doc",
            Role::Own => "own",
            Role::AppendDoc => "append-doc",
            Role::AppendCli => "append-cli",
        }
    }
}

#[derive(Clone, Debug)]
pub struct TestModel {
    pub id: String,
    pub role: Role,
    pub detached: bool,
    pub run: Run,
    /// number of results: min..=max
    pub min: u8,
    pub max: u8,
    /// admissible result classes (empty = any)
    pub classes: Vec<Class>,
}

#[derive(Clone, Debug, PartialEq)]
pub enum DocEnd {
    Completed,
    Skipped { by: usize },
    /// `attributed`: the timeout result belongs to test `at` (Markdown); otherwise (Cram) only
    /// "at least one timeout, the rest skipped" is claimed
    /// `or_next`: the document limit ran out while scrut waited (`wait`) before test `at`; the
    /// statements do not decide whether `at` or the test case after it is the aborted one
    TimedOut { at: usize, attributed: bool, or_next: bool },
    /// (Markdown) the shell of test case `at` was killed by a signal: no exit code. That test
    /// case can never be a success (C05); the statements do not say whether the following ones
    /// are run (scrut does not run them and reports each as failed) - only that nothing exited
    /// with a skip code and nothing timed out, so none of them is `skipped`
    Killed { at: usize },
    Aborted(&'static str),
}

impl DocEnd {
    pub fn name(&self) -> &'static str {
        match self {
            DocEnd::Completed => "completed",
            DocEnd::Skipped { .. } => "skipped",
            DocEnd::TimedOut { .. } => "timed-out",
            DocEnd::Killed { .. } => "killed",
            DocEnd::Aborted(_) => "aborted",
        }
    }
}

#[derive(Clone, Debug)]
pub struct DocModel {
    pub name: String,
    pub format: Format,
    /// executed as one script (Cram document, or Markdown under `--cram-compat`)
    pub script: bool,
    pub seq: Vec<TestModel>,
    /// validation class every test case would get if the document ran to completion
    pub base: Vec<Option<Class>>,
    pub end: DocEnd,
    /// at least one result of this document is a failure or a timeout
    pub fails: bool,
    /// an instantaneous command runs under a limit below 20 s: a loaded machine may time it out
    pub fragile: bool,
}

#[derive(Clone, Debug)]
pub struct RunModel {
    pub docs: Vec<DocModel>,
    /// documents in command line order; a directory argument yields one group whose inner order
    /// is not specified
    pub groups: Vec<Vec<usize>>,
    pub aborted: Option<&'static str>,
    pub exit: i32,
}

/// the model cannot decide this run (generator should not produce it): reason
pub type Undecided = String;

fn find<'a>(run: &'a RunSpec, name: &str) -> Option<&'a DocSpec> {
    run.aux.iter().chain(run.docs.iter()).find(|d| d.name == name)
}

/// effective document limit in ms (None = unlimited)
pub fn doc_limit_ms(run: &RunSpec, doc: &DocSpec) -> Option<u64> {
    // the command line overrides the front-matter, which overrides the default
    let l = match run.cli_timeout_s {
        Some(s) => s * 1000,
        None => doc.total_timeout_ms.unwrap_or(DEFAULT_DOC_LIMIT_MS),
    };
    if l == 0 {
        None
    } else {
        Some(l)
    }
}

#[derive(PartialEq)]
enum Timing {
    InTime,
    /// instantaneous command under a limit < 20 s
    Fragile,
    TimesOut,
}

/// `limit` = smallest applicable limit for this test case
fn timing(sleep_ms: u64, limit: Option<u64>) -> Result<Timing, Undecided> {
    let Some(limit) = limit else {
        return Ok(Timing::InTime);
    };
    if sleep_ms == 0 {
        return Ok(if limit >= 20_000 { Timing::InTime } else { Timing::Fragile });
    }
    if sleep_ms >= limit.saturating_mul(8) {
        return Ok(Timing::TimesOut);
    }
    if limit >= sleep_ms.saturating_mul(8) && limit >= 20_000 {
        return Ok(Timing::InTime);
    }
    Err(format!("sleep {sleep_ms} ms under a limit of {limit} ms is not separated by a factor 8"))
}

fn validation_class(t: &TestSpec) -> Class {
    if t.exit != t.expect_code.unwrap_or(0) || !t.output_ok {
        Class::Fail
    } else {
        Class::Pass
    }
}

pub fn model_run(run: &RunSpec) -> Result<RunModel, Undecided> {
    // command line arguments -> groups of documents
    let mut groups: Vec<Vec<usize>> = vec![];
    let mut aborted: Option<&'static str> = None;
    let mut used = vec![false; run.docs.len()];
    for a in &run.args {
        if let Some(i) = run.docs.iter().position(|d| &d.name == a) {
            if used[i] {
                return Err("document given twice".into());
            }
            used[i] = true;
            groups.push(vec![i]);
        } else {
            let prefix = format!("{a}/");
            let g: Vec<usize> = (0..run.docs.len()).filter(|i| run.docs[*i].name.starts_with(&prefix)).collect();
            if g.is_empty() {
                return Err(format!("argument {a} names nothing"));
            }
            for i in &g {
                if used[*i] {
                    return Err("document given twice".into());
                }
                if run.docs[*i].defect == Defect::Missing {
                    // a file that is not there is simply not found by the directory scan
                    return Err("missing document inside a directory argument".into());
                }
                used[*i] = true;
            }
            groups.push(g);
        }
    }
    if used.iter().any(|u| !*u) {
        return Err("document not reachable from the arguments".into());
    }

    let mut docs = vec![];
    for d in &run.docs {
        let m = model_doc(run, d)?;
        if let DocEnd::Aborted(why) = &m.end {
            if aborted.is_none() {
                aborted = Some(why);
            }
        }
        docs.push(m);
    }
    if aborted.is_some() {
        // nothing but the exit status is claimed: every marker optional, no results judged
        for d in docs.iter_mut() {
            for t in d.seq.iter_mut() {
                t.run = Run::May;
                t.min = 0;
                t.max = 1;
                t.classes = vec![];
            }
        }
    }
    let exit = if aborted.is_some() {
        1
    } else if docs.iter().any(|d| d.fails) {
        50
    } else {
        0
    };
    Ok(RunModel {
        docs,
        groups,
        aborted,
        exit,
    })
}

fn collect<'a>(
    run: &'a RunSpec,
    doc: &DocSpec,
    role: Role,
    names: &[String],
    parts: &mut Vec<(Role, &'a DocSpec)>,
    abort: &mut Option<&'static str>,
) -> Result<(), Undecided> {
    for n in names {
        let Some(a) = find(run, n) else {
            return Err(format!("unknown include {n}"));
        };
        match a.defect {
            Defect::None => {}
            Defect::Missing => *abort = abort.or(Some("missing-include")),
            _ => *abort = abort.or(Some("unparsable-include")),
        }
        if a.format != doc.format {
            // the Cram executor rejects test cases with differing configuration, the Markdown
            // executor runs Cram test cases with Cram defaults: not modelled
            return Err("included document of another format".into());
        }
        if !a.prepend.is_empty() || !a.append.is_empty() || a.skip_code.is_some() || a.total_timeout_ms.is_some() {
            return Err("configuration inside an included document".into());
        }
        parts.push((role, a));
    }
    Ok(())
}

/// results and marker obligations of a document that ended with `end`;
/// `ran_upto` = index of the last test case that certainly started (skip) / `at` (timeout)
fn finalize(seq: &mut [TestModel], base: &[Option<Class>], end: &DocEnd, ran_upto: usize) -> bool {
    let mut fails = false;
    match end {
        DocEnd::Completed => {
            for (i, t) in seq.iter_mut().enumerate() {
                t.run = Run::Must;
                if t.detached {
                    t.min = 0;
                    t.max = 0;
                    t.classes = vec![];
                } else {
                    t.min = 1;
                    t.max = 1;
                    t.classes = base[i].map(|c| vec![c]).unwrap_or_default();
                    if base[i] == Some(Class::Fail) {
                        fails = true;
                    }
                }
            }
        }
        DocEnd::Skipped { .. } => {
            for (i, t) in seq.iter_mut().enumerate() {
                t.run = if i <= ran_upto { Run::Must } else { Run::May };
                t.classes = vec![Class::Skipped];
                t.min = if t.detached { 0 } else { 1 };
                t.max = 1;
            }
        }
        DocEnd::TimedOut { at, attributed, or_next } => {
            fails = true;
            for (i, t) in seq.iter_mut().enumerate() {
                t.min = if t.detached { 0 } else { 1 };
                t.max = 1;
                if *or_next && (i == *at || i == *at + 1) {
                    t.run = Run::May;
                    t.classes = vec![Class::Timeout, Class::Fail];
                    if i == *at {
                        t.classes.extend(base[i]);
                    } else {
                        t.classes.push(Class::Skipped);
                    }
                    t.classes.sort();
                    t.classes.dedup();
                    continue;
                }
                if i < *at {
                    t.run = Run::Must;
                    t.classes = if t.detached {
                        vec![]
                    } else if *attributed {
                        base[i].map(|c| vec![c]).unwrap_or_default()
                    } else {
                        vec![Class::Timeout, Class::Skipped]
                    };
                } else if i == *at {
                    t.run = Run::May;
                    t.classes = if *attributed { vec![Class::Timeout] } else { vec![Class::Timeout, Class::Skipped] };
                } else {
                    t.run = Run::May;
                    t.classes = vec![Class::Skipped];
                }
            }
        }
        DocEnd::Killed { at } => {
            fails = true;
            for (i, t) in seq.iter_mut().enumerate() {
                t.min = if t.detached { 0 } else { 1 };
                t.max = 1;
                if i < *at {
                    t.run = Run::Must;
                    if t.detached {
                        t.max = 0;
                        t.classes = vec![];
                    } else {
                        t.classes = base[i].map(|c| vec![c]).unwrap_or_default();
                    }
                } else if i == *at {
                    t.run = Run::Must;
                    t.classes = vec![Class::Fail];
                } else {
                    t.run = Run::May;
                    t.classes = vec![Class::Pass, Class::Fail];
                }
            }
        }
        DocEnd::Aborted(_) => {
            for t in seq.iter_mut() {
                t.run = Run::May;
                t.min = 0;
                t.max = 1;
                t.classes = vec![];
            }
        }
    }
    fails
}

impl DocModel {
    /// the same document with the (document level) timeout striking at test case `at` already:
    /// used for `fragile` documents when the report shows an earlier timeout than modelled
    pub fn with_timeout_at(&self, at: usize) -> DocModel {
        let mut d = self.clone();
        d.end = DocEnd::TimedOut {
            at,
            attributed: !self.script,
            or_next: false,
        };
        d.fails = finalize(&mut d.seq, &self.base, &d.end, at);
        d
    }
}

fn model_doc(run: &RunSpec, doc: &DocSpec) -> Result<DocModel, Undecided> {
    let mut abort: Option<&'static str> = match doc.defect {
        Defect::None => None,
        Defect::Missing => Some("missing-document"),
        Defect::BadFrontMatter => Some("unparsable-document"),
        Defect::NotUtf8 => Some("unreadable-document"),
        Defect::MissingShell => Some("missing-shell"),
    };
    if doc.stored_at.is_some() && (!doc.prepend.is_empty() || !doc.append.is_empty() || doc.defect != Defect::None) {
        // includes are resolved relative to the directory of the path as given; through a link
        // `..` leads somewhere else: not modelled
        return Err("front-matter includes / defect in a document reached through a symbolic link".into());
    }
    if doc.format == Format::Cram
        && (!doc.prepend.is_empty() || !doc.append.is_empty() || doc.skip_code.is_some() || doc.total_timeout_ms.is_some())
    {
        return Err("Cram documents have no front-matter".into());
    }
    // concatenation
    let mut parts: Vec<(Role, &DocSpec)> = vec![];
    collect(run, doc, Role::PrependCli, &run.cli_prepend, &mut parts, &mut abort)?;
    collect(run, doc, Role::PrependDoc, &doc.prepend, &mut parts, &mut abort)?;
    parts.push((Role::Own, doc));
    collect(run, doc, Role::AppendDoc, &doc.append, &mut parts, &mut abort)?;
    collect(run, doc, Role::AppendCli, &run.cli_append, &mut parts, &mut abort)?;

    let owned: Vec<(Role, TestSpec)> = parts.iter().flat_map(|(r, d)| d.all_tests().into_iter().map(move |t| (*r, t))).collect();
    let tests: Vec<(Role, &TestSpec)> = owned.iter().map(|(r, t)| (*r, t)).collect();
    let mut seq: Vec<TestModel> = tests
        .iter()
        .map(|(role, t)| TestModel {
            id: t.id.clone(),
            role: *role,
            detached: t.detached,
            run: Run::Must,
            min: 1,
            max: 1,
            classes: vec![],
        })
        .collect();
    let mut base: Vec<Option<Class>> = vec![None; tests.len()];

    let script = doc.format == Format::Cram || run.cram_compat;
    // script mode: one skip code for the whole script. scrut refuses a script whose test cases
    // differ in configuration ("inconsistent configuration value"): not modelled
    let mut script_code = DEFAULT_SKIP_CODE;
    if script {
        let codes: Vec<i32> = tests.iter().map(|(_, t)| t.skip_code.or(doc.skip_code).unwrap_or(DEFAULT_SKIP_CODE)).collect();
        if let Some(first) = codes.first() {
            if codes.iter().any(|c| c != first) {
                return Err("test cases of one script with different skip codes".into());
            }
            script_code = *first;
        }
        if run.cram_compat && tests.iter().any(|(r, _)| *r != Role::Own) {
            return Err("includes under --cram-compat".into());
        }
        if tests.iter().any(|(_, t)| t.detached || t.timeout_ms.is_some() || t.wait_ms.is_some()) {
            return Err("detached test case / per-test timeout in a script".into());
        }
    }
    let limit = doc_limit_ms(run, doc);
    let mut elapsed: u64 = 0;
    let mut end = DocEnd::Completed;
    let mut ran_upto = tests.len().saturating_sub(1);
    let mut fragile = false;
    let mut soft_skipper: Option<usize> = None; // Cram: `(exit 80)` seen, the script runs on

    if let Some(why) = abort {
        end = DocEnd::Aborted(why);
    } else {
        for (i, (role, t)) in tests.iter().enumerate() {
            if doc.format == Format::Cram && (t.skip_code.is_some() || t.timeout_ms.is_some() || t.detached) {
                return Err("inline configuration in a Cram document".into());
            }
            // the skip code in force for this test case; included test cases are parsed with
            // their own document's defaults, so a custom document code next to included test
            // cases that exit with 80 or with that code is a corner the statement does not decide
            let own_code = t.skip_code.or(doc.skip_code).unwrap_or(DEFAULT_SKIP_CODE);
            if *role != Role::Own {
                if t.skip_code.is_some() {
                    return Err("skip code configured in an included test case".into());
                }
                if doc.skip_code.is_some() && (t.exit == DEFAULT_SKIP_CODE || Some(t.exit) == doc.skip_code) {
                    return Err("included test case exits with a skip code while the document has a custom one".into());
                }
            }
            if t.detached {
                if t.sleep_ms > 0 || t.timeout_ms.is_some() || t.wait_ms.is_some() || t.kill_self != 0 {
                    return Err("detached test case with timing".into());
                }
                // not waited for: no exit code observed, no result
                continue;
            }
            // `wait`: scrut sleeps before it starts the command, after the limit for the command
            // has been fixed; the sleep uses up document time
            if t.wait_path.is_some() && t.wait_path_appears {
                // the path is there: scrut goes on at once, the wait costs (next to) nothing.
                // Decided only under limits that instantaneous commands cannot exceed
                if script || t.timeout_ms.is_some() || t.sleep_ms > 0 || limit.is_some_and(|l| l < 20_000) {
                    return Err("wait for an existing path under a short limit / in script mode".into());
                }
            } else if let Some(w) = t.wait_ms {
                if script || t.timeout_ms.is_some() || t.sleep_ms > 0 {
                    return Err("wait combined with script mode / per-test timeout / sleep".into());
                }
                match limit {
                    None => {}
                    Some(l) if w >= l => {
                        // the sleep alone is at least the whole document limit: the budget is
                        // certainly gone when the wait ends, the document is reported as timed out
                        // (at this test case, or at the next one if there is one)
                        let rest = &tests[i + 1..];
                        if rest.iter().any(|(_, r)| r.detached || r.wait_ms.is_some()) {
                            return Err("document budget used up by a wait in front of a detached / waiting test case".into());
                        }
                        if elapsed > 0 {
                            return Err("wait after a sleeping test case".into());
                        }
                        fragile = true;
                        end = DocEnd::TimedOut {
                            at: i,
                            attributed: true,
                            or_next: true,
                        };
                        ran_upto = i;
                        break;
                    }
                    Some(l) if l >= 20_000 && w.saturating_mul(8) <= l => {}
                    Some(l) => return Err(format!("wait of {w} ms under a document limit of {l} ms is not separated")),
                }
                elapsed += w;
            }
            // timing: the smallest applicable limit
            let remaining = limit.map(|l| l.saturating_sub(elapsed));
            let applicable = match (t.timeout_ms, remaining) {
                (Some(a), Some(b)) => Some(a.min(b)),
                (a, b) => a.or(b),
            };
            match timing(t.sleep_ms, applicable)? {
                Timing::TimesOut => {
                    end = DocEnd::TimedOut {
                        at: i,
                        attributed: !script,
                        or_next: false,
                    };
                    ran_upto = i;
                    break;
                }
                Timing::Fragile => fragile = true,
                Timing::InTime => {}
            }
            elapsed += t.sleep_ms;
            base[i] = Some(validation_class(t));
            if t.kill_self != 0 {
                if script {
                    // the whole script dies: scrut gives up on the run; not modelled
                    return Err("a test case kills the shell of a script-mode document".into());
                }
                if t.sleep_ms > 0 || t.timeout_ms.is_some() || t.wait_ms.is_some() {
                    return Err("a test case that kills its shell, with timing".into());
                }
                if tests[i + 1..].iter().any(|(_, r)| r.detached) {
                    return Err("detached test case after a killed shell".into());
                }
                end = DocEnd::Killed { at: i };
                ran_upto = i;
                break;
            }

            match script {
                false => {
                    if t.exit == own_code {
                        end = DocEnd::Skipped { by: i };
                        ran_upto = i;
                        break;
                    }
                }
                true => {
                    if t.hard_exit {
                        // the script ends here; its exit status is `t.exit`
                        ran_upto = i;
                        if t.exit == script_code {
                            end = DocEnd::Skipped { by: i };
                        } else if let Some(by) = soft_skipper {
                            end = DocEnd::Skipped { by };
                        } else {
                            end = DocEnd::Aborted("cram-script-exit");
                        }
                        break;
                    }
                    if t.exit == script_code && soft_skipper.is_none() {
                        soft_skipper = Some(i);
                    }
                }
            }
        }
        if let (DocEnd::Completed, Some(by)) = (&end, soft_skipper) {
            // every test case of the Cram script ran; the document is skipped
            end = DocEnd::Skipped { by };
        }
    }
    // (base of test cases that were not reached: what they would yield)
    for (i, (_, t)) in tests.iter().enumerate() {
        if base[i].is_none() && !t.detached {
            base[i] = Some(validation_class(t));
        }
    }
    let fails = finalize(&mut seq, &base, &end, ran_upto);
    Ok(DocModel {
        name: doc.name.clone(),
        format: doc.format,
        script,
        seq,
        base,
        end,
        fails,
        fragile,
    })
}

#[cfg(test)]
mod tests {
    use super::*;

    fn run_of(docs: Vec<DocSpec>) -> RunSpec {
        RunSpec {
            args: docs.iter().map(|d| d.name.clone()).collect(),
            docs,
            aux: vec![],
            cli_prepend: vec![],
            cli_append: vec![],
            cli_timeout_s: None,
            cram_compat: false,
        }
    }

    #[test]
    fn skip_in_the_middle() {
        let mut t = TestSpec::pass("b");
        t.exit = 80;
        let m = model_run(&run_of(vec![DocSpec::new("a.md", Format::Markdown, vec![TestSpec::pass("a"), t, TestSpec::pass("c")])])).unwrap();
        assert_eq!(m.exit, 0);
        assert_eq!(m.docs[0].end, DocEnd::Skipped { by: 1 });
        assert_eq!(m.docs[0].seq[2].run, Run::May);
    }

    #[test]
    fn cram_exit_aborts() {
        let mut t = TestSpec::pass("b");
        t.exit = 3;
        t.hard_exit = true;
        let m = model_run(&run_of(vec![DocSpec::new("a.t", Format::Cram, vec![TestSpec::pass("a"), t])])).unwrap();
        assert_eq!(m.exit, 1);
    }
}
