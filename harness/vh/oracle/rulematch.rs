//! Independent matchers for the documented expectation kinds (C04, shared with C08 / C11).
//!
//! Nothing in here uses scrut, `regex`, `wildmatch` or `unicode_categories`. Expressions are kept as
//! *structures* (token lists, a regex AST); the text handed to scrut is rendered from the structure, so
//! the meaning of every expression is known by construction.

use serde::Deserialize;
use serde::Serialize;

use crate::rng::Rng;

// ---------------------------------------------------------------------------------------------
// lines
// ---------------------------------------------------------------------------------------------

/// "final newline ignored": one trailing LF is not part of the content
pub fn strip_final_newline(line: &[u8]) -> &[u8] {
    match line.last() {
        Some(b'\n') => &line[..line.len() - 1],
        _ => line,
    }
}

pub fn scalars(s: &str) -> Vec<char> {
    s.chars().collect()
}

// ---------------------------------------------------------------------------------------------
// escaped expressions
// ---------------------------------------------------------------------------------------------

#[derive(Clone, Debug, PartialEq, Eq, Serialize, Deserialize)]
pub enum EscTok {
    /// any scalar except backslash and LF, stands for its UTF-8 bytes
    Lit(char),
    /// `\\` = one backslash byte
    Backslash,
    /// `\t \r \a \b \e \f \v`
    Named(char),
    /// `\xHH`: value, case mask (bit 0: first digit upper case, bit 1: second digit upper case)
    Hex(u8, u8),
    /// `\0OO`: value 0..=63
    Oct(u8),
    /// backslash followed by a character without documented meaning (`\q`): no-panic clause only
    Unknown(char),
}

pub const NAMED: &[(char, u8)] = &[('t', 0x09), ('r', 0x0d), ('a', 0x07), ('b', 0x08), ('e', 0x1b), ('f', 0x0c), ('v', 0x0b)];

fn hex_digit(v: u8, upper: bool) -> char {
    let c = b"0123456789abcdef"[(v & 15) as usize] as char;
    if upper {
        c.to_ascii_uppercase()
    } else {
        c
    }
}

pub fn esc_render(toks: &[EscTok]) -> String {
    let mut s = String::new();
    for t in toks {
        match t {
            EscTok::Lit(c) => s.push(*c),
            EscTok::Backslash => s.push_str("\\\\"),
            EscTok::Named(c) => {
                s.push('\\');
                s.push(*c);
            }
            EscTok::Hex(v, mask) => {
                s.push_str("\\x");
                s.push(hex_digit(v >> 4, mask & 1 != 0));
                s.push(hex_digit(v & 15, mask & 2 != 0));
            }
            EscTok::Oct(v) => {
                s.push_str("\\0");
                s.push((b'0' + ((v >> 3) & 7)) as char);
                s.push((b'0' + (v & 7)) as char);
            }
            EscTok::Unknown(c) => {
                s.push('\\');
                s.push(*c);
            }
        }
    }
    s
}

/// the bytes the token list stands for; None if a token has no documented meaning
pub fn esc_decode(toks: &[EscTok]) -> Option<Vec<u8>> {
    let mut out = vec![];
    let mut buf = [0u8; 4];
    for t in toks {
        match t {
            EscTok::Lit(c) => out.extend_from_slice(c.encode_utf8(&mut buf).as_bytes()),
            EscTok::Backslash => out.push(b'\\'),
            EscTok::Named(c) => out.push(NAMED.iter().find(|(n, _)| n == c)?.1),
            EscTok::Hex(v, _) => out.push(*v),
            EscTok::Oct(v) => out.push(*v & 63),
            EscTok::Unknown(_) => return None,
        }
    }
    Some(out)
}

/// Tokenise arbitrary text the way the documentation describes escape sequences, left to right.
/// Err = malformed (lone trailing backslash, `\x` / `\0` without two digits).
pub fn esc_tokenise(text: &str) -> Result<Vec<EscTok>, String> {
    let cs: Vec<char> = text.chars().collect();
    let mut i = 0;
    let mut out = vec![];
    while i < cs.len() {
        let c = cs[i];
        i += 1;
        if c != '\\' {
            out.push(EscTok::Lit(c));
            continue;
        }
        let Some(&d) = cs.get(i) else {
            return Err("trailing backslash".into());
        };
        i += 1;
        match d {
            '\\' => out.push(EscTok::Backslash),
            'x' => {
                let (Some(a), Some(b)) = (cs.get(i), cs.get(i + 1)) else {
                    return Err("short hex".into());
                };
                let (Some(va), Some(vb)) = (a.to_digit(16), b.to_digit(16)) else {
                    return Err("bad hex".into());
                };
                if !a.is_ascii() || !b.is_ascii() {
                    return Err("bad hex".into());
                }
                i += 2;
                out.push(EscTok::Hex(
                    (va * 16 + vb) as u8,
                    (a.is_ascii_uppercase() as u8) | ((b.is_ascii_uppercase() as u8) << 1),
                ));
            }
            '0' => {
                let (Some(a), Some(b)) = (cs.get(i), cs.get(i + 1)) else {
                    return Err("short octal".into());
                };
                let (Some(va), Some(vb)) = (a.to_digit(8), b.to_digit(8)) else {
                    return Err("bad octal".into());
                };
                i += 2;
                out.push(EscTok::Oct((va * 8 + vb) as u8));
            }
            n if NAMED.iter().any(|(x, _)| *x == n) => out.push(EscTok::Named(n)),
            other => out.push(EscTok::Unknown(other)),
        }
    }
    Ok(out)
}

// ---------------------------------------------------------------------------------------------
// glob
// ---------------------------------------------------------------------------------------------

#[derive(Clone, Debug, PartialEq, Eq, Serialize, Deserialize)]
pub enum GlobTok {
    /// a literal scalar (never `*` or `?`)
    Lit(char),
    /// `?`
    One,
    /// `*`
    Many,
    /// Cram variant only: `\*`, `\?`, `\\` = the literal second character
    Esc(char),
}

pub fn glob_render(toks: &[GlobTok]) -> String {
    let mut s = String::new();
    for t in toks {
        match t {
            GlobTok::Lit(c) => s.push(*c),
            GlobTok::One => s.push('?'),
            GlobTok::Many => s.push('*'),
            GlobTok::Esc(c) => {
                s.push('\\');
                s.push(*c);
            }
        }
    }
    s
}

/// In the Cram variant a literal backslash directly before `*`, `?` or `\` would read as an escape:
/// such token lists are ambiguous and not used as specified cases.
pub fn glob_unambiguous(toks: &[GlobTok], cram: bool) -> bool {
    for (i, t) in toks.iter().enumerate() {
        match t {
            GlobTok::Lit('*') | GlobTok::Lit('?') | GlobTok::Lit('\n') => return false,
            GlobTok::Esc(c) if !cram || !matches!(c, '*' | '?' | '\\') => return false,
            GlobTok::Lit('\\') if cram => {
                match toks.get(i + 1) {
                    Some(GlobTok::One) | Some(GlobTok::Many) | Some(GlobTok::Lit('\\')) | Some(GlobTok::Esc(_)) => return false,
                    _ => {}
                }
            }
            _ => {}
        }
    }
    true
}

/// whole-line glob match over scalars: `?` exactly one, `*` any run (including none)
pub fn glob_match(toks: &[GlobTok], line: &[char]) -> bool {
    let n = toks.len();
    let m = line.len();
    // reach[j] = pattern prefix i can produce line prefix j
    let mut reach = vec![false; m + 1];
    reach[0] = true;
    for i in 0..n {
        let mut next = vec![false; m + 1];
        match &toks[i] {
            GlobTok::Many => {
                let mut any = false;
                for j in 0..=m {
                    any = any || reach[j];
                    next[j] = any;
                }
            }
            GlobTok::One => {
                for j in 0..m {
                    if reach[j] {
                        next[j + 1] = true;
                    }
                }
            }
            GlobTok::Lit(c) | GlobTok::Esc(c) => {
                for j in 0..m {
                    if reach[j] && line[j] == *c {
                        next[j + 1] = true;
                    }
                }
            }
        }
        reach = next;
    }
    reach[m]
}

/// read glob text: `*` and `?` are wildcards; in the Cram variant `\*`, `\?`, `\\` are literals
pub fn glob_parse(text: &str, cram: bool) -> Vec<GlobTok> {
    let cs: Vec<char> = text.chars().collect();
    let mut out = vec![];
    let mut i = 0;
    while i < cs.len() {
        let c = cs[i];
        i += 1;
        match c {
            '\\' if cram && i < cs.len() && matches!(cs[i], '*' | '?' | '\\') => {
                out.push(GlobTok::Esc(cs[i]));
                i += 1;
            }
            '*' => out.push(GlobTok::Many),
            '?' => out.push(GlobTok::One),
            c => out.push(GlobTok::Lit(c)),
        }
    }
    out
}

// ---------------------------------------------------------------------------------------------
// regex
// ---------------------------------------------------------------------------------------------

#[derive(Clone, Debug, PartialEq, Eq, Serialize, Deserialize)]
pub enum Rep {
    Star,
    Plus,
    Opt,
    Exact(u32),
    Range(u32, u32),
    Open(u32),
}

impl Rep {
    pub fn bounds(&self) -> (u32, Option<u32>) {
        match self {
            Rep::Star => (0, None),
            Rep::Plus => (1, None),
            Rep::Opt => (0, Some(1)),
            Rep::Exact(m) => (*m, Some(*m)),
            Rep::Range(m, n) => (*m, Some(*n)),
            Rep::Open(m) => (*m, None),
        }
    }
    pub fn render(&self) -> String {
        match self {
            Rep::Star => "*".into(),
            Rep::Plus => "+".into(),
            Rep::Opt => "?".into(),
            Rep::Exact(m) => format!("{{{m}}}"),
            Rep::Range(m, n) => format!("{{{m},{n}}}"),
            Rep::Open(m) => format!("{{{m},}}"),
        }
    }
    pub fn tag(&self) -> &'static str {
        match self {
            Rep::Star => "rep*",
            Rep::Plus => "rep+",
            Rep::Opt => "rep?",
            Rep::Exact(_) => "rep{m}",
            Rep::Range(..) => "rep{m,n}",
            Rep::Open(_) => "rep{m,}",
        }
    }
}

#[derive(Clone, Debug, PartialEq, Eq, Serialize, Deserialize)]
pub enum Re {
    Lit(char),
    /// `^`: start of the line (zero width)
    Start,
    /// `$`: end of the line (zero width; the final newline is not part of the line)
    End,
    Dot,
    /// negated?, inclusive ranges (single characters are (c, c))
    Class(bool, Vec<(char, char)>),
    /// explicit capturing group
    Group(Box<Re>),
    Concat(Vec<Re>),
    /// two or more non-empty branches
    Alt(Vec<Re>),
    Repeat(Box<Re>, Rep),
}

const RE_META: &[char] = &['\\', '.', '+', '*', '?', '(', ')', '|', '[', ']', '{', '}', '^', '$'];
const CLASS_META: &[char] = &['\\', ']', '[', '^', '-'];

fn re_prec(r: &Re) -> u8 {
    match r {
        Re::Alt(_) => 0,
        Re::Concat(_) => 1,
        Re::Repeat(..) => 2,
        _ => 3,
    }
}

fn render_class_char(c: char, s: &mut String) {
    if CLASS_META.contains(&c) {
        s.push('\\');
    }
    s.push(c);
}

fn re_render_into(r: &Re, ctx: u8, s: &mut String) {
    let wrap = re_prec(r) < ctx || (matches!(r, Re::Concat(v) if v.is_empty()) && ctx >= 2);
    if wrap {
        s.push('(');
    }
    match r {
        Re::Lit(c) => {
            if RE_META.contains(c) {
                s.push('\\');
            }
            s.push(*c);
        }
        Re::Dot => s.push('.'),
        Re::Start => s.push('^'),
        Re::End => s.push('$'),
        Re::Class(neg, items) => {
            s.push('[');
            if *neg {
                s.push('^');
            }
            for (a, b) in items {
                render_class_char(*a, s);
                if a != b {
                    s.push('-');
                    render_class_char(*b, s);
                }
            }
            s.push(']');
        }
        Re::Group(inner) => {
            s.push('(');
            re_render_into(inner, 0, s);
            s.push(')');
        }
        Re::Concat(v) => {
            for x in v {
                re_render_into(x, 2, s);
            }
        }
        Re::Alt(v) => {
            for (i, x) in v.iter().enumerate() {
                if i > 0 {
                    s.push('|');
                }
                re_render_into(x, 1, s);
            }
        }
        Re::Repeat(inner, rep) => {
            // the operand must be an atom; a repetition of a repetition is grouped as well
            re_render_into(inner, 3, s);
            s.push_str(&rep.render());
        }
    }
    if wrap {
        s.push(')');
    }
}

/// standard regex text of the AST (top-level alternation is written without a group)
pub fn re_render(r: &Re) -> String {
    let mut s = String::new();
    re_render_into(r, 0, &mut s);
    s
}

/// structural sanity of an AST used as a *specified* case
pub fn re_wellformed(r: &Re) -> bool {
    match r {
        Re::Lit(c) => *c != '\n',
        Re::Dot | Re::Start | Re::End => true,
        Re::Class(_, items) => !items.is_empty() && items.iter().all(|(a, b)| a <= b && *a != '\n' && *b != '\n'),
        Re::Group(i) => re_wellformed(i) && !is_empty_concat(i),
        Re::Concat(v) => v.iter().all(|x| re_wellformed(x) && !is_empty_concat(x)),
        Re::Alt(v) => v.len() >= 2 && v.iter().all(|x| re_wellformed(x) && !is_empty_concat(x)),
        Re::Repeat(i, rep) => {
            let (m, n) = rep.bounds();
            // a repetition directly over an anchor is left to the engine's discretion
            re_wellformed(i) && n.map_or(true, |n| m <= n) && m <= 6 && n.unwrap_or(0) <= 6 && !is_empty_concat(i) && !matches!(&**i, Re::Start | Re::End)
        }
    }
}

/// the empty expression is used at top level only (`()`, `a|`, `()*` are left to the engine's discretion)
pub fn is_empty_concat(r: &Re) -> bool {
    matches!(r, Re::Concat(v) if v.is_empty())
}

pub fn re_size(r: &Re) -> usize {
    1 + match r {
        Re::Group(i) | Re::Repeat(i, _) => re_size(i),
        Re::Concat(v) | Re::Alt(v) => v.iter().map(re_size).sum(),
        _ => 0,
    }
}

/// flattened program for the evaluator
enum Node {
    Lit(char),
    Start,
    End,
    Dot,
    Class(bool, Vec<(char, char)>),
    Concat(Vec<usize>),
    Alt(Vec<usize>),
    Repeat(usize, u32, Option<u32>),
}

fn flatten(r: &Re, nodes: &mut Vec<Node>) -> usize {
    let n = match r {
        Re::Lit(c) => Node::Lit(*c),
        Re::Dot => Node::Dot,
        Re::Start => Node::Start,
        Re::End => Node::End,
        Re::Class(neg, items) => Node::Class(*neg, items.clone()),
        Re::Group(i) => return flatten(i, nodes),
        Re::Concat(v) => Node::Concat(v.iter().map(|x| flatten(x, nodes)).collect()),
        Re::Alt(v) => Node::Alt(v.iter().map(|x| flatten(x, nodes)).collect()),
        Re::Repeat(i, rep) => {
            let (m, n) = rep.bounds();
            Node::Repeat(flatten(i, nodes), m, n)
        }
    };
    nodes.push(n);
    nodes.len() - 1
}

struct Eval<'a> {
    nodes: Vec<Node>,
    line: &'a [char],
    memo: Vec<Option<u128>>,
}

impl Eval<'_> {
    /// set of end positions (bit mask) of matches of node `n` starting at `pos`
    fn ends(&mut self, n: usize, pos: usize) -> u128 {
        let w = self.line.len() + 1;
        if let Some(v) = self.memo[n * w + pos] {
            return v;
        }
        let one = |ok: bool| if ok { 1u128 << (pos + 1) } else { 0 };
        let r = match &self.nodes[n] {
            Node::Lit(c) => one(self.line.get(pos) == Some(c)),
            Node::Dot => one(self.line.get(pos).is_some_and(|c| *c != '\n')),
            // zero-width assertions on the line (no multi-line mode)
            Node::Start => {
                if pos == 0 {
                    1u128 << pos
                } else {
                    0
                }
            }
            Node::End => {
                if pos == self.line.len() {
                    1u128 << pos
                } else {
                    0
                }
            }
            Node::Class(neg, items) => match self.line.get(pos) {
                None => 0,
                Some(c) => one(items.iter().any(|(a, b)| a <= c && c <= b) != *neg),
            },
            Node::Concat(v) => {
                let v = v.clone();
                let mut cur = 1u128 << pos;
                for x in v {
                    let mut next = 0u128;
                    for p in 0..w {
                        if cur >> p & 1 == 1 {
                            next |= self.ends(x, p);
                        }
                    }
                    cur = next;
                    if cur == 0 {
                        break;
                    }
                }
                cur
            }
            Node::Alt(v) => {
                let v = v.clone();
                let mut acc = 0u128;
                for x in v {
                    acc |= self.ends(x, pos);
                }
                acc
            }
            Node::Repeat(inner, min, max) => {
                let (inner, min, max) = (*inner, *min, *max);
                // R_k = positions after exactly k iterations; result = union of R_k for min <= k <= max.
                // Once k >= min and R_{k+1} is contained in the union so far, nothing new can follow.
                let mut cur = 1u128 << pos;
                let mut acc = 0u128;
                let mut k = 0u32;
                loop {
                    if k >= min {
                        if cur & !acc == 0 && k > min {
                            break;
                        }
                        acc |= cur;
                    }
                    if max.is_some_and(|m| k >= m) || cur == 0 {
                        break;
                    }
                    let mut next = 0u128;
                    for p in 0..w {
                        if cur >> p & 1 == 1 {
                            next |= self.ends(inner, p);
                        }
                    }
                    cur = next;
                    k += 1;
                }
                acc
            }
        };
        self.memo[n * w + pos] = Some(r);
        r
    }
}

/// full match of the whole line (scalars) against the AST. Lines longer than 120 scalars: None.
pub fn re_full_match(r: &Re, line: &[char]) -> Option<bool> {
    if line.len() > 120 {
        return None;
    }
    let mut nodes = vec![];
    let root = flatten(r, &mut nodes);
    let w = line.len() + 1;
    let mut ev = Eval {
        memo: vec![None; nodes.len() * w],
        nodes,
        line,
    };
    Some(ev.ends(root, 0) >> line.len() & 1 == 1)
}

/// a word of the language of the AST (None if a negated class cannot be satisfied from the pool)
pub fn re_sample(r: &Re, rng: &mut Rng, pool: &[char]) -> Option<String> {
    let mut s = String::new();
    re_sample_into(r, rng, pool, &mut s)?;
    Some(s)
}

fn re_sample_into(r: &Re, rng: &mut Rng, pool: &[char], s: &mut String) -> Option<()> {
    match r {
        Re::Lit(c) => s.push(*c),
        Re::Dot => s.push(*rng.pick(pool)),
        Re::Start | Re::End => {}
        Re::Class(false, items) => {
            let (a, b) = *rng.pick(items);
            let span = b as u32 - a as u32;
            let c = char::from_u32(a as u32 + (rng.below(span as usize + 1) as u32)).unwrap_or(a);
            s.push(c);
        }
        Re::Class(true, items) => {
            let mut found = None;
            for _ in 0..8 {
                let c = *rng.pick(pool);
                if !items.iter().any(|(a, b)| *a <= c && c <= *b) {
                    found = Some(c);
                    break;
                }
            }
            s.push(found?);
        }
        Re::Group(i) => re_sample_into(i, rng, pool, s)?,
        Re::Concat(v) => {
            for x in v {
                re_sample_into(x, rng, pool, s)?;
            }
        }
        Re::Alt(v) => re_sample_into(rng.pick(v), rng, pool, s)?,
        Re::Repeat(i, rep) => {
            let (m, n) = rep.bounds();
            let hi = n.unwrap_or(m + 3).min(m + 3);
            let k = m + rng.below((hi - m + 1) as usize) as u32;
            for _ in 0..k {
                re_sample_into(i, rng, pool, s)?;
            }
        }
    }
    Some(())
}

/// structural tags of an AST (for signatures and shape hashes)
pub fn re_tags(r: &Re, top: bool, out: &mut Vec<String>) {
    let mut add = |t: &str| {
        if !out.iter().any(|x| x == t) {
            out.push(t.to_string());
        }
    };
    match r {
        Re::Lit(c) => {
            if RE_META.contains(c) {
                add("lit-meta");
            } else if *c == '<' || *c == '>' {
                add("lit-angle");
            } else if !c.is_ascii() {
                add("lit-nonascii");
            } else if (*c as u32) < 0x20 || *c as u32 == 0x7f {
                add("lit-control");
            }
        }
        Re::Dot => add("dot"),
        Re::Start => add("anchor-start"),
        Re::End => add("anchor-end"),
        Re::Class(neg, items) => {
            add(if *neg { "negclass" } else { "class" });
            if items.iter().any(|(a, b)| CLASS_META.contains(a) || CLASS_META.contains(b)) {
                add("class-meta");
            }
        }
        Re::Group(i) => {
            add("group");
            re_tags(i, false, out);
        }
        Re::Concat(v) => {
            for x in v {
                re_tags(x, false, out);
            }
        }
        Re::Alt(v) => {
            add(if top { "alt-top" } else { "alt" });
            for x in v {
                re_tags(x, false, out);
            }
        }
        Re::Repeat(i, rep) => {
            add(rep.tag());
            re_tags(i, false, out);
        }
    }
}

/// smaller ASTs (one step), for shrinking
pub fn re_shrinks(r: &Re) -> Vec<Re> {
    let mut out = vec![];
    match r {
        Re::Lit(c) => {
            if *c != 'a' {
                out.push(Re::Lit('a'));
            }
        }
        Re::Dot => out.push(Re::Lit('a')),
        Re::Start | Re::End => {}
        Re::Class(neg, items) => {
            out.push(Re::Lit(items[0].0));
            if items.len() > 1 {
                for i in 0..items.len() {
                    let mut v = items.clone();
                    v.remove(i);
                    out.push(Re::Class(*neg, v));
                }
            }
            for (i, (a, b)) in items.iter().enumerate() {
                if a != b {
                    let mut v = items.clone();
                    v[i] = (*a, *a);
                    out.push(Re::Class(*neg, v));
                } else if *a != 'a' {
                    let mut v = items.clone();
                    v[i] = ('a', 'a');
                    out.push(Re::Class(*neg, v));
                }
            }
            if *neg {
                out.push(Re::Class(false, items.clone()));
            }
        }
        Re::Group(i) => {
            out.push((**i).clone());
            for x in re_shrinks(i) {
                out.push(Re::Group(Box::new(x)));
            }
        }
        Re::Concat(v) => {
            if v.len() == 1 {
                out.push(v[0].clone());
            }
            for i in 0..v.len() {
                if v.len() > 1 {
                    let mut w = v.clone();
                    w.remove(i);
                    out.push(Re::Concat(w));
                }
            }
            for i in 0..v.len() {
                for x in re_shrinks(&v[i]) {
                    let mut w = v.clone();
                    w[i] = x;
                    out.push(Re::Concat(w));
                }
            }
        }
        Re::Alt(v) => {
            for x in v {
                out.push(x.clone());
            }
            if v.len() > 2 {
                for i in 0..v.len() {
                    let mut w = v.clone();
                    w.remove(i);
                    out.push(Re::Alt(w));
                }
            }
            for i in 0..v.len() {
                for x in re_shrinks(&v[i]) {
                    if matches!(&x, Re::Concat(c) if c.is_empty()) {
                        continue;
                    }
                    let mut w = v.clone();
                    w[i] = x;
                    out.push(Re::Alt(w));
                }
            }
        }
        Re::Repeat(i, rep) => {
            out.push((**i).clone());
            let simpler = match rep {
                Rep::Range(m, n) if *m > 0 => Some(Rep::Range(m - 1, *n)),
                Rep::Range(m, n) if *n > m + 1 => Some(Rep::Range(*m, n - 1)),
                Rep::Exact(m) if *m > 1 => Some(Rep::Exact(m - 1)),
                Rep::Open(m) if *m > 0 => Some(Rep::Open(m - 1)),
                _ => None,
            };
            if let Some(s) = simpler {
                out.push(Re::Repeat(i.clone(), s));
            }
            for x in re_shrinks(i) {
                if matches!(&x, Re::Concat(c) if c.is_empty()) {
                    continue;
                }
                out.push(Re::Repeat(Box::new(x), rep.clone()));
            }
        }
    }
    out
}

// ---------------------------------------------------------------------------------------------
// expectation-line suffix scanner (C08)
// ---------------------------------------------------------------------------------------------

pub const KINDS: &[(&str, &str)] = &[
    ("equal", "equal"),
    ("eq", "equal"),
    ("no-eol", "no-eol"),
    ("escaped", "escaped"),
    ("esc", "escaped"),
    ("glob", "glob"),
    ("gl", "glob"),
    ("regex", "regex"),
    ("re", "regex"),
];

/// characters other than U+0020 that a `\s` of a Unicode-aware regex engine accepts (White_Space)
pub const OTHER_BLANKS: &[char] = &[
    '\t', '\u{0b}', '\u{0c}', '\r', '\u{85}', '\u{a0}', '\u{1680}', '\u{2000}', '\u{2001}', '\u{2002}', '\u{2003}', '\u{2004}',
    '\u{2005}', '\u{2006}', '\u{2007}', '\u{2008}', '\u{2009}', '\u{200a}', '\u{2028}', '\u{2029}', '\u{202f}', '\u{205f}',
    '\u{3000}',
];

#[derive(Clone, Debug, PartialEq, Eq)]
pub enum Scan {
    /// the line ends in ` (<kind>?<quantifier>?)` with at least one of them: (expression, canonical kind, quantifier)
    Modifier { expr: String, kind: &'static str, quant: String },
    /// the same group, but the blank before it is a white-space character other than U+0020: not specified
    OtherBlank,
    /// anything else: an `equal` expectation for the whole line
    WholeLine,
}

/// split `content` of a final group into (kind, quantifier) if it is a documented modifier
pub fn modifier_of(content: &str) -> Option<(&'static str, String)> {
    if content.is_empty() {
        return None;
    }
    let (k, q) = match content.chars().last() {
        Some(c @ ('?' | '*' | '+')) => (&content[..content.len() - 1], c.to_string()),
        _ => (content, String::new()),
    };
    if k.is_empty() {
        return Some(("equal", q));
    }
    KINDS.iter().find(|(a, _)| *a == k).map(|(_, canon)| (*canon, q))
}

pub fn scan_line(line: &str) -> Scan {
    if !line.ends_with(')') {
        return Scan::WholeLine;
    }
    let Some(open) = line.rfind('(') else {
        return Scan::WholeLine;
    };
    let content = &line[open + 1..line.len() - 1];
    let Some((kind, quant)) = modifier_of(content) else {
        return Scan::WholeLine;
    };
    let before = &line[..open];
    match before.chars().last() {
        Some(' ') => Scan::Modifier {
            expr: before[..before.len() - 1].to_string(),
            kind,
            quant,
        },
        Some(c) if OTHER_BLANKS.contains(&c) => Scan::OtherBlank,
        _ => Scan::WholeLine,
    }
}

#[cfg(test)]
mod tests {
    use super::*;

    fn m(r: &Re, s: &str) -> bool {
        re_full_match(r, &scalars(s)).unwrap()
    }

    #[test]
    fn regex_eval() {
        let a = Re::Lit('a');
        let b = Re::Lit('b');
        let alt = Re::Alt(vec![a.clone(), b.clone()]);
        assert!(m(&alt, "a") && m(&alt, "b") && !m(&alt, "ab") && !m(&alt, "axx") && !m(&alt, ""));
        let st = Re::Repeat(Box::new(Re::Group(Box::new(Re::Repeat(Box::new(a.clone()), Rep::Star)))), Rep::Star);
        assert!(m(&st, "") && m(&st, "aaaa") && !m(&st, "ab"));
        let open = Re::Repeat(Box::new(a.clone()), Rep::Open(2));
        assert!(!m(&open, "a") && m(&open, "aa") && m(&open, "aaaaa"));
        let rg = Re::Repeat(Box::new(alt.clone()), Rep::Range(1, 2));
        assert!(m(&rg, "ab") && !m(&rg, "aba") && !m(&rg, ""));
        assert_eq!(re_render(&Re::Concat(vec![alt.clone(), Re::Repeat(Box::new(Re::Concat(vec![a.clone(), b.clone()])), Rep::Plus)])), "(a|b)(ab)+");
        assert_eq!(re_render(&alt), "a|b");
        // `^foo|bar$` read as a whole-line match accepts exactly `foo` and `bar`
        let anch = Re::Alt(vec![
            Re::Concat(vec![Re::Start, Re::Lit('f'), Re::Lit('o')]),
            Re::Concat(vec![Re::Lit('b'), Re::Lit('a'), Re::End]),
        ]);
        assert_eq!(re_render(&anch), "^fo|ba$");
        assert!(m(&anch, "fo") && m(&anch, "ba") && !m(&anch, "fox") && !m(&anch, "xba") && !m(&anch, "foba"));
        let lit_dollar = Re::Concat(vec![Re::Start, Re::Lit('5'), Re::Lit('$')]);
        assert_eq!(re_render(&lit_dollar), "^5\\$");
        assert!(m(&lit_dollar, "5$") && !m(&lit_dollar, "5$x") && !m(&lit_dollar, "5"));
        assert!(!m(&Re::Concat(vec![Re::Lit('a'), Re::Start, Re::Lit('b')]), "ab"));
        let cl = Re::Class(true, vec![('a', 'c'), (']', ']')]);
        assert_eq!(re_render(&cl), "[^a-c\\]]");
        assert!(m(&cl, "x") && !m(&cl, "b") && !m(&cl, "]"));
    }

    #[test]
    fn glob_eval() {
        let p = vec![GlobTok::Lit('a'), GlobTok::Many, GlobTok::One];
        let g = |s: &str| glob_match(&p, &scalars(s));
        assert!(g("ax") && g("abcx") && !g("a") && !g("bax"));
        assert!(glob_match(&[], &[]) && !glob_match(&[], &['a']));
    }

    #[test]
    fn scanner() {
        assert_eq!(scan_line("foo ()"), Scan::WholeLine);
        assert_eq!(scan_line("foo(glob)"), Scan::WholeLine);
        assert_eq!(scan_line("foo (re?+)"), Scan::WholeLine);
        assert_eq!(scan_line("foo\t(glob)"), Scan::OtherBlank);
        assert_eq!(
            scan_line("foo (glob+) (gl*)"),
            Scan::Modifier { expr: "foo (glob+)".into(), kind: "glob", quant: "*".into() }
        );
        assert_eq!(scan_line(" (?)"), Scan::Modifier { expr: "".into(), kind: "equal", quant: "?".into() });
    }

    #[test]
    fn escapes() {
        let t = esc_tokenise("a\\tb\\\\t\\x4A\\033\\q").unwrap();
        assert_eq!(esc_decode(&t), None);
        let t = esc_tokenise("a\\tb\\\\t\\x4A\\033").unwrap();
        assert_eq!(esc_decode(&t).unwrap(), b"a\tb\\tJ\x1b");
        assert_eq!(esc_render(&t), "a\\tb\\\\t\\x4A\\033");
        assert!(esc_tokenise("a\\").is_err() && esc_tokenise("\\x4").is_err() && esc_tokenise("\\08").is_err());
    }
}
