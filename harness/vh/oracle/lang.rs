//! Independent oracles for the language e1{q1} e2{q2} ... en{qn} over lines.
//! The match matrix m[i][j] (expectation i matches line j) is data.

#[derive(Clone, Copy, Debug, PartialEq, Eq)]
pub struct Quant {
    pub optional: bool,
    pub multiline: bool,
}

/// harness's own line splitting: split after each 0x0A
pub fn split_lines(out: &[u8]) -> Vec<&[u8]> {
    let mut lines = vec![];
    let mut start = 0;
    for i in 0..out.len() {
        if out[i] == b'\n' {
            lines.push(&out[start..=i]);
            start = i + 1;
        }
    }
    if start < out.len() {
        lines.push(&out[start..]);
    }
    lines
}

/// dynamic programming membership test
pub fn member(q: &[Quant], m: &[Vec<bool>], n_lines: usize) -> bool {
    let n = q.len();
    // reach[j]: first i expectations can consume exactly the first j lines
    let mut reach = vec![false; n_lines + 1];
    reach[0] = true;
    for i in 0..n {
        let mut next = vec![false; n_lines + 1];
        for j in 0..=n_lines {
            if !reach[j] {
                continue;
            }
            if q[i].optional {
                next[j] = true;
            }
            let mut k = j;
            while k < n_lines && m[i][k] {
                k += 1;
                next[k] = true;
                if !q[i].multiline {
                    break;
                }
            }
        }
        reach = next;
    }
    reach[n_lines]
}

#[derive(Clone, Copy, Debug, PartialEq, Eq)]
pub enum Det {
    Member,
    NotMember,
    OutOfScope,
}

/// one-line-look-ahead deterministic run; OutOfScope as soon as two candidates match a line
pub fn det_member(q: &[Quant], m: &[Vec<bool>], n_lines: usize) -> Det {
    let n = q.len();
    let mut i = 0usize;
    let mut started = false;
    for j in 0..n_lines {
        let mut matching: Vec<usize> = vec![];
        let mut c = i;
        while c < n {
            if m[c][j] {
                matching.push(c);
            }
            // the candidate list ends with the first expectation that cannot be skipped;
            // an open run at i may end here, so it does not stop the list
            let skippable = q[c].optional || (c == i && started);
            if !skippable {
                break;
            }
            c += 1;
        }
        if matching.len() > 1 {
            return Det::OutOfScope;
        }
        let Some(&c) = matching.first() else {
            return Det::NotMember;
        };
        if c == i && started {
            continue;
        }
        i = c;
        if q[c].multiline {
            started = true;
        } else {
            i = c + 1;
            started = false;
        }
    }
    let rest = if started { i + 1 } else { i };
    if (rest..n).all(|c| q[c].optional) {
        Det::Member
    } else {
        Det::NotMember
    }
}

#[cfg(test)]
mod tests {
    use super::*;
    #[test]
    fn dp_basic() {
        let q = [Quant { optional: false, multiline: true }, Quant { optional: false, multiline: false }];
        let m = vec![vec![true, true, false], vec![false, false, true]];
        assert!(member(&q, &m, 3));
        assert_eq!(det_member(&q, &m, 3), Det::Member);
        let m2 = vec![vec![true, true, true], vec![false, false, true]];
        assert!(member(&q, &m2, 3));
        assert_eq!(det_member(&q, &m2, 3), Det::OutOfScope);
    }
}
