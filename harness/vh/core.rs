//! Monitor interface, verdicts, panic capture, generic shrinking.

use std::cell::RefCell;
use std::panic::AssertUnwindSafe;
use std::path::PathBuf;

use serde::de::DeserializeOwned;
use serde::Serialize;
use serde_json::Value;

use crate::rng::case_seed;
use crate::rng::Rng;

#[derive(Clone, Copy, Debug, PartialEq, Eq)]
pub enum Tier {
    Quick,
    Thorough,
}

impl Tier {
    pub fn name(&self) -> &'static str {
        match self {
            Tier::Quick => "quick",
            Tier::Thorough => "thorough",
        }
    }
    pub fn parse(s: &str) -> Option<Tier> {
        match s {
            "quick" => Some(Tier::Quick),
            "thorough" => Some(Tier::Thorough),
            _ => None,
        }
    }
    pub fn pick<T>(&self, q: T, t: T) -> T {
        match self {
            Tier::Quick => q,
            Tier::Thorough => t,
        }
    }
}

#[derive(Clone, Debug, PartialEq)]
pub enum Verdict {
    Held,
    /// signature (stable, structural) and a human readable detail
    Violated { sig: String, detail: String },
    Inconclusive(String),
    OutOfScope(String),
}

#[derive(Clone, Debug)]
pub struct Checked {
    pub verdict: Verdict,
    pub nontrivial: bool,
    pub shape: u64,
    pub buckets: Vec<String>,
}

impl Checked {
    pub fn held() -> Self {
        Checked {
            verdict: Verdict::Held,
            nontrivial: false,
            shape: 0,
            buckets: vec![],
        }
    }
    pub fn violated(sig: impl Into<String>, detail: impl Into<String>) -> Self {
        Checked {
            verdict: Verdict::Violated {
                sig: sig.into(),
                detail: detail.into(),
            },
            nontrivial: true,
            shape: 0,
            buckets: vec![],
        }
    }
    pub fn inconclusive(reason: impl Into<String>) -> Self {
        Checked {
            verdict: Verdict::Inconclusive(reason.into()),
            nontrivial: false,
            shape: 0,
            buckets: vec![],
        }
    }
    pub fn out_of_scope(reason: impl Into<String>) -> Self {
        Checked {
            verdict: Verdict::OutOfScope(reason.into()),
            nontrivial: false,
            shape: 0,
            buckets: vec![],
        }
    }
    pub fn nontrivial(mut self, shape: u64) -> Self {
        self.nontrivial = true;
        self.shape = shape;
        self
    }
    pub fn shape(mut self, nontrivial: bool, shape: u64) -> Self {
        self.nontrivial = nontrivial;
        self.shape = shape;
        self
    }
    pub fn bucket(mut self, b: impl Into<String>) -> Self {
        self.buckets.push(b.into());
        self
    }
    pub fn is_violated(&self) -> bool {
        matches!(self.verdict, Verdict::Violated { .. })
    }
    pub fn sig(&self) -> Option<&str> {
        match &self.verdict {
            Verdict::Violated { sig, .. } => Some(sig),
            _ => None,
        }
    }
}

/// what a worker needs to know about its surroundings
#[derive(Clone, Debug)]
pub struct Env {
    pub tier: Tier,
    pub seed: u64,
    /// hooked scrut binary built from /repo's working tree
    pub scrut_bin: PathBuf,
    /// private scratch directory of this worker (removed by the supervisor)
    pub scratch: PathBuf,
}

#[derive(Clone, Debug)]
pub struct Plan {
    /// number of generated cases
    pub cases: u64,
    /// cases per worker invocation
    pub chunk: u64,
    /// wall-clock watchdog per case (seconds); firing = inconclusive
    pub case_timeout_s: u64,
    /// parallel workers
    pub workers: usize,
    /// minimal number of distinct non-trivial cases, below = inconclusive
    pub floor_nontrivial: u64,
    /// buckets that must have been observed at least n times
    pub floor_buckets: Vec<(String, u64)>,
    /// rule text for the evidence file
    pub rule: String,
    /// assumptions for the evidence file
    pub assumptions: Vec<String>,
}

impl Plan {
    pub fn new(cases: u64, rule: &str) -> Plan {
        Plan {
            cases,
            chunk: (cases / 64).max(1),
            case_timeout_s: 60,
            workers: 16,
            floor_nontrivial: 2,
            floor_buckets: vec![],
            rule: rule.to_string(),
            assumptions: vec![],
        }
    }
}

pub trait Monitor: Send + Sync {
    type Case: Serialize + DeserializeOwned + Clone;

    fn id(&self) -> &'static str;
    fn plan(&self, tier: Tier) -> Plan;
    /// deterministic generation of case k
    fn gen(&self, env: &Env, k: u64, rng: &mut Rng) -> Self::Case;
    /// drive the real code and judge with the oracle
    fn check(&self, env: &Env, case: &Self::Case) -> Checked;
    /// smaller variants of a case (greedy shrinking); default none
    fn shrink(&self, _case: &Self::Case) -> Vec<Self::Case> {
        vec![]
    }
    /// a panic inside scrut while checking: violation (true) or out-of-scope (false)
    fn panic_is_violation(&self) -> bool {
        true
    }
    /// short human readable rendering of a case for the samples list
    fn sample(&self, case: &Self::Case) -> Value {
        serde_json::to_value(case).unwrap_or(Value::Null)
    }
    /// extra checks run once per check invocation by the supervisor (sidecars);
    /// returns (label, observed count, violations as (sig, detail, witness))
    fn sidecar(&self, _env: &Env) -> Vec<SidecarReport> {
        vec![]
    }
}

#[derive(Clone, Debug, Default)]
pub struct SidecarReport {
    pub label: String,
    pub observed: u64,
    pub note: String,
    pub violations: Vec<(String, String, Value)>,
    pub inconclusive: Option<String>,
}

/// result of running one case through the type erased interface
#[derive(Clone, Debug)]
pub struct CaseResult {
    pub checked: Checked,
    /// concrete (shrunk, if violated) case
    pub case: Value,
    pub sample: Value,
}

/// a contiguous range of case numbers that shares chunking and watchdog settings
#[derive(Clone, Debug)]
pub struct Segment {
    pub from: u64,
    pub to: u64,
    pub chunk: u64,
    pub case_timeout_s: u64,
}

pub trait DynMonitor: Send + Sync {
    fn id(&self) -> &'static str;
    fn plan(&self, tier: Tier) -> Plan;
    fn segments(&self, tier: Tier) -> Vec<Segment> {
        let p = self.plan(tier);
        vec![Segment {
            from: 0,
            to: p.cases,
            chunk: p.chunk.max(1),
            case_timeout_s: p.case_timeout_s,
        }]
    }
    fn run_case(&self, env: &Env, k: u64, want_sample: bool) -> CaseResult;
    fn dump_case(&self, env: &Env, k: u64) -> Value;
    fn replay(&self, env: &Env, case: &Value) -> Result<CaseResult, String>;
    fn sidecar(&self, env: &Env) -> Vec<SidecarReport>;
}

thread_local! {
    static LAST_PANIC: RefCell<Option<(String, String)>> = const { RefCell::new(None) };
}

pub fn install_panic_hook() {
    std::panic::set_hook(Box::new(|info| {
        let loc = info
            .location()
            .map(|l| l.file().to_string())
            .unwrap_or_else(|| "?".into());
        let msg = if let Some(s) = info.payload().downcast_ref::<&str>() {
            s.to_string()
        } else if let Some(s) = info.payload().downcast_ref::<String>() {
            s.clone()
        } else {
            "<non-string panic>".to_string()
        };
        let line = info.location().map(|l| l.line()).unwrap_or(0);
        LAST_PANIC.with(|p| *p.borrow_mut() = Some((format!("{loc}:{line}"), msg)));
    }));
}

/// digits -> N, quoted / back-quoted text (which repeats the input) dropped, so that messages are stable
fn normalise_msg(msg: &str) -> String {
    // keep only the part before the first piece of quoted input
    let cut = msg.find(|c| c == '`' || c == '\'' || c == '"').unwrap_or(msg.len());
    let head = msg[..cut].trim_end_matches(|c: char| c.is_whitespace() || c == ';' || c == ':' || c == ',');
    let head = head.trim_end_matches(" it is inside").trim_end_matches(" of");
    let mut out = String::new();
    let mut in_digits = false;
    for c in head.chars().take(100) {
        if c.is_ascii_digit() {
            if !in_digits {
                out.push('N');
            }
            in_digits = true;
        } else {
            in_digits = false;
            if c.is_whitespace() {
                out.push('_');
            } else {
                out.push(c);
            }
        }
    }
    out
}

/// runs f, converting a panic into (location, message)
pub fn catch<T>(f: impl FnOnce() -> T) -> Result<T, (String, String)> {
    LAST_PANIC.with(|p| *p.borrow_mut() = None);
    match std::panic::catch_unwind(AssertUnwindSafe(f)) {
        Ok(v) => Ok(v),
        Err(_) => Err(LAST_PANIC
            .with(|p| p.borrow_mut().take())
            .unwrap_or(("?".into(), "?".into()))),
    }
}

fn is_harness_location(loc: &str) -> bool {
    // harness sources live under vh/ (never src/), so that they cannot be
    // confused with scrut's files which are reported as src/... or /repo/src/...
    loc.starts_with("vh/") || loc.contains("/verif/harness/")
}

fn strip_line(loc: &str) -> String {
    let file = loc.rsplit_once(':').map(|(f, _)| f).unwrap_or(loc);
    match file.find("/repo/") {
        Some(i) => file[i + 6..].to_string(),
        None => file.to_string(),
    }
}

pub fn checked_catch<M: Monitor>(m: &M, env: &Env, case: &M::Case) -> Checked {
    match catch(|| m.check(env, case)) {
        Ok(c) => c,
        Err((loc, msg)) => {
            if !is_harness_location(&loc) {
                // a panic raised inside scrut, or inside a dependency/std on
                // behalf of scrut (e.g. slicing, unwrap): the call chain from
                // the monitor goes through scrut only
                if m.panic_is_violation() {
                    Checked::violated(
                        format!("{}/panic/{}/{}", m.id(), strip_line(&loc), normalise_msg(&msg)),
                        format!("panic at {loc}: {msg}"),
                    )
                } else {
                    Checked::out_of_scope(format!("panic at {loc}: {msg}")).bucket("panic")
                }
            } else {
                Checked::inconclusive(format!("harness panic at {loc}: {msg}"))
            }
        }
    }
}

/// the part of a signature that has to stay the same while shrinking
/// convention: `<clause>//<minimal structural cause>` — only the clause has to survive a shrink step
fn sig_class(sig: &str) -> &str {
    sig.split("//").next().unwrap_or(sig)
}

pub fn shrink_case<M: Monitor>(m: &M, env: &Env, case: M::Case, first: &Checked) -> (M::Case, Checked) {
    let Some(sig) = first.sig().map(|s| sig_class(s).to_string()) else {
        return (case, first.clone());
    };
    let mut best = case;
    let mut best_checked = first.clone();
    let mut budget = 400usize;
    let start = std::time::Instant::now();
    loop {
        let mut improved = false;
        // `shrink` and `sample` may call into scrut (to render a case): a panic there must not kill the worker
        for cand in catch(|| m.shrink(&best)).unwrap_or_default() {
            if budget == 0 || start.elapsed().as_secs() > 20 {
                return (best, best_checked);
            }
            budget -= 1;
            let c = checked_catch(m, env, &cand);
            if c.sig().map(sig_class) == Some(sig.as_str()) {
                best = cand;
                best_checked = c;
                improved = true;
                break;
            }
        }
        if !improved {
            return (best, best_checked);
        }
    }
}

pub struct Erased<M: Monitor>(pub M);

impl<M: Monitor> DynMonitor for Erased<M> {
    fn id(&self) -> &'static str {
        self.0.id()
    }
    fn plan(&self, tier: Tier) -> Plan {
        self.0.plan(tier)
    }
    fn run_case(&self, env: &Env, k: u64, want_sample: bool) -> CaseResult {
        let mut rng = Rng::new(case_seed(env.seed, self.0.id(), k));
        let case = match catch(|| self.0.gen(env, k, &mut rng)) {
            Ok(c) => c,
            Err((loc, msg)) => {
                return CaseResult {
                    checked: Checked::inconclusive(format!("generator panic at {loc}: {msg}")),
                    case: Value::Null,
                    sample: Value::Null,
                }
            }
        };
        let mut checked = checked_catch(&self.0, env, &case);
        if checked.is_violated() {
            // A violation has to show again for the same case (at least once in two further runs): what
            // only the load of the machine produced (a stalled process behind a wall-clock clause) does
            // not come back, and is reported as inconclusive instead. Deterministic monitors pay nothing
            // for this on code that holds.
            let clause = checked.sig().map(|s| sig_class(s).to_string());
            let reproduced = (0..2).any(|_| {
                let again = checked_catch(&self.0, env, &case);
                again.sig().map(sig_class) == clause.as_deref()
            });
            if !reproduced {
                let sig = checked.sig().unwrap_or("?").to_string();
                checked = Checked::inconclusive(format!("violation not reproducible, seen once in three runs of the same case: {sig}"));
            }
        }
        if checked.is_violated() {
            let (case, checked) = shrink_case(&self.0, env, case, &checked);
            let sample = catch(|| self.0.sample(&case)).unwrap_or(Value::Null);
            CaseResult {
                checked,
                case: serde_json::to_value(&case).unwrap_or(Value::Null),
                sample,
            }
        } else {
            let need_case = matches!(checked.verdict, Verdict::Inconclusive(_));
            CaseResult {
                sample: if want_sample { catch(|| self.0.sample(&case)).unwrap_or(Value::Null) } else { Value::Null },
                case: if need_case {
                    serde_json::to_value(&case).unwrap_or(Value::Null)
                } else {
                    Value::Null
                },
                checked,
            }
        }
    }
    fn dump_case(&self, env: &Env, k: u64) -> Value {
        let mut rng = Rng::new(case_seed(env.seed, self.0.id(), k));
        match catch(|| self.0.gen(env, k, &mut rng)) {
            Ok(c) => serde_json::to_value(&c).unwrap_or(Value::Null),
            Err(_) => Value::Null,
        }
    }
    fn replay(&self, env: &Env, case: &Value) -> Result<CaseResult, String> {
        let case: M::Case = serde_json::from_value(case.clone()).map_err(|e| format!("cannot decode case: {e}"))?;
        let mut checked = checked_catch(&self.0, env, &case);
        if checked.is_violated() {
            // the same rule as for generated cases: a violation has to show again
            let clause = checked.sig().map(|s| sig_class(s).to_string());
            let reproduced = (0..2).any(|_| checked_catch(&self.0, env, &case).sig().map(sig_class) == clause.as_deref());
            if !reproduced {
                let sig = checked.sig().unwrap_or("?").to_string();
                checked = Checked::inconclusive(format!("violation not reproducible, seen once in three runs of the same case: {sig}"));
            }
        }
        Ok(CaseResult {
            checked,
            sample: catch(|| self.0.sample(&case)).unwrap_or(Value::Null),
            case: serde_json::to_value(&case).unwrap_or(Value::Null),
        })
    }
    fn sidecar(&self, env: &Env) -> Vec<SidecarReport> {
        self.0.sidecar(env)
    }
}

/// several monitors deciding one property (e.g. an in-process part and an end-to-end part):
/// their case numbers are concatenated, each part keeps its own chunking and watchdog
pub struct Multi {
    pub id: &'static str,
    pub parts: Vec<std::sync::Arc<dyn DynMonitor>>,
}

impl Multi {
    fn locate(&self, tier: Tier, k: u64) -> (usize, u64) {
        let mut off = 0;
        for (i, p) in self.parts.iter().enumerate() {
            let n = p.plan(tier).cases;
            if k < off + n {
                return (i, k - off);
            }
            off += n;
        }
        (self.parts.len() - 1, 0)
    }
}

impl DynMonitor for Multi {
    fn id(&self) -> &'static str {
        self.id
    }
    fn plan(&self, tier: Tier) -> Plan {
        let plans: Vec<Plan> = self.parts.iter().map(|p| p.plan(tier)).collect();
        let mut out = plans[0].clone();
        out.cases = plans.iter().map(|p| p.cases).sum();
        out.workers = plans.iter().map(|p| p.workers).max().unwrap_or(16);
        out.case_timeout_s = plans.iter().map(|p| p.case_timeout_s).max().unwrap_or(60);
        out.floor_nontrivial = plans.iter().map(|p| p.floor_nontrivial).sum();
        out.floor_buckets = plans.iter().flat_map(|p| p.floor_buckets.clone()).collect();
        out.rule = plans
            .iter()
            .enumerate()
            .map(|(i, p)| format!("part {}: {}", i + 1, p.rule))
            .collect::<Vec<_>>()
            .join(" || ");
        out.assumptions = plans.iter().flat_map(|p| p.assumptions.clone()).collect();
        out
    }
    fn segments(&self, tier: Tier) -> Vec<Segment> {
        let mut off = 0;
        let mut v = vec![];
        for p in &self.parts {
            for s in p.segments(tier) {
                v.push(Segment {
                    from: s.from + off,
                    to: s.to + off,
                    ..s
                });
            }
            off += p.plan(tier).cases;
        }
        v
    }
    fn run_case(&self, env: &Env, k: u64, want_sample: bool) -> CaseResult {
        let (i, kk) = self.locate(env.tier, k);
        let mut r = self.parts[i].run_case(env, kk, want_sample);
        if !r.case.is_null() {
            r.case = serde_json::json!({"part": i, "case": r.case});
        }
        r
    }
    fn dump_case(&self, env: &Env, k: u64) -> Value {
        let (i, kk) = self.locate(env.tier, k);
        serde_json::json!({"part": i, "case": self.parts[i].dump_case(env, kk)})
    }
    fn replay(&self, env: &Env, case: &Value) -> Result<CaseResult, String> {
        let i = case["part"].as_u64().ok_or("multi-part case without `part`")? as usize;
        let p = self.parts.get(i).ok_or("part out of range")?;
        p.replay(env, &case["case"])
    }
    fn sidecar(&self, env: &Env) -> Vec<SidecarReport> {
        self.parts.iter().flat_map(|p| p.sidecar(env)).collect()
    }
}
