//! valgrind memcheck sidecar: re-runs a few end-to-end documents with the scrut process under
//! memcheck (children untraced). Only invalid read / write / free reports are counted.

use std::time::Duration;

use serde_json::json;

use crate::core::Env;
use crate::core::SidecarReport;
use crate::e2e::Sandbox;
use crate::e2e::ScrutCmd;

pub struct MemDoc {
    pub name: String,
    pub file: String,
    pub text: Vec<u8>,
    pub args: Vec<String>,
    /// payload files (name, bytes) below the sandbox payload dir; `{PAYLOAD}` in text is replaced by that dir
    pub payloads: Vec<(String, Vec<u8>)>,
}

pub fn run_memcheck(id: &str, env: &Env, docs: Vec<MemDoc>) -> SidecarReport {
    let mut rep = SidecarReport {
        label: "valgrind-memcheck".into(),
        ..Default::default()
    };
    if std::process::Command::new("valgrind").arg("--version").output().is_err() {
        rep.inconclusive = Some("valgrind not available".into());
        return rep;
    }
    let handles: Vec<_> = docs
        .into_iter()
        .enumerate()
        .map(|(i, d)| {
            let env = env.clone();
            let id = id.to_string();
            std::thread::spawn(move || {
                let sb = Sandbox::new(&env, &format!("memcheck{i}"));
                for (n, b) in &d.payloads {
                    sb.write_payload(n, b);
                }
                let text = String::from_utf8_lossy(&d.text).replace("{PAYLOAD}", &sb.payload.display().to_string());
                sb.write_doc(&d.file, text.as_bytes());
                let log = sb.root.join("valgrind.log");
                let logarg = format!("--log-file={}", log.display());
                let args: Vec<&str> = d.args.iter().map(|s| s.as_str()).collect();
                let run = ScrutCmd::new(&sb, &args)
                    .wrapper(&["valgrind", "-q", "--trace-children=no", "--error-limit=no", &logarg])
                    .watchdog(Duration::from_secs(300))
                    .run(&env);
                run.kill_group();
                let text = std::fs::read_to_string(&log).unwrap_or_default();
                let invalid: Vec<String> = text
                    .lines()
                    .filter(|l| l.contains("Invalid read") || l.contains("Invalid write") || l.contains("Invalid free") || l.contains("Mismatched free"))
                    .map(|l| l.to_string())
                    .collect();
                let frames: Vec<String> = text.lines().filter(|l| l.contains("scrut::")).take(4).map(|l| l.trim().to_string()).collect();
                (d.name, run.watchdog_fired, run.code, invalid, frames, id)
            })
        })
        .collect();
    let mut notes = vec![];
    for h in handles {
        if let Ok((name, fired, code, invalid, frames, id)) = h.join() {
            if fired {
                rep.inconclusive = Some(format!("{name}: watchdog under valgrind"));
                continue;
            }
            rep.observed += 1;
            notes.push(format!("{name}: exit {code:?}, {} invalid-access reports", invalid.len()));
            if !invalid.is_empty() {
                rep.violations.push((
                    format!("{id}/memcheck/invalid-access"),
                    format!("{name}: {} ... {}", invalid[0], frames.join(" | ")),
                    json!({"document": name}),
                ));
            }
        }
    }
    rep.note = notes.join("; ");
    rep
}

/// a small fixed set of documents covering pass / fail / timeout / skip / big output / hostile bytes
pub fn standard_docs() -> Vec<MemDoc> {
    let md = |name: &str, body: &str, args: &[&str], payloads: Vec<(String, Vec<u8>)>| MemDoc {
        name: name.into(),
        file: "doc.md".into(),
        text: body.as_bytes().to_vec(),
        args: {
            let mut a: Vec<String> = args.iter().map(|s| s.to_string()).collect();
            a.push("doc.md".into());
            a
        },
        payloads,
    };
    let big: Vec<u8> = (0..200_000u32).flat_map(|i| format!("line {i}\r\n").into_bytes()).collect();
    let hostile: Vec<u8> = (0u16..=255).map(|b| b as u8).chain(b"\n\xff\xfe\n\x1b[31mred\x1b[0m\ntrailing\xc2\xa0\n".iter().copied()).collect();
    vec![
        md("pass", "# t\n\n```scrut\n$ echo hi\nhi\n```\n", &["test"], vec![]),
        md("fail-pretty", "# t\n\n```scrut\n$ echo hi; echo ho\nhx\n```\n", &["test", "-r", "pretty"], vec![]),
        md("fail-diff", "# t\n\n```scrut\n$ echo hi; echo ho\nhx\n```\n", &["test", "-r", "diff"], vec![]),
        md("fail-json", "# t\n\n```scrut\n$ cat {PAYLOAD}/hostile\nnope\n```\n", &["test", "-r", "json"], vec![("hostile".into(), hostile.clone())]),
        md("fail-yaml", "# t\n\n```scrut\n$ cat {PAYLOAD}/hostile\nnope\n```\n", &["test", "-r", "yaml"], vec![("hostile".into(), hostile.clone())]),
        md("hostile-pretty", "# t\n\n```scrut\n$ cat {PAYLOAD}/hostile\nnope\n```\n", &["test", "-r", "pretty"], vec![("hostile".into(), hostile)]),
        md("big-output", "# t\n\n```scrut\n$ cat {PAYLOAD}/big; cat {PAYLOAD}/big >&2\nnope\n```\n", &["test", "-r", "json"], vec![("big".into(), big)]),
        md("timeout", "# t\n\n```scrut {timeout: 300ms}\n$ sleep 5\n```\n\n```scrut\n$ echo after\nafter\n```\n", &["test"], vec![]),
        md("skip", "# t\n\n```scrut\n$ exit 80\n```\n", &["test"], vec![]),
        md("state", "# t\n\n```scrut\n$ export FOO='a b'; f() { echo fn; }; alias x='echo al'; cd /tmp\n```\n\n```scrut\n$ echo $FOO; f; pwd\na b\nfn\n/tmp\n```\n", &["test"], vec![]),
        MemDoc {
            name: "cram".into(),
            file: "doc.t".into(),
            text: b"title\n  $ echo a; echo b >&2\n  a\n  b\n  $ (exit 3)\n  [3]\n".to_vec(),
            args: vec!["test".into(), "doc.t".into()],
            payloads: vec![],
        },
        md("parse-error", "# t\n\n```scrut\n$ echo hi\n[1]\n[2]\n```\n", &["test"], vec![]),
        MemDoc {
            name: "create".into(),
            file: "unused.md".into(),
            text: vec![],
            args: vec!["create".into(), "-o".into(), "-".into(), "--".into(), "printf 'a\\tb\\n[1]\\n'; (exit 3)".into()],
            payloads: vec![],
        },
        MemDoc {
            name: "update".into(),
            file: "doc.md".into(),
            text: b"# t\n\n```scrut\n$ echo new\nold\n```\n\ntrailer\n".to_vec(),
            args: vec!["update".into(), "--replace".into(), "--assume-yes".into(), "doc.md".into()],
            payloads: vec![],
        },
    ]
}
