//! C07 — Cram documents: indented `$` blocks become the written tests, in order.
//!
//! Documents are rendered from an item list (`gen::docgen`); the parser is built as the binary
//! builds it (`CramParser` with the Cram glob rule, indentation 2).

use serde_json::json;

use super::doccommon::*;
use crate::core::*;
use crate::gen::docgen::*;
use crate::rng::hash_str;
use crate::rng::Rng;

pub struct C07;

fn verdict_of(doc: &CramDoc) -> Option<(String, String)> {
    let exp = expect_cram(doc);
    let parsed = parse_cram(&doc.render()).map(|t| t.iter().map(observe).collect::<Vec<_>>());
    judge(&exp, &parsed)
}

impl Monitor for C07 {
    type Case = CramDoc;

    fn id(&self) -> &'static str {
        "C07"
    }

    fn plan(&self, tier: Tier) -> Plan {
        let mut p = Plan::new(
            tier.pick(20_000, 1_000_000),
            "documents rendered from an item list (title lines incl. one-space-indented look-alikes, blank lines, `#` comments also between the lines of a test, commands with continuations, expectation lines incl. empty / whitespace-only / three-space `$` / `#` / syntax look-alikes, exit codes, consecutive commands, orphan indented lines); non-trivial = >= 2 items of different kinds incl. a test; distinct = hash of (item-kind sequence, per-test line classes)",
        );
        p.floor_nontrivial = tier.pick(1_000, 10_000);
        p.floor_buckets = vec![
            ("verdict:ok-equal".into(), tier.pick(2_000, 100_000)),
            ("verdict:err-required".into(), tier.pick(20, 1_000)),
            ("tests>=2".into(), tier.pick(1_000, 50_000)),
            ("f:test:exp:ws-only".into(), tier.pick(200, 10_000)),
            ("f:test:exp:empty".into(), tier.pick(100, 5_000)),
            ("f:test:comment".into(), tier.pick(200, 10_000)),
            ("consecutive-commands".into(), tier.pick(200, 10_000)),
            ("f:test:exp:gt-after-exit".into(), tier.pick(400, 20_000)),
            ("f:test:exp:big-bracket".into(), tier.pick(1_000, 50_000)),
            ("f:crlf".into(), tier.pick(400, 20_000)),
            ("f:crlf-mixed".into(), tier.pick(400, 20_000)),
            ("f:test:exp:cr-inside".into(), tier.pick(400, 20_000)),
            ("f:test:exp:cr-end".into(), tier.pick(50, 2_500)),
        ];
        p.assumptions = vec![
            "title: the last unindented line since the previous test ended; without one both \"\" and the previous title are accepted; after look-alike title lines (` $ x`, a single blank, `> x`, `[n]`) any of the segment's title lines is accepted".into(),
            "indented lines that belong to no command: an error, or a result without them, is accepted".into(),
        ];
        p
    }

    fn gen(&self, _env: &Env, _k: u64, rng: &mut Rng) -> CramDoc {
        gen_cram(rng)
    }

    fn check(&self, _env: &Env, case: &CramDoc) -> Checked {
        if let Err(e) = cram_wellformed(case) {
            return Checked::out_of_scope(format!("item list does not describe its rendering: {e}"));
        }
        let exp = expect_cram(case);
        let text = case.render();
        let kinds = case.kinds();
        let mut distinct = kinds.clone();
        distinct.sort();
        distinct.dedup();
        let nontrivial = distinct.len() >= 2 && kinds.contains(&"test");
        let shape = hash_str(&format!("{}|{}", kinds.join(","), case.features().join("+")));
        let parsed = match guarded("C07", "CramParser::parse", || parse_cram(&text)) {
            Ok(r) => r.map(|t| t.iter().map(observe).collect::<Vec<_>>()),
            Err(c) => return c.shape(nontrivial, shape),
        };
        if let Some((clause, detail)) = judge(&exp, &parsed) {
            let min = minimise(case, &shrink_cram, &|d| quiet(|| verdict_of(d)).flatten().is_some(), 300);
            let (min_clause, min_detail) = quiet(|| verdict_of(&min)).flatten().unwrap_or((clause.clone(), detail.clone()));
            let sig = format!("C07/{min_clause}/{}", min.features().join("+"));
            return Checked::violated(
                sig,
                format!("{min_detail}; minimal document: {:?}; on the full document: {clause}: {}; parser on the full document: {}", min.render(), clip(&detail, 200), match &parsed {
                    Ok(t) => format!("Ok({} tests)", t.len()),
                    Err(e) => format!("Err({})", clip(e, 160)),
                }),
            )
            .shape(nontrivial, shape);
        }
        let mut c = Checked::held().shape(nontrivial, shape);
        let verdict = if exp.must_err.is_some() {
            "err-required"
        } else if parsed.is_err() {
            "err-accepted"
        } else {
            "ok-equal"
        };
        c = c.bucket(format!("verdict:{verdict}"));
        if verdict == "ok-equal" {
            c = c.bucket(match exp.tests.len() {
                0 => "tests=0",
                1 => "tests=1",
                _ => "tests>=2",
            });
        }
        if kinds.windows(2).any(|w| w[0] == "test" && w[1] == "test") {
            c = c.bucket("consecutive-commands");
        }
        if exp.err_ok.is_some() {
            c = c.bucket("near-miss");
        }
        for f in case.features() {
            c = c.bucket(format!("f:{f}"));
        }
        c
    }

    fn shrink(&self, case: &CramDoc) -> Vec<CramDoc> {
        shrink_cram(case)
    }

    fn sample(&self, case: &CramDoc) -> serde_json::Value {
        let exp = expect_cram(case);
        json!({
            "document": case.render(),
            "expected_tests": exp.tests.iter().map(|t| json!({"shell": t.shell, "line": t.line, "exit": t.exit, "expectations": t.exps.iter().map(|(l, _)| l.clone()).collect::<Vec<_>>()})).collect::<Vec<_>>(),
            "must_err": exp.must_err,
            "err_acceptable": exp.err_ok,
        })
    }
}
