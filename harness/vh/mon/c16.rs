//! C16 — configuration precedence: (a) layering algebra, (b) parser level layering.
//! The end-to-end part (c) of DESIGN.md is not in this file.

use std::collections::BTreeMap;

use scrut::config::DocumentConfig;
use scrut::config::TestCaseConfig;
use scrut::parsers::cram::CramParser;
use scrut::parsers::markdown::MarkdownParser;
use scrut::parsers::parser::Parser;
use serde::Deserialize;
use serde::Serialize;
use serde_json::json;
use serde_json::Value;

use super::cfgcommon::*;
use crate::core::*;
use crate::rng::hash_bytes;
use crate::rng::Rng;

pub struct C16;

#[derive(Clone, Debug, Default, Serialize, Deserialize)]
pub struct C16Case {
    /// "algebra-testcase" | "algebra-document" | "parser-markdown" | "parser-cram"
    pub mode: String,
    /// algebra: the layers, highest precedence first (the test case algebra uses `.defaults` only)
    #[serde(default)]
    pub layers: Vec<DocCfg>,
    /// parser: the base configuration handed to the parser (None = the parser's format default)
    #[serde(default)]
    pub base: Option<TcCfg>,
    /// parser: front-matter
    #[serde(default)]
    pub front: Option<DocCfg>,
    /// parser: one entry per test, the inline configuration (None = no `{...}`)
    #[serde(default)]
    pub tests: Vec<Option<TcCfg>>,
}

const ENV_OVERLAP: &[&str] = &["FOO", "BAR", "BAZ"];
const ENV_WIDE: &[&str] = &["FOO", "BAR", "BAZ", "QUX", "A_1", "b2", "PATH_X", "LANGX"];

fn viol(clause: &str, ty: &str, key: &str, cause: &str, detail: String) -> Checked {
    Checked::violated(format!("C16/{clause}/{ty}/{key}/{cause}"), detail)
}

/// first key on which the two test case configurations differ
fn first_diff(got: &TcCfg, want: &TcCfg) -> Option<&'static str> {
    TC_KEYS.iter().copied().find(|k| !got.key_eq(want, k))
}

fn cmp_tc(clause: &str, ty: &str, got: &TestCaseConfig, want: &TcCfg, layers: &[&TcCfg], what: &str) -> Option<Checked> {
    let Some(g) = TcCfg::from_real(got) else {
        return Some(viol(clause, ty, "any", "unrepresentable-value", format!("{what}: result {got:?}")));
    };
    let key = first_diff(&g, want)?;
    let cause = classify_tc(key, &g, want, layers);
    Some(viol(
        clause,
        ty,
        key,
        cause,
        format!(
            "{what}: key `{key}` is {} but the highest-precedence layer that sets it gives {} (layers, highest first: {})",
            g.show_key(key),
            want.show_key(key),
            layers.iter().map(|l| l.show_key(key)).collect::<Vec<_>>().join(" | ")
        ),
    ))
}

fn list_cause(got: &[String], want: &[String], layers: &[&Vec<String>]) -> &'static str {
    let mut g = got.to_vec();
    let mut w = want.to_vec();
    g.sort();
    w.sort();
    if g != w {
        if g.len() < w.len() || w.iter().any(|x| !g.contains(x)) {
            return "element-lost";
        }
        return "element-invented";
    }
    // same multiset; is every layer's list still a subsequence?
    for l in layers {
        let mut it = got.iter();
        if !l.iter().all(|x| it.any(|y| y == x)) {
            return "order-within-layer";
        }
    }
    "layer-order"
}

fn cmp_doc(clause: &str, got: &DocumentConfig, want: &DocCfg, layers: &[&DocCfg], what: &str) -> Option<Checked> {
    let Some(g) = DocCfg::from_real(got) else {
        return Some(viol(clause, "document", "any", "unrepresentable-value", format!("{what}: result {got:?}")));
    };
    if g.shell != want.shell {
        let cause = if g.shell.is_none() {
            "lost"
        } else if layers.iter().any(|l| l.shell.is_some() && l.shell == g.shell) {
            "lower-layer-won"
        } else {
            "foreign-value"
        };
        return Some(viol(clause, "document", "shell", cause, format!("{what}: shell {:?}, expected {:?}", g.shell, want.shell)));
    }
    if g.total_timeout_ms != want.total_timeout_ms {
        let cause = if g.total_timeout_ms.is_none() {
            "lost"
        } else if layers.iter().any(|l| l.total_timeout_ms.is_some() && l.total_timeout_ms == g.total_timeout_ms) {
            "lower-layer-won"
        } else {
            "foreign-value"
        };
        return Some(viol(
            clause,
            "document",
            "total_timeout",
            cause,
            format!("{what}: total_timeout {:?}ms, expected {:?}ms", g.total_timeout_ms, want.total_timeout_ms),
        ));
    }
    if g.prepend != want.prepend {
        let ls: Vec<&Vec<String>> = layers.iter().map(|l| &l.prepend).collect();
        return Some(viol(
            clause,
            "document",
            "prepend",
            list_cause(&g.prepend, &want.prepend, &ls),
            format!("{what}: prepend {:?}, expected {:?} (layers, highest first: {:?})", g.prepend, want.prepend, ls),
        ));
    }
    if g.append != want.append {
        let ls: Vec<&Vec<String>> = layers.iter().map(|l| &l.append).collect();
        return Some(viol(
            clause,
            "document",
            "append",
            list_cause(&g.append, &want.append, &ls),
            format!("{what}: append {:?}, expected {:?} (layers, highest first: {:?})", g.append, want.append, ls),
        ));
    }
    let tcs: Vec<&TcCfg> = layers.iter().map(|l| &l.defaults).collect();
    if let Some(c) = cmp_tc(clause, "document.defaults", &got.defaults, &want.defaults, &tcs, what) {
        return Some(c);
    }
    None
}

/// set/unset and value-equality pattern of the layers: the "shape" of an algebra case
fn pattern(layers: &[&TcCfg]) -> (Vec<u8>, Vec<&'static str>, bool, bool) {
    let mut buf = vec![];
    let mut conflicts = vec![];
    for key in TC_KEYS {
        if key == "environment" {
            continue;
        }
        let mut seen: Vec<String> = vec![];
        let mut n_set = 0;
        for l in layers {
            if l.is_set(key) {
                n_set += 1;
                let v = l.show_key(key);
                let idx = match seen.iter().position(|s| *s == v) {
                    Some(i) => i,
                    None => {
                        seen.push(v);
                        seen.len() - 1
                    }
                };
                buf.push(1 + idx as u8);
            } else {
                buf.push(0);
            }
        }
        if n_set >= 2 {
            conflicts.push(key);
        }
        buf.push(0xff);
    }
    // environment: per variable the same pattern
    let mut names: Vec<&String> = layers.iter().flat_map(|l| l.environment.keys()).collect();
    names.sort();
    names.dedup();
    let mut overlap = false;
    for (i, name) in names.iter().enumerate() {
        let mut seen: Vec<&String> = vec![];
        let mut n_set = 0;
        buf.push(i as u8);
        for l in layers {
            match l.environment.get(*name) {
                Some(v) => {
                    n_set += 1;
                    let idx = match seen.iter().position(|s| *s == v) {
                        Some(i) => i,
                        None => {
                            seen.push(v);
                            seen.len() - 1
                        }
                    };
                    buf.push(1 + idx as u8);
                }
                None => buf.push(0),
            }
        }
        if n_set >= 2 {
            overlap = true;
        }
        buf.push(0xfe);
    }
    if overlap {
        conflicts.push("environment");
    }
    let env_layers = layers.iter().filter(|l| !l.environment.is_empty()).count();
    let disjoint = env_layers >= 2 && !overlap;
    (buf, conflicts, overlap, disjoint)
}

fn check_algebra_tc(layers: &[TcCfg]) -> Checked {
    if layers.is_empty() {
        return Checked::out_of_scope("no layers");
    }
    let refs: Vec<&TcCfg> = layers.iter().collect();
    let real: Vec<TestCaseConfig> = layers.iter().map(|l| l.to_real()).collect();
    let want = model_tc(&refs);
    let n = real.len();

    // precedence, left fold of with_defaults_from: ((l0 <- l1) <- l2) <- l3
    let mut left = real[0].clone();
    for l in &real[1..] {
        left = left.with_defaults_from(l);
    }
    if let Some(c) = cmp_tc("precedence", "testcase", &left, &want, &refs, "fold of with_defaults_from") {
        return c;
    }
    // precedence, with_overrides_from starting at the lowest layer
    let mut over = real[n - 1].clone();
    for l in real[..n - 1].iter().rev() {
        over = over.with_overrides_from(l);
    }
    if let Some(c) = cmp_tc("precedence-overrides", "testcase", &over, &want, &refs, "fold of with_overrides_from") {
        return c;
    }
    // associativity: right fold and every split (x0..xk) <- (xk+1..xn)
    let mut right = real[n - 1].clone();
    for l in real[..n - 1].iter().rev() {
        right = l.with_defaults_from(&right);
    }
    if let Some(c) = cmp_tc("assoc", "testcase", &right, &want, &refs, "right fold of with_defaults_from") {
        return c;
    }
    for k in 1..n {
        let mut a = real[0].clone();
        for l in &real[1..k] {
            a = a.with_defaults_from(l);
        }
        let mut b = real[k].clone();
        for l in &real[k + 1..] {
            b = b.with_defaults_from(l);
        }
        if let Some(c) = cmp_tc("assoc", "testcase", &a.with_defaults_from(&b), &want, &refs, "split fold of with_defaults_from") {
            return c;
        }
    }
    // identity of the empty layer
    let empty = TestCaseConfig::empty();
    for (x, xm) in real.iter().zip(layers.iter()).chain(std::iter::once((&left, &want))) {
        let single = [xm];
        for (what, got) in [
            ("x.with_defaults_from(empty)", x.with_defaults_from(&empty)),
            ("empty.with_defaults_from(x)", empty.with_defaults_from(x)),
            ("x.with_overrides_from(empty)", x.with_overrides_from(&empty)),
            ("empty.with_overrides_from(x)", empty.with_overrides_from(x)),
        ] {
            if let Some(c) = cmp_tc("identity", "testcase", &got, xm, &single, what) {
                return c;
            }
        }
    }
    ev_algebra_tc(layers)
}

/// what an algebra case exercises (independent of the verdict)
fn ev_algebra_tc(layers: &[TcCfg]) -> Checked {
    let refs: Vec<&TcCfg> = layers.iter().collect();
    let (buf, conflicts, overlap, disjoint) = pattern(&refs);
    let mut c = Checked::held().shape(!conflicts.is_empty(), hash_bytes(&buf)).bucket("algebra:testcase");
    for k in conflicts {
        c = c.bucket(format!("conflict:{k}"));
    }
    if overlap {
        c = c.bucket("env:overlap");
    }
    if disjoint {
        c = c.bucket("env:disjoint");
    }
    if layers.iter().any(|l| *l == TcCfg::default()) {
        c = c.bucket("empty-layer");
    }
    c
}

fn check_algebra_doc(layers: &[DocCfg]) -> Checked {
    if layers.is_empty() {
        return Checked::out_of_scope("no layers");
    }
    let refs: Vec<&DocCfg> = layers.iter().collect();
    let real: Vec<DocumentConfig> = layers.iter().map(|l| l.to_real()).collect();
    let want = model_doc(&refs);
    let n = real.len();

    let mut left = real[0].clone();
    for l in &real[1..] {
        left = left.with_defaults_from(l);
    }
    if let Some(c) = cmp_doc("precedence", &left, &want, &refs, "fold of with_defaults_from") {
        return c;
    }
    let mut over = real[n - 1].clone();
    for l in real[..n - 1].iter().rev() {
        over = over.with_overrides_from(l);
    }
    if let Some(c) = cmp_doc("precedence-overrides", &over, &want, &refs, "fold of with_overrides_from") {
        return c;
    }
    let mut right = real[n - 1].clone();
    for l in real[..n - 1].iter().rev() {
        right = l.with_defaults_from(&right);
    }
    if let Some(c) = cmp_doc("assoc", &right, &want, &refs, "right fold of with_defaults_from") {
        return c;
    }
    for k in 1..n {
        let mut a = real[0].clone();
        for l in &real[1..k] {
            a = a.with_defaults_from(l);
        }
        let mut b = real[k].clone();
        for l in &real[k + 1..] {
            b = b.with_defaults_from(l);
        }
        if let Some(c) = cmp_doc("assoc", &a.with_defaults_from(&b), &want, &refs, "split fold of with_defaults_from") {
            return c;
        }
    }
    let empty = DocumentConfig::empty();
    for (x, xm) in real.iter().zip(layers.iter()).chain(std::iter::once((&left, &want))) {
        let single = [xm];
        for (what, got) in [
            ("x.with_defaults_from(empty)", x.with_defaults_from(&empty)),
            ("empty.with_defaults_from(x)", empty.with_defaults_from(x)),
            ("x.with_overrides_from(empty)", x.with_overrides_from(&empty)),
            ("empty.with_overrides_from(x)", empty.with_overrides_from(x)),
        ] {
            if let Some(c) = cmp_doc("identity", &got, xm, &single, what) {
                return c;
            }
        }
    }
    ev_algebra_doc(layers)
}

fn ev_algebra_doc(layers: &[DocCfg]) -> Checked {
    let tcs: Vec<&TcCfg> = layers.iter().map(|l| &l.defaults).collect();
    let (mut buf, mut conflicts, overlap, disjoint) = pattern(&tcs);
    for key in ["shell", "total_timeout", "prepend", "append"] {
        let mut n_set = 0;
        for l in layers {
            let set = l.is_set(key);
            n_set += set as usize;
            buf.push(set as u8);
        }
        if n_set >= 2 {
            conflicts.push(key);
        }
    }
    let mut c = Checked::held().shape(!conflicts.is_empty(), hash_bytes(&buf)).bucket("algebra:document");
    for k in conflicts {
        if k == "prepend" || k == "append" {
            c = c.bucket(format!("accumulate:{k}"));
        } else {
            c = c.bucket(format!("conflict:{k}"));
        }
    }
    if overlap {
        c = c.bucket("env:overlap");
    }
    if disjoint {
        c = c.bucket("env:disjoint");
    }
    if layers.iter().any(|l| *l == DocCfg::default()) {
        c = c.bucket("empty-layer");
    }
    c
}

const CRLF_PROBE: &[u8] = b"x\r\ny\r\n";

fn crlf_probe(tc: &scrut::testcase::TestCase) -> Option<bool> {
    // Some(true) = CRLF kept, Some(false) = translated to LF.
    // Guard: stripping ANSI escapes also drops CR (strip-ansi-escapes), so nothing can be read off then.
    if tc.config.strip_ansi_escaping == Some(true) {
        return None;
    }
    let out = tc.render_output(CRLF_PROBE).ok()?;
    if &out[..] == CRLF_PROBE {
        Some(true)
    } else if &out[..] == b"x\ny\n" {
        Some(false)
    } else {
        None
    }
}

fn check_parser_markdown(case: &C16Case) -> Checked {
    let mut text = String::new();
    if let Some(front) = &case.front {
        let Some(block) = simple_block(front) else {
            return Checked::out_of_scope("front-matter value needs quoting");
        };
        text.push_str("---\n");
        text.push_str(&block);
        text.push_str("---\n\n");
    }
    for (i, t) in case.tests.iter().enumerate() {
        text.push_str(&format!("# Test {i}\n\n"));
        match t {
            Some(cfg) => {
                let Some(flow) = simple_flow(cfg) else {
                    return Checked::out_of_scope("inline value needs quoting");
                };
                text.push_str(&format!("```scrut {{{flow}}}\n"));
            }
            None => text.push_str("```scrut\n"),
        }
        text.push_str(&format!("$ echo t{i}\nt{i}\n```\n\n"));
    }
    let parser = MarkdownParser::new(maker(), &["scrut"], case.base.as_ref().map(|b| b.to_real()));
    let (doc, tests) = match parser.parse(&text) {
        Ok(r) => r,
        Err(e) => return Checked::inconclusive(format!("harness-written document does not parse: {e:#}\n{text}")),
    };
    if tests.len() != case.tests.len() {
        return Checked::inconclusive(format!("expected {} tests, parser found {}\n{text}", case.tests.len(), tests.len()));
    }
    // the stated Markdown format default: stdout, CRLF translated. Other keys of the format layer are
    // not part of the statement and are judged only when a higher layer sets them.
    let format_default = TcCfg {
        output_stream: Some("stdout".into()),
        ..Default::default()
    };
    let empty = TcCfg::default();
    let bottom = case.base.as_ref().unwrap_or(&format_default);
    let front_defaults = case.front.as_ref().map(|f| &f.defaults).unwrap_or(&empty);
    for (i, (tc, inline)) in tests.iter().zip(case.tests.iter()).enumerate() {
        let inline = inline.as_ref().unwrap_or(&empty);
        let layers = [inline, front_defaults, bottom];
        let want = model_tc(&layers);
        let Some(got) = TcCfg::from_real(&tc.config) else {
            return viol("parser", "markdown", "any", "unrepresentable-value", format!("test {i}: {:?}", tc.config));
        };
        for key in TC_KEYS {
            if key != "environment" && !want.is_set(key) {
                continue; // no layer of the statement sets it
            }
            if !got.key_eq(&want, key) {
                return viol(
                    "parser",
                    "markdown",
                    key,
                    classify_tc(key, &got, &want, &layers),
                    format!(
                        "test {i}: key `{key}` is {} but the highest-precedence layer that sets it gives {} (inline | front-matter defaults | base: {})\n{text}",
                        got.show_key(key),
                        want.show_key(key),
                        layers.iter().map(|l| l.show_key(key)).collect::<Vec<_>>().join(" | ")
                    ),
                );
            }
        }
        // observable effect of keep_crlf
        let want_keep = want.keep_crlf == Some(true);
        if case.base.is_none() && want.keep_crlf.is_none() && got.keep_crlf == Some(true) {
            return viol("parser", "markdown", "keep_crlf", "format-default", format!("test {i}: Markdown default keeps CRLF\n{text}"));
        }
        match crlf_probe(tc) {
            Some(kept) if kept != want_keep => {
                return viol(
                    "parser",
                    "markdown",
                    "keep_crlf",
                    "effect",
                    format!("test {i}: render_output keeps CRLF = {kept}, effective keep_crlf = {:?}\n{text}", want.keep_crlf),
                );
            }
            _ => {}
        }
    }
    // the returned document configuration: front-matter over the format's document defaults
    let Some(gd) = DocCfg::from_real(&doc) else {
        return viol("parser", "markdown-document", "any", "unrepresentable-value", format!("{doc:?}"));
    };
    let fd = case.front.clone().unwrap_or_default();
    if fd.shell.is_some() && gd.shell != fd.shell {
        return viol("parser", "markdown-document", "shell", "lost", format!("shell {:?}, front-matter {:?}\n{text}", gd.shell, fd.shell));
    }
    if fd.total_timeout_ms.is_some() && gd.total_timeout_ms != fd.total_timeout_ms {
        return viol(
            "parser",
            "markdown-document",
            "total_timeout",
            "lost",
            format!("total_timeout {:?}, front-matter {:?}\n{text}", gd.total_timeout_ms, fd.total_timeout_ms),
        );
    }
    if gd.prepend != fd.prepend {
        return viol(
            "parser",
            "markdown-document",
            "prepend",
            list_cause(&gd.prepend, &fd.prepend, &[&fd.prepend]),
            format!("prepend {:?}, front-matter {:?}\n{text}", gd.prepend, fd.prepend),
        );
    }
    if gd.append != fd.append {
        return viol(
            "parser",
            "markdown-document",
            "append",
            list_cause(&gd.append, &fd.append, &[&fd.append]),
            format!("append {:?}, front-matter {:?}\n{text}", gd.append, fd.append),
        );
    }
    for key in TC_KEYS {
        if fd.defaults.is_set(key) && !gd.defaults.key_eq(&fd.defaults, key) {
            return viol(
                "parser",
                "markdown-document.defaults",
                key,
                classify_tc(key, &gd.defaults, &fd.defaults, &[&fd.defaults]),
                format!("defaults.{key} {} but front-matter says {}\n{text}", gd.defaults.show_key(key), fd.defaults.show_key(key)),
            );
        }
    }
    ev_parser_markdown(case)
}

fn ev_parser_markdown(case: &C16Case) -> Checked {
    let format_default = TcCfg {
        output_stream: Some("stdout".into()),
        ..Default::default()
    };
    let empty = TcCfg::default();
    let bottom = case.base.as_ref().unwrap_or(&format_default);
    let front_defaults = case.front.as_ref().map(|f| &f.defaults).unwrap_or(&empty);
    let mut conflicts: Vec<&'static str> = vec![];
    let mut buf = vec![];
    for inline in &case.tests {
        let inline = inline.as_ref().unwrap_or(&empty);
        let (b, c, _, _) = pattern(&[inline, front_defaults, bottom]);
        buf.extend(b);
        buf.push(0xfd);
        for k in c {
            if !conflicts.contains(&k) {
                conflicts.push(k);
            }
        }
    }
    let mut c = Checked::held().shape(!conflicts.is_empty(), hash_bytes(&buf)).bucket("parser:markdown");
    for k in conflicts {
        c = c.bucket(format!("parser-conflict:{k}"));
    }
    if case.base.is_some() {
        c = c.bucket("parser:custom-base");
    }
    if case.front.is_some() {
        c = c.bucket("parser:front-matter");
    }
    c
}

fn check_parser_cram(case: &C16Case) -> Checked {
    let n = case.tests.len().max(1);
    let mut text = String::new();
    for i in 0..n {
        text.push_str(&format!("Test {i}\n  $ echo t{i}\n  t{i}\n\n"));
    }
    let parser = CramParser::new(maker(), 2);
    let (_doc, tests) = match parser.parse(&text) {
        Ok(r) => r,
        Err(e) => return Checked::inconclusive(format!("harness-written cram document does not parse: {e:#}")),
    };
    if tests.len() != n {
        return Checked::inconclusive(format!("expected {n} cram tests, parser found {}", tests.len()));
    }
    for (i, tc) in tests.iter().enumerate() {
        let Some(got) = TcCfg::from_real(&tc.config) else {
            return viol("parser", "cram", "any", "unrepresentable-value", format!("test {i}: {:?}", tc.config));
        };
        if got.output_stream.as_deref() != Some("combined") {
            return viol("parser", "cram", "output_stream", "format-default", format!("test {i}: {:?}", got.output_stream));
        }
        if got.keep_crlf != Some(true) {
            return viol("parser", "cram", "keep_crlf", "format-default", format!("test {i}: {:?}", got.keep_crlf));
        }
        if crlf_probe(tc) == Some(false) {
            return viol("parser", "cram", "keep_crlf", "effect", format!("test {i}: render_output translates CRLF"));
        }
    }
    // trivial by construction: one fixed layer
    Checked::held().bucket("parser:cram")
}

impl Monitor for C16 {
    type Case = C16Case;

    fn id(&self) -> &'static str {
        "C16"
    }

    fn plan(&self, tier: Tier) -> Plan {
        let mut p = Plan::new(
            tier.pick(100_000, 2_000_000),
            "cases = (a) four layers of TestCaseConfig / DocumentConfig with every key in {unset, A, B, ..} and environments over overlapping or disjoint names, folded with with_defaults_from / with_overrides_from in every bracketing; (b) Markdown documents with front-matter defaults, inline configuration and a base configuration, and Cram documents, parsed by the real parsers; non-trivial = at least two layers set the same key or the same environment variable; distinct = hash of the per-key per-layer set/unset and value-equality pattern",
        );
        p.floor_nontrivial = tier.pick(2_000, 20_000);
        p.floor_buckets = vec![
            ("algebra:testcase".into(), tier.pick(8_000, 160_000)),
            ("algebra:document".into(), tier.pick(5_000, 100_000)),
            ("parser:markdown".into(), tier.pick(1_500, 30_000)),
            ("parser:cram".into(), tier.pick(100, 2_000)),
            ("conflict:environment".into(), tier.pick(4_000, 80_000)),
            ("conflict:keep_crlf".into(), tier.pick(4_000, 80_000)),
            ("conflict:wait".into(), tier.pick(4_000, 80_000)),
            ("env:disjoint".into(), tier.pick(1_000, 20_000)),
            ("accumulate:prepend".into(), tier.pick(1_000, 20_000)),
            ("accumulate:append".into(), tier.pick(1_000, 20_000)),
            ("parser-conflict:environment".into(), tier.pick(200, 4_000)),
            ("empty-layer".into(), tier.pick(1_000, 20_000)),
        ];
        p.assumptions = vec![
            "part (c) of the design (command-line flags, end to end) is not covered by this in-process monitor".into(),
            "order between layers of prepend/append is taken from the doc comments of DocumentConfig::with_defaults_from: higher precedence prepends first and appends last".into(),
            "format layer: only output_stream and the CRLF behaviour are judged when no higher layer sets a key (skip code 80 and the 900 s document timeout are not part of the statement)".into(),
        ];
        p
    }

    fn gen(&self, _env: &Env, _k: u64, rng: &mut Rng) -> C16Case {
        let mode = rng.weighted(&[50, 35, 14, 1]);
        // density of set keys: sparse layers, dense layers, mixed
        let (pn, pd) = *rng.pick(&[(1u32, 3u32), (1, 2), (3, 4), (1, 1)]);
        let names: &[&str] = if rng.chance(2, 3) { ENV_OVERLAP } else { ENV_WIDE };
        match mode {
            0 | 1 => {
                let n = *rng.pick(&[4usize, 4, 4, 3, 2]);
                let mut layers = vec![];
                for i in 0..n {
                    if rng.chance(1, 12) {
                        layers.push(DocCfg::default());
                    } else if mode == 0 {
                        layers.push(DocCfg {
                            defaults: gen_layer(rng, i, pn, pd, names),
                            ..Default::default()
                        });
                    } else {
                        layers.push(gen_doc_layer(rng, i, pn, pd, names));
                    }
                }
                C16Case {
                    mode: if mode == 0 { "algebra-testcase" } else { "algebra-document" }.into(),
                    layers,
                    ..Default::default()
                }
            }
            2 => {
                let base = match rng.below(4) {
                    0 => Some(gen_layer(rng, 2, pn, pd, names)),
                    1 => Some(TcCfg {
                        // what `--cram-compat` hands to the Markdown parser
                        output_stream: Some("combined".into()),
                        keep_crlf: Some(true),
                        skip_document_code: Some(80),
                        ..Default::default()
                    }),
                    _ => None,
                };
                let front = if rng.chance(3, 4) { Some(gen_doc_layer(rng, 1, pn, pd, names)) } else { None };
                let tests = (0..1 + rng.below(3))
                    .map(|_| if rng.chance(4, 5) { Some(gen_layer(rng, 0, pn, pd, names)) } else { None })
                    .collect();
                C16Case {
                    mode: "parser-markdown".into(),
                    base,
                    front,
                    tests,
                    ..Default::default()
                }
            }
            _ => C16Case {
                mode: "parser-cram".into(),
                tests: (0..1 + rng.below(3)).map(|_| None).collect(),
                ..Default::default()
            },
        }
    }

    fn check(&self, _env: &Env, case: &C16Case) -> Checked {
        let tc_layers = || -> Vec<TcCfg> { case.layers.iter().map(|l| l.defaults.clone()).collect() };
        let mut c = match case.mode.as_str() {
            "algebra-testcase" => check_algebra_tc(&tc_layers()),
            "algebra-document" => check_algebra_doc(&case.layers),
            "parser-markdown" => check_parser_markdown(case),
            "parser-cram" => check_parser_cram(case),
            other => Checked::out_of_scope(format!("unknown mode {other}")),
        };
        if c.is_violated() {
            // what the case exercised is evidence whatever the verdict
            let ev = match case.mode.as_str() {
                "algebra-testcase" if !case.layers.is_empty() => ev_algebra_tc(&tc_layers()),
                "algebra-document" if !case.layers.is_empty() => ev_algebra_doc(&case.layers),
                "parser-markdown" => ev_parser_markdown(case),
                _ => Checked::held(),
            };
            c.buckets = ev.buckets;
            c.shape = ev.shape;
        }
        c
    }

    fn shrink(&self, case: &C16Case) -> Vec<C16Case> {
        let mut v = vec![];
        let shrink_tc = |t: &TcCfg| -> Vec<TcCfg> {
            let mut out = vec![];
            for k in t.set_keys() {
                out.push(t.without(k));
            }
            if t.environment.len() > 1 {
                for name in t.environment.keys() {
                    let mut c = t.clone();
                    c.environment.remove(name);
                    out.push(c);
                }
            }
            if let Some(w) = &t.wait {
                if w.path.is_some() {
                    let mut c = t.clone();
                    c.wait = Some(WaitCfg {
                        timeout_ms: w.timeout_ms,
                        path: None,
                    });
                    out.push(c);
                }
            }
            out
        };
        let shrink_doc = |d: &DocCfg| -> Vec<DocCfg> {
            let mut out = vec![];
            if d.shell.is_some() {
                out.push(DocCfg { shell: None, ..d.clone() });
            }
            if d.total_timeout_ms.is_some() {
                out.push(DocCfg {
                    total_timeout_ms: None,
                    ..d.clone()
                });
            }
            for i in 0..d.prepend.len() {
                let mut c = d.clone();
                c.prepend.remove(i);
                out.push(c);
            }
            for i in 0..d.append.len() {
                let mut c = d.clone();
                c.append.remove(i);
                out.push(c);
            }
            for t in shrink_tc(&d.defaults) {
                out.push(DocCfg { defaults: t, ..d.clone() });
            }
            out
        };
        if case.layers.len() > 1 {
            for i in 0..case.layers.len() {
                let mut c = case.clone();
                c.layers.remove(i);
                v.push(c);
            }
        }
        for i in 0..case.layers.len() {
            for d in shrink_doc(&case.layers[i]) {
                let mut c = case.clone();
                c.layers[i] = d;
                v.push(c);
            }
        }
        if case.mode.starts_with("parser") {
            if case.tests.len() > 1 {
                for i in 0..case.tests.len() {
                    let mut c = case.clone();
                    c.tests.remove(i);
                    v.push(c);
                }
            }
            if case.front.is_some() {
                let mut c = case.clone();
                c.front = None;
                v.push(c);
            }
            if case.base.is_some() {
                let mut c = case.clone();
                c.base = None;
                v.push(c);
            }
            if let Some(f) = &case.front {
                for d in shrink_doc(f) {
                    let mut c = case.clone();
                    c.front = Some(d);
                    v.push(c);
                }
            }
            if let Some(b) = &case.base {
                for t in shrink_tc(b) {
                    let mut c = case.clone();
                    c.base = Some(t);
                    v.push(c);
                }
            }
            for i in 0..case.tests.len() {
                if let Some(t) = &case.tests[i] {
                    let mut c = case.clone();
                    c.tests[i] = None;
                    v.push(c);
                    for s in shrink_tc(t) {
                        let mut c = case.clone();
                        c.tests[i] = Some(s);
                        v.push(c);
                    }
                }
            }
        }
        v
    }

    fn sample(&self, case: &C16Case) -> Value {
        let show_tc = |t: &TcCfg| -> Value {
            let mut m = BTreeMap::new();
            for k in t.set_keys() {
                m.insert(k.to_string(), t.show_key(k));
            }
            json!(m)
        };
        match case.mode.as_str() {
            "algebra-testcase" => json!({
                "mode": case.mode,
                "layers_highest_first": case.layers.iter().map(|l| show_tc(&l.defaults)).collect::<Vec<_>>(),
            }),
            "algebra-document" => json!({
                "mode": case.mode,
                "layers_highest_first": case.layers.iter().map(|l| json!({
                    "shell": l.shell, "total_timeout_ms": l.total_timeout_ms, "prepend": l.prepend, "append": l.append,
                    "defaults": show_tc(&l.defaults)})).collect::<Vec<_>>(),
            }),
            _ => json!({
                "mode": case.mode,
                "base": case.base.as_ref().map(show_tc),
                "front_matter": case.front.as_ref().and_then(simple_block),
                "inline": case.tests.iter().map(|t| t.as_ref().and_then(simple_flow)).collect::<Vec<_>>(),
            }),
        }
    }
}
