//! Shared workload and helpers for C16 / C17 (configuration layering and round trips).
//!
//! Configurations are kept in a serialisable mirror form (`TcCfg`, `DocCfg`) so that
//! witnesses are concrete inputs; the oracles work on the mirror form only.

use std::collections::BTreeMap;
use std::path::PathBuf;
use std::sync::Arc;
use std::time::Duration;

use scrut::config::DocumentConfig;
use scrut::config::OutputStreamControl;
use scrut::config::TestCaseConfig;
use scrut::config::TestCaseWait;
use scrut::expectation::ExpectationMaker;
use scrut::rules::registry::RuleRegistry;
use serde::Deserialize;
use serde::Serialize;

use crate::rng::Rng;

#[derive(Clone, Debug, Default, PartialEq, Eq, Serialize, Deserialize)]
pub struct WaitCfg {
    pub timeout_ms: u64,
    #[serde(default, skip_serializing_if = "Option::is_none")]
    pub path: Option<String>,
}

/// mirror of `TestCaseConfig`
#[derive(Clone, Debug, Default, PartialEq, Eq, Serialize, Deserialize)]
pub struct TcCfg {
    /// "stdout" | "stderr" | "combined"
    #[serde(default, skip_serializing_if = "Option::is_none")]
    pub output_stream: Option<String>,
    #[serde(default, skip_serializing_if = "Option::is_none")]
    pub keep_crlf: Option<bool>,
    #[serde(default, skip_serializing_if = "Option::is_none")]
    pub timeout_ms: Option<u64>,
    #[serde(default, skip_serializing_if = "Option::is_none")]
    pub detached: Option<bool>,
    #[serde(default, skip_serializing_if = "Option::is_none")]
    pub skip_document_code: Option<i32>,
    #[serde(default, skip_serializing_if = "Option::is_none")]
    pub strip_ansi_escaping: Option<bool>,
    #[serde(default, skip_serializing_if = "Option::is_none")]
    pub wait: Option<WaitCfg>,
    #[serde(default, skip_serializing_if = "BTreeMap::is_empty")]
    pub environment: BTreeMap<String, String>,
}

/// mirror of `DocumentConfig`
#[derive(Clone, Debug, Default, PartialEq, Eq, Serialize, Deserialize)]
pub struct DocCfg {
    #[serde(default, skip_serializing_if = "Vec::is_empty")]
    pub append: Vec<String>,
    #[serde(default, skip_serializing_if = "Vec::is_empty")]
    pub prepend: Vec<String>,
    #[serde(default, skip_serializing_if = "Option::is_none")]
    pub shell: Option<String>,
    #[serde(default, skip_serializing_if = "Option::is_none")]
    pub total_timeout_ms: Option<u64>,
    #[serde(default, skip_serializing_if = "tc_is_empty")]
    pub defaults: TcCfg,
}

fn tc_is_empty(t: &TcCfg) -> bool {
    *t == TcCfg::default()
}

pub const TC_KEYS: [&str; 8] = [
    "output_stream",
    "keep_crlf",
    "timeout",
    "detached",
    "skip_document_code",
    "strip_ansi_escaping",
    "wait",
    "environment",
];

impl TcCfg {
    pub fn is_set(&self, key: &str) -> bool {
        match key {
            "output_stream" => self.output_stream.is_some(),
            "keep_crlf" => self.keep_crlf.is_some(),
            "timeout" => self.timeout_ms.is_some(),
            "detached" => self.detached.is_some(),
            "skip_document_code" => self.skip_document_code.is_some(),
            "strip_ansi_escaping" => self.strip_ansi_escaping.is_some(),
            "wait" => self.wait.is_some(),
            "environment" => !self.environment.is_empty(),
            _ => false,
        }
    }

    /// printable value of one (non-environment) key
    pub fn show_key(&self, key: &str) -> String {
        match key {
            "output_stream" => format!("{:?}", self.output_stream),
            "keep_crlf" => format!("{:?}", self.keep_crlf),
            "timeout" => format!("{:?}ms", self.timeout_ms),
            "detached" => format!("{:?}", self.detached),
            "skip_document_code" => format!("{:?}", self.skip_document_code),
            "strip_ansi_escaping" => format!("{:?}", self.strip_ansi_escaping),
            "wait" => format!("{:?}", self.wait),
            "environment" => format!("{:?}", self.environment),
            _ => "?".into(),
        }
    }

    pub fn key_eq(&self, other: &TcCfg, key: &str) -> bool {
        match key {
            "output_stream" => self.output_stream == other.output_stream,
            "keep_crlf" => self.keep_crlf == other.keep_crlf,
            "timeout" => self.timeout_ms == other.timeout_ms,
            "detached" => self.detached == other.detached,
            "skip_document_code" => self.skip_document_code == other.skip_document_code,
            "strip_ansi_escaping" => self.strip_ansi_escaping == other.strip_ansi_escaping,
            "wait" => self.wait == other.wait,
            "environment" => self.environment == other.environment,
            _ => true,
        }
    }

    /// copy of `self` with only `key` kept
    pub fn only(&self, key: &str) -> TcCfg {
        let mut t = TcCfg::default();
        match key {
            "output_stream" => t.output_stream = self.output_stream.clone(),
            "keep_crlf" => t.keep_crlf = self.keep_crlf,
            "timeout" => t.timeout_ms = self.timeout_ms,
            "detached" => t.detached = self.detached,
            "skip_document_code" => t.skip_document_code = self.skip_document_code,
            "strip_ansi_escaping" => t.strip_ansi_escaping = self.strip_ansi_escaping,
            "wait" => t.wait = self.wait.clone(),
            "environment" => t.environment = self.environment.clone(),
            _ => {}
        }
        t
    }

    /// copy of `self` with `key` unset
    pub fn without(&self, key: &str) -> TcCfg {
        let mut t = self.clone();
        match key {
            "output_stream" => t.output_stream = None,
            "keep_crlf" => t.keep_crlf = None,
            "timeout" => t.timeout_ms = None,
            "detached" => t.detached = None,
            "skip_document_code" => t.skip_document_code = None,
            "strip_ansi_escaping" => t.strip_ansi_escaping = None,
            "wait" => t.wait = None,
            "environment" => t.environment.clear(),
            _ => {}
        }
        t
    }

    pub fn set_keys(&self) -> Vec<&'static str> {
        TC_KEYS.iter().copied().filter(|k| self.is_set(k)).collect()
    }

    pub fn to_real(&self) -> TestCaseConfig {
        TestCaseConfig {
            output_stream: self.output_stream.as_deref().map(|s| match s {
                "stderr" => OutputStreamControl::Stderr,
                "combined" => OutputStreamControl::Combined,
                _ => OutputStreamControl::Stdout,
            }),
            keep_crlf: self.keep_crlf,
            timeout: self.timeout_ms.map(Duration::from_millis),
            detached: self.detached,
            skip_document_code: self.skip_document_code,
            strip_ansi_escaping: self.strip_ansi_escaping,
            wait: self.wait.as_ref().map(|w| TestCaseWait {
                timeout: Duration::from_millis(w.timeout_ms),
                path: w.path.as_ref().map(PathBuf::from),
            }),
            environment: self.environment.clone(),
        }
    }

    /// `None` if the real value cannot be represented in the mirror (sub-millisecond
    /// durations, non UTF-8 paths): callers compare the real values in that case
    pub fn from_real(c: &TestCaseConfig) -> Option<TcCfg> {
        Some(TcCfg {
            output_stream: c.output_stream.as_ref().map(|s| {
                match s {
                    OutputStreamControl::Stdout => "stdout",
                    OutputStreamControl::Stderr => "stderr",
                    OutputStreamControl::Combined => "combined",
                }
                .to_string()
            }),
            keep_crlf: c.keep_crlf,
            timeout_ms: match c.timeout {
                None => None,
                Some(d) => Some(dur_ms(d)?),
            },
            detached: c.detached,
            skip_document_code: c.skip_document_code,
            strip_ansi_escaping: c.strip_ansi_escaping,
            wait: match &c.wait {
                None => None,
                Some(w) => Some(WaitCfg {
                    timeout_ms: dur_ms(w.timeout)?,
                    path: match &w.path {
                        None => None,
                        Some(p) => Some(p.to_str()?.to_string()),
                    },
                }),
            },
            environment: c.environment.clone(),
        })
    }
}

fn dur_ms(d: Duration) -> Option<u64> {
    if d.subsec_nanos() % 1_000_000 != 0 {
        return None;
    }
    u64::try_from(d.as_millis()).ok()
}

impl DocCfg {
    pub fn to_real(&self) -> DocumentConfig {
        DocumentConfig {
            append: self.append.iter().map(PathBuf::from).collect(),
            prepend: self.prepend.iter().map(PathBuf::from).collect(),
            shell: self.shell.as_ref().map(PathBuf::from),
            total_timeout: self.total_timeout_ms.map(Duration::from_millis),
            defaults: self.defaults.to_real(),
        }
    }

    pub fn from_real(c: &DocumentConfig) -> Option<DocCfg> {
        let paths = |v: &Vec<PathBuf>| -> Option<Vec<String>> { v.iter().map(|p| p.to_str().map(|s| s.to_string())).collect() };
        Some(DocCfg {
            append: paths(&c.append)?,
            prepend: paths(&c.prepend)?,
            shell: match &c.shell {
                None => None,
                Some(p) => Some(p.to_str()?.to_string()),
            },
            total_timeout_ms: match c.total_timeout {
                None => None,
                Some(d) => Some(dur_ms(d)?),
            },
            defaults: TcCfg::from_real(&c.defaults)?,
        })
    }

    pub fn is_set(&self, key: &str) -> bool {
        match key {
            "append" => !self.append.is_empty(),
            "prepend" => !self.prepend.is_empty(),
            "shell" => self.shell.is_some(),
            "total_timeout" => self.total_timeout_ms.is_some(),
            "defaults" => self.defaults != TcCfg::default(),
            _ => false,
        }
    }
}

thread_local! {
    static MAKER: Arc<ExpectationMaker> = Arc::new(ExpectationMaker::new(RuleRegistry::default()));
}

pub fn maker() -> Arc<ExpectationMaker> {
    MAKER.with(|m| m.clone())
}

// ---------------------------------------------------------------------------------------------
// duration rendering of the harness (for documents written by the harness, C16 (b)):
// plain "<n>ms" / "<n>s" forms only, both accepted by the documented humantime syntax

pub fn simple_duration(ms: u64) -> String {
    if ms % 1000 == 0 {
        format!("{}s", ms / 1000)
    } else {
        format!("{}ms", ms)
    }
}

/// flow-style YAML (`key: value, ...` without the outer braces) for values that need no quoting.
/// Returns `None` if a value would need quoting (the C16 workload never produces one).
pub fn simple_flow(t: &TcCfg) -> Option<String> {
    let mut parts = vec![];
    if let Some(s) = &t.output_stream {
        parts.push(format!("output_stream: {s}"));
    }
    if let Some(b) = t.keep_crlf {
        parts.push(format!("keep_crlf: {b}"));
    }
    if let Some(ms) = t.timeout_ms {
        parts.push(format!("timeout: {}", simple_duration(ms)));
    }
    if let Some(b) = t.detached {
        parts.push(format!("detached: {b}"));
    }
    if let Some(c) = t.skip_document_code {
        parts.push(format!("skip_document_code: {c}"));
    }
    if let Some(b) = t.strip_ansi_escaping {
        parts.push(format!("strip_ansi_escaping: {b}"));
    }
    if let Some(w) = &t.wait {
        match &w.path {
            Some(p) => {
                if !is_simple_word(p) {
                    return None;
                }
                parts.push(format!("wait: {{timeout: {}, path: {}}}", simple_duration(w.timeout_ms), p));
            }
            None => parts.push(format!("wait: {}", simple_duration(w.timeout_ms))),
        }
    }
    if !t.environment.is_empty() {
        let mut vars = vec![];
        for (k, v) in &t.environment {
            if !is_simple_word(k) || !(v.is_empty() || is_simple_word(v)) {
                return None;
            }
            // single quoted: no escapes are interpreted, the workload has no quote characters
            vars.push(format!("{k}: '{v}'"));
        }
        parts.push(format!("environment: {{{}}}", vars.join(", ")));
    }
    Some(parts.join(", "))
}

/// block-style YAML for a document configuration with simple values
pub fn simple_block(d: &DocCfg) -> Option<String> {
    let mut out = String::new();
    let list = |name: &str, v: &Vec<String>, out: &mut String| -> Option<()> {
        if !v.is_empty() {
            out.push_str(&format!("{name}:\n"));
            for p in v {
                if !is_simple_word(p) {
                    return None;
                }
                out.push_str(&format!("  - {p}\n"));
            }
        }
        Some(())
    };
    list("append", &d.append, &mut out)?;
    list("prepend", &d.prepend, &mut out)?;
    if let Some(s) = &d.shell {
        if !is_simple_word(s) {
            return None;
        }
        out.push_str(&format!("shell: {s}\n"));
    }
    if let Some(ms) = d.total_timeout_ms {
        out.push_str(&format!("total_timeout: {}\n", simple_duration(ms)));
    }
    if d.defaults != TcCfg::default() {
        out.push_str(&format!("defaults: {{{}}}\n", simple_flow(&d.defaults)?));
    }
    Some(out)
}

/// letters, digits, `_ - . /`, starting with a letter, `_` or `/`; never a YAML keyword
pub fn is_simple_word(s: &str) -> bool {
    let mut chars = s.chars();
    match chars.next() {
        Some(c) if c.is_ascii_alphabetic() || c == '_' || c == '/' => {}
        _ => return false,
    }
    if !s.chars().all(|c| c.is_ascii_alphanumeric() || "_-./".contains(c)) {
        return false;
    }
    !matches!(
        s.to_ascii_lowercase().as_str(),
        "null" | "true" | "false" | "yes" | "no" | "on" | "off" | "y" | "n"
    )
}

// ---------------------------------------------------------------------------------------------
// generators

pub const STREAMS: [&str; 3] = ["stdout", "stderr", "combined"];

/// one layer for the layering algebra: every key in {unset, A, B, (C)}
pub fn gen_layer(rng: &mut Rng, layer: usize, p_set_num: u32, p_set_den: u32, env_names: &[&str]) -> TcCfg {
    let mut t = TcCfg::default();
    let set = |rng: &mut Rng| rng.chance(p_set_num, p_set_den);
    if set(rng) {
        t.output_stream = Some(STREAMS[rng.below(3)].to_string());
    }
    if set(rng) {
        t.keep_crlf = Some(rng.bool());
    }
    if set(rng) {
        t.timeout_ms = Some(*rng.pick(&[1000u64, 2000, 1500, 60_000, 0]));
    }
    if set(rng) {
        t.detached = Some(rng.bool());
    }
    if set(rng) {
        t.skip_document_code = Some(*rng.pick(&[80, 81, 0, 255]));
    }
    if set(rng) {
        t.strip_ansi_escaping = Some(rng.bool());
    }
    if set(rng) {
        t.wait = Some(WaitCfg {
            timeout_ms: *rng.pick(&[1000u64, 3000, 250]),
            path: if rng.bool() { Some(rng.pick(&["wa", "wb", "/tmp/w"]).to_string()) } else { None },
        });
    }
    if set(rng) {
        let n = 1 + rng.below(env_names.len().min(4));
        for _ in 0..n {
            let name = rng.pick(env_names).to_string();
            let value = match rng.below(4) {
                0 => "x".to_string(),
                1 => String::new(),
                _ => format!("v{layer}{}", rng.below(2)),
            };
            t.environment.insert(name, value);
        }
    }
    t
}

pub fn gen_doc_layer(rng: &mut Rng, layer: usize, p_num: u32, p_den: u32, env_names: &[&str]) -> DocCfg {
    let mut d = DocCfg {
        defaults: gen_layer(rng, layer, p_num, p_den, env_names),
        ..Default::default()
    };
    if rng.chance(p_num, p_den) {
        d.shell = Some(rng.pick(&["bash", "/bin/sh", "zsh"]).to_string());
    }
    if rng.chance(p_num, p_den) {
        // 0 is a value like any other: Some(0) wins over a lower layer's Some(n)
        d.total_timeout_ms = Some(*rng.pick(&[900_000u64, 5000, 10_000, 0]));
    }
    if rng.chance(p_num, p_den) {
        d.prepend = (0..1 + rng.below(3)).map(|i| format!("p{layer}{i}.md")).collect();
        if rng.chance(1, 4) {
            // the same path in two layers must be kept twice
            d.prepend.push("shared.md".into());
        }
    }
    if rng.chance(p_num, p_den) {
        d.append = (0..1 + rng.below(3)).map(|i| format!("a{layer}{i}.md")).collect();
        if rng.chance(1, 4) {
            d.append.push("shared.md".into());
        }
    }
    d
}

// ---------------------------------------------------------------------------------------------
// the layering model (oracle): the first layer that sets a key / a variable wins

pub fn model_tc(layers: &[&TcCfg]) -> TcCfg {
    let mut out = TcCfg::default();
    for l in layers {
        if out.output_stream.is_none() {
            out.output_stream = l.output_stream.clone();
        }
        if out.keep_crlf.is_none() {
            out.keep_crlf = l.keep_crlf;
        }
        if out.timeout_ms.is_none() {
            out.timeout_ms = l.timeout_ms;
        }
        if out.detached.is_none() {
            out.detached = l.detached;
        }
        if out.skip_document_code.is_none() {
            out.skip_document_code = l.skip_document_code;
        }
        if out.strip_ansi_escaping.is_none() {
            out.strip_ansi_escaping = l.strip_ansi_escaping;
        }
        if out.wait.is_none() {
            out.wait = l.wait.clone();
        }
        for (k, v) in &l.environment {
            if !out.environment.contains_key(k) {
                out.environment.insert(k.clone(), v.clone());
            }
        }
    }
    out
}

/// layers[0] has the highest precedence. `prepend`: higher precedence first; `append`: higher
/// precedence last (doc comments of `DocumentConfig::with_defaults_from`).
pub fn model_doc(layers: &[&DocCfg]) -> DocCfg {
    let mut out = DocCfg::default();
    for l in layers {
        if out.shell.is_none() {
            out.shell = l.shell.clone();
        }
        if out.total_timeout_ms.is_none() {
            out.total_timeout_ms = l.total_timeout_ms;
        }
        out.prepend.extend(l.prepend.iter().cloned());
    }
    for l in layers.iter().rev() {
        out.append.extend(l.append.iter().cloned());
    }
    let tcs: Vec<&TcCfg> = layers.iter().map(|l| &l.defaults).collect();
    out.defaults = model_tc(&tcs);
    out
}

/// why `got` differs from the expected value of `key`, given the layers (highest precedence first)
pub fn classify_tc(key: &str, got: &TcCfg, want: &TcCfg, layers: &[&TcCfg]) -> &'static str {
    if key == "environment" {
        for (k, v) in &want.environment {
            match got.environment.get(k) {
                None => return "variable-lost",
                Some(g) if g != v => {
                    if layers.iter().any(|l| l.environment.get(k) == Some(g)) {
                        return "lower-layer-won";
                    }
                    return "foreign-value";
                }
                _ => {}
            }
        }
        if got.environment.keys().any(|k| !want.environment.contains_key(k)) {
            return "variable-invented";
        }
        return "other";
    }
    if !got.is_set(key) {
        return "lost";
    }
    if !want.is_set(key) {
        return "invented";
    }
    if layers.iter().any(|l| l.is_set(key) && l.key_eq(got, key)) {
        return "lower-layer-won";
    }
    "foreign-value"
}
