//! C08 — expectation lines parse per the documented grammar and print back equivalently.
//!
//! A line is `expr || suffix` by construction; the verdict on the grammar comes from the harness's own
//! suffix scanner (`oracle::rulematch::scan_line`), the round trip is judged on probe contents
//! (`matches(c) || matches(c + LF)` must agree between the parsed expectation and the re-parsed canonical
//! rendering, for both escapers).

use scrut::escaping::Escaper;
use scrut::expectation::Expectation;
use serde::Deserialize;
use serde::Serialize;
use serde_json::json;
use serde_json::Value;

use super::expcommon::*;
use crate::core::*;
use crate::oracle::rulematch::*;
use crate::rng::hash_str;
use crate::rng::show;
use crate::rng::Rng;

pub struct C08;

#[derive(Clone, Debug, PartialEq, Serialize, Deserialize)]
pub struct C08Case {
    /// text before the suffix (may itself end in parenthesised groups)
    pub expr: String,
    /// appended text: a valid modifier group, a near miss, or nothing
    pub suffix: String,
    /// the generator rendered `expr` from a regex AST (so a `regex` modifier must not fail)
    #[serde(default)]
    pub regex_wellformed: bool,
    /// additional probe contents for the round trip (members of the expression etc.)
    #[serde(default)]
    pub probes: Vec<String>,
    #[serde(default)]
    pub family: String,
    /// `expr` is no regular expression on its own (a `)` without its `(`), whatever it becomes
    /// when scrut wraps it: a `regex` modifier has to fail
    #[serde(default)]
    pub regex_malformed: bool,
}

fn line_of(case: &C08Case) -> String {
    format!("{}{}", case.expr, case.suffix)
}

const ESC_MARKERS: &[&str] = &[" (escaped)", " \\(escaped\\)", " (esc)", " \\(esc\\)"];

fn strip_marker(expr: &str) -> Option<&str> {
    ESC_MARKERS.iter().find(|m| expr.ends_with(*m)).map(|m| &expr[..expr.len() - m.len()])
}

/// (may fail?, expected expression bytes if the documentation fixes them)
fn modifier_expectations(case: &C08Case, expr: &str, kind: &str) -> (bool, Option<Vec<u8>>) {
    match kind {
        "equal" | "no-eol" => (false, Some(expr.as_bytes().to_vec())),
        "escaped" => {
            // Cram compatibility drops a trailing ` (no-eol)`: expression not checked then
            let noeol = expr.ends_with(" (no-eol)");
            let inner = if noeol { &expr[..expr.len() - " (no-eol)".len()] } else { expr };
            match esc_tokenise(inner) {
                Err(_) => (true, None),
                Ok(t) => (false, if noeol { None } else { esc_decode(&t) }),
            }
        }
        "glob" => match strip_marker(expr) {
            Some(inner) => match esc_tokenise(inner) {
                Err(_) => (true, None),
                Ok(t) => match esc_decode(&t).map(String::from_utf8) {
                    Some(Ok(text)) => (false, (!text.contains("**")).then(|| text.into_bytes())),
                    Some(Err(_)) => (true, None),
                    // undocumented escapes: bytes unknown, could be invalid UTF-8
                    None => (true, None),
                },
            },
            None => (false, (!expr.contains("**")).then(|| expr.as_bytes().to_vec())),
        },
        _ => {
            let identity = !expr.contains(['\\', '{', '}', '[', ']']);
            (!case.regex_wellformed, identity.then(|| expr.as_bytes().to_vec()))
        }
    }
}

fn either(e: &Expectation, c: &[u8]) -> bool {
    let mut with_nl = c.to_vec();
    with_nl.push(b'\n');
    e.matches(c) || e.matches(&with_nl)
}

fn push_probe(v: &mut Vec<Vec<u8>>, p: Vec<u8>) {
    if !p.contains(&b'\n') && !v.contains(&p) && v.len() < 60 {
        v.push(p);
    }
}

/// contents on which the two expectations are compared
fn probes_for(e: &Expectation, rendered: &str, extra: &[String]) -> Vec<Vec<u8>> {
    let (kind, expression, _, _) = e.unmake();
    let mut base: Vec<Vec<u8>> = vec![];
    push_probe(&mut base, expression.clone());
    push_probe(&mut base, e.original_string().into_bytes());
    // the spelled form of the rendering without its final group, and its documented decoding
    let spelled = match scan_line(rendered) {
        Scan::Modifier { expr, .. } => expr,
        _ => rendered.to_string(),
    };
    if let Ok(t) = esc_tokenise(&spelled) {
        if let Some(b) = esc_decode(&t) {
            push_probe(&mut base, b);
        }
    }
    if let Ok(text) = String::from_utf8(expression.clone()) {
        if let Ok(t) = esc_tokenise(&text) {
            if let Some(b) = esc_decode(&t) {
                push_probe(&mut base, b);
            }
        }
        if kind == "glob" {
            let toks = glob_parse(&text, false);
            for fill in ["", "x", "xy"] {
                let mut s = String::new();
                for t in &toks {
                    match t {
                        GlobTok::Lit(c) | GlobTok::Esc(c) => s.push(*c),
                        GlobTok::One => s.push('x'),
                        GlobTok::Many => s.push_str(fill),
                    }
                }
                push_probe(&mut base, s.into_bytes());
            }
        }
    }
    push_probe(&mut base, spelled.clone().into_bytes());
    push_probe(&mut base, crate::rng::show(&expression).into_bytes());
    for p in extra {
        push_probe(&mut base, p.clone().into_bytes());
    }
    push_probe(&mut base, vec![]);
    // one-edit mutants
    let mut out = base.clone();
    for b in base.iter().take(12) {
        if !b.is_empty() {
            push_probe(&mut out, b[..b.len() - 1].to_vec());
            push_probe(&mut out, b[1..].to_vec());
        }
        let mut x = b.clone();
        x.push(b'x');
        push_probe(&mut out, x);
    }
    out
}

#[derive(Clone, Debug, PartialEq)]
struct RtFail {
    clause: &'static str,
    detail: String,
}

/// canonical rendering -> parse -> compare. None = round trip holds.
fn roundtrip(e: &Expectation, escaper: &Escaper, extra: &[String]) -> Option<RtFail> {
    let rendered = e.to_expression_string(escaper);
    if rendered.contains('\n') {
        return Some(RtFail { clause: "rendering-has-lf", detail: format!("canonical form `{}` contains a line feed", show(rendered.as_bytes())) });
    }
    let e2 = match parse_with(false, &rendered) {
        Ok(x) => x,
        Err(err) => {
            return Some(RtFail { clause: "reparse-error", detail: format!("canonical form `{}` does not parse: {err}", show(rendered.as_bytes())) });
        }
    };
    if (e.optional, e.multiline) != (e2.optional, e2.multiline) {
        return Some(RtFail {
            clause: "flags",
            detail: format!("canonical form `{}` has optional={} multiline={} (was {} {})", show(rendered.as_bytes()), e2.optional, e2.multiline, e.optional, e.multiline),
        });
    }
    for c in probes_for(e, &rendered, extra) {
        let (a, b) = (either(e, &c), either(&e2, &c));
        if a != b {
            return Some(RtFail {
                clause: "matches",
                detail: format!(
                    "canonical form `{}` {} the content \"{}\" which the parsed expectation {}",
                    show(rendered.as_bytes()),
                    if b { "matches" } else { "does not match" },
                    show(&c),
                    if a { "matches" } else { "does not match" }
                ),
            });
        }
    }
    None
}

struct RtViolation {
    sig: String,
    detail: String,
    /// minimal case with the same failing clause
    min: C08Case,
}

/// round-trip judgement of a parsed case, with the minimal expression that still fails the same clause
/// (stable (kind, feature) signature)
fn rt_violation(case: &C08Case, scan: &Scan, e: &Expectation) -> Option<RtViolation> {
    let kind = e.unmake().0;
    let (text, suffix) = split_for_minimising(case, scan);
    for (name, escaper) in escapers() {
        let Some(f) = roundtrip(e, &escaper, &case.probes) else { continue };
        let same = |x: &str, esc: &Escaper| matches!(rt_of(x, &suffix, esc, &case.probes), Some((k, g)) if k == kind && g.clause == f.clause);
        let chars: Vec<char> = text.chars().collect();
        let min: String = minimise_seq(&chars, |cs| same(&cs.iter().collect::<String>(), &escaper), 200).into_iter().collect();
        let (min, f_min) = match rt_of(&min, &suffix, &escaper, &case.probes) {
            Some((k, g)) if k == kind && g.clause == f.clause => (min, g),
            _ => (text.clone(), f.clone()),
        };
        let which: Vec<&str> = escapers().iter().filter(|(_, esc)| same(&min, esc)).map(|(n, _)| *n).collect();
        let which = if which.len() == 2 { "both" } else { which.first().copied().unwrap_or(name) };
        return Some(RtViolation {
            sig: format!("C08/roundtrip/{kind}/{which}/{}/{}", f.clause, rt_classes(&kind, &min)),
            detail: format!("`{}{}` ({name} escaper): {}", show(min.as_bytes()), suffix, f_min.detail),
            min: C08Case { expr: min, suffix: suffix.clone(), ..case.clone() },
        });
    }
    None
}

fn escapers() -> [(&'static str, Escaper); 2] {
    [("ascii", Escaper::Ascii), ("unicode", Escaper::Unicode)]
}

/// round-trip failure of `expr||suffix` under one escaper (None: parse error or round trip holds)
fn rt_of(expr: &str, suffix: &str, escaper: &Escaper, extra: &[String]) -> Option<(String, RtFail)> {
    let e = parse_with(false, &format!("{expr}{suffix}")).ok()?;
    let kind = e.unmake().0;
    roundtrip(&e, escaper, extra).map(|f| (kind, f))
}

fn join_classes(b: &[u8]) -> String {
    content_classes(b).join("+")
}

/// classes of the minimal expression; a regex cannot be minimised by deleting characters (it stops being a
/// regex), so its incidental tail is not part of the cause
fn rt_classes(kind: &str, min: &str) -> String {
    let v: Vec<String> = content_classes(min.as_bytes()).into_iter().filter(|c| kind != "regex" || !c.starts_with("tail=")).collect();
    if v.is_empty() {
        "plain".into()
    } else {
        v.join("+")
    }
}

fn tail_class(line: &str) -> String {
    paren_tail(line.as_bytes()).unwrap_or_else(|| "none".into())
}

fn regex_cause(expr: &str) -> &'static str {
    let digits_brace = |s: &str| s.starts_with('{') && s[1..].chars().next().is_some_and(|c| c.is_ascii_digit());
    if expr.contains("<<<<") || expr.contains(">>>>") {
        "placeholder"
    } else if expr.match_indices('<').any(|(i, _)| digits_brace(&expr[i + 1..])) || expr.match_indices('}').any(|(i, _)| expr[i + 1..].starts_with('>')) {
        "angle-at-quantifier"
    } else {
        "other"
    }
}

/// grammar clause: Ok(buckets) or Err((signature prefix without the structural cause, detail))
/// a `)` without its `(`, outside of character classes and escapes: no regular expression,
/// whatever it becomes between `^(?:` and `)$`
fn closes_before_it_opens(expr: &str) -> bool {
    let mut depth = 0i32;
    let mut in_class = false;
    let mut cs = expr.chars().peekable();
    while let Some(c) = cs.next() {
        match c {
            '\\' => {
                cs.next();
            }
            '[' if !in_class => {
                in_class = true;
                // a `]` directly behind `[` or `[^` is a member of the class
                if cs.peek() == Some(&'^') {
                    cs.next();
                }
                if cs.peek() == Some(&']') {
                    cs.next();
                }
            }
            ']' if in_class => in_class = false,
            '(' if !in_class => depth += 1,
            ')' if !in_class => {
                depth -= 1;
                if depth < 0 {
                    return true;
                }
            }
            _ => {}
        }
    }
    false
}

fn grammar(case: &C08Case, scan: &Scan, parsed: &Result<Expectation, String>) -> Result<Vec<String>, (String, String)> {
    let line = line_of(case);
    let mut buckets: Vec<String> = vec![];
    match (scan, parsed) {
        (Scan::OtherBlank, _) => buckets.push("grammar:other-blank(no-crash-only)".into()),
        (Scan::WholeLine, Err(e)) => {
            return Err((
                "C08/grammar/whole-line/err".into(),
                format!("`{}` has no modifier group and must be an equal expectation for the whole line, parse fails: {e}", show(line.as_bytes())),
            ));
        }
        (Scan::WholeLine, Ok(e)) => {
            let (kind, expression, optional, multiline) = e.unmake();
            if kind != "equal" || optional || multiline || expression != line.as_bytes() {
                return Err((
                    format!("C08/grammar/whole-line/read-as-{kind}"),
                    format!(
                        "`{}` has no modifier group, but is read as kind={kind} optional={optional} multiline={multiline} expression=\"{}\"",
                        show(line.as_bytes()),
                        show(&expression)
                    ),
                ));
            }
            buckets.push(format!("grammar:whole-line/tail={}", tail_class(&line)));
        }
        (Scan::Modifier { expr, kind, quant }, r) => {
            let (mut may_err, want_expr) = modifier_expectations(case, expr, kind);
            if *kind == "regex" && *expr != case.expr {
                may_err = true;
            }
            if *kind == "regex" && closes_before_it_opens(expr) {
                return match r {
                    Err(_) => {
                        buckets.push("grammar:unbalanced-regex-rejected".into());
                        Ok(buckets)
                    }
                    Ok(_) => Err((
                        "C08/grammar/modifier/accepted-malformed/regex".into(),
                        format!("`{}`: the expression is no regular expression on its own (a `)` without its `(`), it has to be refused", show(line.as_bytes())),
                    )),
                };
            }
            match r {
                Err(e) => {
                    if !may_err {
                        return Err((
                            format!("C08/grammar/modifier/err/{kind}"),
                            format!("`{}` is a well-formed {kind} expectation, parse fails: {e}", show(line.as_bytes())),
                        ));
                    }
                    buckets.push(format!("grammar:malformed-{kind}-rejected"));
                }
                Ok(e) => {
                    let (k2, expression, optional, multiline) = e.unmake();
                    let want_flags = (quant == "?" || quant == "*", quant == "*" || quant == "+");
                    if k2 != *kind {
                        return Err((
                            format!("C08/grammar/modifier/kind/{kind}-read-as-{k2}"),
                            format!("`{}`: kind {k2}, documented {kind}", show(line.as_bytes())),
                        ));
                    }
                    if (optional, multiline) != want_flags {
                        return Err((
                            format!("C08/grammar/modifier/flags/q={}", if quant.is_empty() { "none" } else { quant }),
                            format!("`{}`: optional={optional} multiline={multiline}, documented {want_flags:?}", show(line.as_bytes())),
                        ));
                    }
                    if let Some(w) = want_expr {
                        if w != expression {
                            return Err((
                                format!("C08/grammar/modifier/expression/{kind}"),
                                format!("`{}`: expression \"{}\", documented \"{}\"", show(line.as_bytes()), show(&expression), show(&w)),
                            ));
                        }
                        buckets.push("grammar:expression-checked".into());
                    }
                    buckets.push(format!("grammar:modifier/{kind}/q={}", if quant.is_empty() { "none" } else { quant }));
                }
            }
        }
    }
    Ok(buckets)
}

fn grammar_of(case: &C08Case) -> Result<Vec<String>, (String, String)> {
    let line = line_of(case);
    grammar(case, &scan_line(&line), &parse_with(false, &line))
}

/// the part of the line that is minimised: the whole line when there is no modifier, else the expression
fn split_for_minimising(case: &C08Case, scan: &Scan) -> (String, String) {
    match scan {
        Scan::WholeLine => (line_of(case), String::new()),
        // (the expression found by the scanner: it differs from `case.expr` when the suffix is empty and the
        // expression's own last group is the modifier)
        Scan::Modifier { expr, .. } => {
            let line = line_of(case);
            (expr.clone(), line[expr.len()..].to_string())
        }
        Scan::OtherBlank => (case.expr.clone(), case.suffix.clone()),
    }
}

fn cause(prefix: &str, min: &str) -> String {
    if prefix.contains("regex") && regex_cause(min) != "other" {
        regex_cause(min).to_string()
    } else {
        join_classes(min.as_bytes())
    }
}

struct GrammarViolation {
    sig: String,
    detail: String,
    min: C08Case,
}

fn grammar_violation(case: &C08Case, scan: &Scan, prefix: &str, detail: &str) -> GrammarViolation {
    let (text, suffix) = split_for_minimising(case, scan);
    if prefix.ends_with("/err/regex") {
        // deleting characters from a regex rendered from an AST does not keep it well-formed: not minimised
        return GrammarViolation {
            sig: format!("{prefix}/{}", regex_cause(&text)),
            detail: detail.to_string(),
            min: case.clone(),
        };
    }
    let with = |x: &str| C08Case { expr: x.to_string(), suffix: suffix.clone(), ..case.clone() };
    let chars: Vec<char> = text.chars().collect();
    let min: String = minimise_seq(&chars, |cs| matches!(grammar_of(&with(&cs.iter().collect::<String>())), Err((p, _)) if p == prefix), 200)
        .into_iter()
        .collect();
    let (min, detail) = match grammar_of(&with(&min)) {
        Err((p, d)) if p == prefix => (min, d),
        _ => (text, detail.to_string()),
    };
    GrammarViolation {
        sig: format!("{prefix}/{}", cause(prefix, &min)),
        detail,
        min: with(&min),
    }
}

thread_local! {
    static LAST_MIN: std::cell::RefCell<Option<(C08Case, C08Case)>> = const { std::cell::RefCell::new(None) };
}

impl C08 {
    fn judge(&self, case: &C08Case) -> Checked {
        let line = line_of(case);
        if line.contains('\n') {
            return Checked::out_of_scope("line feed inside a line");
        }
        let scan = scan_line(&line);
        let parsed = parse_with(false, &line);
        let mut buckets: Vec<String> = vec![format!("family:{}", case.family)];
        match grammar(case, &scan, &parsed) {
            Ok(b) => buckets.extend(b),
            Err((prefix, detail)) => {
                let v = grammar_violation(case, &scan, &prefix, &detail);
                LAST_MIN.with(|l| *l.borrow_mut() = Some((case.clone(), v.min.clone())));
                return Checked::violated(v.sig, v.detail);
            }
        }
        // ---- round trip (any parsed expectation) ----
        let Ok(e) = parsed else {
            return finish(case, &scan, buckets, false);
        };
        let kind = e.unmake().0;
        if let Some(v) = rt_violation(case, &scan, &e) {
            LAST_MIN.with(|l| *l.borrow_mut() = Some((case.clone(), v.min.clone())));
            return Checked::violated(v.sig, v.detail);
        }
        buckets.push(format!("roundtrip:{kind}"));
        if case.family == "blank-tail" {
            buckets.push(format!("roundtrip:blank-tail/{kind}"));
        }
        finish(case, &scan, buckets, true)
    }
}

fn finish(case: &C08Case, scan: &Scan, buckets: Vec<String>, round_tripped: bool) -> Checked {
    let line = line_of(case);
    let classes = join_classes(case.expr.as_bytes());
    let scan_tag = match scan {
        Scan::Modifier { kind, quant, .. } => format!("mod:{kind}{quant}"),
        Scan::OtherBlank => "other-blank".into(),
        Scan::WholeLine => format!("whole:{}", tail_class(&line)),
    };
    let nontrivial = line.ends_with(')') || classes != "plain";
    let nests = case.expr.matches(" (").count().min(4);
    let shape = hash_str(&format!("{scan_tag}|{}|{classes}|{nests}|{round_tripped}", case.suffix));
    let mut c = Checked::held().shape(nontrivial, shape);
    for b in buckets {
        c = c.bucket(b);
    }
    if matches!(scan, Scan::WholeLine) && line.ends_with(')') {
        c = c.bucket("near-miss-suffix");
    }
    c
}

// ---------------------------------------------------------------------------------------------
// generator
// ---------------------------------------------------------------------------------------------

const QUANTS: &[&str] = &["", "", "?", "*", "+"];
const NEAR: &[&str] = &[
    " ()", " (foo)", " (GLOB)", " ( glob)", " (glob )", " (??)", " (re?+)", "(glob)", " (glob", " glob)", " (glob) ", " (+glob)", " (equal-)",
    " (no_eol)", " (noeol)", " (regexp)", " (esc aped)", " (*?)", " (Equal)", " (glob)+", " ((glob))", " (glob))", " (eq?*)", " (-)", " ( )",
    " (no-eol-)", " (re gex)", "  ()", " (?) ", " [glob]", " (gl0b)", " (é)",
];
const NESTED: &[&str] = &[" (glob+)", " (glob)", " (?)", " ()", " (equal)", " (foo)", " (escaped)", " (no-eol)", " (re)", " (*)", " (esc)", "(x)", " (a b)"];

fn rand_modifier(rng: &mut Rng) -> String {
    let q = *rng.pick(QUANTS);
    if rng.chance(1, 8) && !q.is_empty() {
        format!(" ({q})")
    } else {
        format!(" ({}{q})", rng.pick(KINDS).0)
    }
}

fn gen_case(rng: &mut Rng) -> C08Case {
    if rng.chance(1, 80) {
        // unbalanced on its own, balanced between `^(?:` and `)$`
        let expr = *rng.pick(&["a)|(b", "x)(y", "foo)|(bar", ")(", "a)b(c", "[0-9]+)|(x"]);
        return C08Case {
            expr: expr.into(),
            suffix: format!(" ({}{})", rng.pick(&["regex", "re"]), rng.pick(QUANTS)),
            regex_wellformed: false,
            probes: vec![],
            family: "regex-unbalanced".into(),
            regex_malformed: true,
        };
    }
    let fam = rng.weighted(&[30, 12, 10, 12, 18, 8, 3, 5, 8]);
    let w = [45u32, 15, 12, 18, 10];
    let mut regex_wellformed = false;
    let mut probes: Vec<String> = vec![];
    let (mut expr, mut suffix, family): (String, String, &str) = match fam {
        0 => (rand_text(rng, 8, &w), rand_modifier(rng), "valid-random"),
        1 => {
            // regex from an AST (reuses the C04 generator shapes through the shared oracle types)
            let r = gen_regex(rng);
            regex_wellformed = re_wellformed(&r);
            for _ in 0..3 {
                if let Some(m) = re_sample(&r, rng, &['a', 'b', 'x', '0', ' ', 'é', '\t']) {
                    probes.push(edit_text(rng, &m, &['a', 'x', '\t']));
                    probes.push(m);
                }
            }
            (re_render(&r), format!(" ({}{})", rng.pick(&["regex", "re"]), rng.pick(QUANTS)), "regex-ast")
        }
        2 => {
            let t = gen_glob(rng, false);
            (glob_render(&t), format!(" ({}{})", rng.pick(&["glob", "gl"]), rng.pick(QUANTS)), "glob-tokens")
        }
        3 => {
            let t = gen_esc_tokens(rng, false);
            let mut s = esc_render(&t);
            if rng.chance(1, 6) {
                s.push_str(*rng.pick(&["\\", "\\x4", "\\xg1", "\\0a", "\\08", "\\x", "\\0"]));
            }
            (s, format!(" ({}{})", rng.pick(&["escaped", "esc"]), rng.pick(QUANTS)), "escaped-tokens")
        }
        4 => (rand_text(rng, 6, &w), rng.pick(NEAR).to_string(), "near-miss"),
        5 => (rand_text(rng, 8, &w), String::new(), "plain"),
        6 => {
            let b = *rng.pick(OTHER_BLANKS);
            (rand_text(rng, 4, &w), format!("{b}({}{})", rng.pick(KINDS).0, rng.pick(QUANTS)), "other-blank")
        }
        // round-trip family: an equal / escaped / glob (/ no-eol) expectation whose *expression* ends in a blank
        // other than U+0020 and a group that reads like a modifier. However the grammar treats such a tail,
        // parse(canonical(e)) must be equivalent to e.
        8 => {
            let n = rng.below(5);
            let head: String = (0..n).map(|_| *rng.pick(&['a', 'b', '0', '合', '計', 'é', ' ', '-', 'x'])).collect();
            let blank = if rng.chance(1, 6) { *rng.pick(OTHER_BLANKS) } else { *rng.pick(&['\u{3000}', '\u{a0}', '\u{2003}', '\u{202f}', '\t']) };
            let group = match rng.below(8) {
                0 => "()".to_string(),
                1 => format!("({})", rng.pick(&["?", "*", "+"])),
                _ => format!("({}{})", rng.pick(KINDS).0, rng.pick(QUANTS)),
            };
            let q = *rng.pick(QUANTS);
            let suffix = match rng.weighted(&[40, 10, 15, 15, 5]) {
                0 => format!(" ({}{q})", rng.pick(&["equal", "eq"])),
                1 if !q.is_empty() => format!(" ({q})"),
                1 => " (equal)".to_string(),
                2 => format!(" ({}{q})", rng.pick(&["escaped", "esc"])),
                3 => format!(" ({}{q})", rng.pick(&["glob", "gl"])),
                _ => format!(" (no-eol{q})"),
            };
            (format!("{head}{blank}{group}"), suffix, "blank-tail")
        }
        _ => {
            let t = gen_esc_tokens(rng, true);
            let mut s = esc_render(&t);
            if rng.chance(1, 6) {
                s.push_str(*rng.pick(&["\\xff", "\\", "\\x4"]));
            }
            s.push_str(*rng.pick(&[" (escaped)", " (esc)"]));
            (s, format!(" ({}{})", rng.pick(&["glob", "gl"]), rng.pick(QUANTS)), "escaped-glob")
        }
    };
    // 0-3 nested suffix-like groups at the end of the expression
    if fam < 7 && rng.chance(1, 3) {
        for _ in 0..rng.range(1, 3) {
            expr.push_str(*rng.pick(NESTED));
        }
        regex_wellformed = false;
    }
    if fam != 8 && rng.chance(1, 40) {
        suffix.clear();
    }
    C08Case {
        expr,
        suffix,
        regex_wellformed,
        probes,
        family: family.into(),
        regex_malformed: false,
    }
}

impl Monitor for C08 {
    type Case = C08Case;

    fn id(&self) -> &'static str {
        "C08"
    }

    fn plan(&self, tier: Tier) -> Plan {
        let mut p = Plan::new(
            tier.pick(40_000, 1_500_000),
            "case = one line `expr || suffix` (expr: any Unicode without LF incl. CR, TAB, NBSP, RTL marks, emoji, backslashes, 0-3 nested suffix-like groups, or rendered from a regex AST / glob tokens / escape tokens; suffix: every kind alias x quantifier, quantifier only, 32 near misses, none, a blank other than U+0020; plus a round-trip family of equal / escaped / glob / no-eol expectations whose expression ends in <U+3000 | U+00A0 | U+2003 | U+202F | TAB | other White_Space>(<kind><quantifier>)); grammar judged by the harness's own suffix scanner, round trip through both escapers judged on probe contents; non-trivial = the line ends in a parenthesised group or the expression has backslash / control / non-ASCII content; distinct = hash of (scanner class, suffix, content classes of the expression, number of nested groups)",
        );
        p.floor_nontrivial = tier.pick(300, 600);
        p.floor_buckets = vec![
            ("grammar:modifier/equal/q=none".into(), 200),
            ("grammar:modifier/no-eol/q=none".into(), 100),
            ("grammar:modifier/escaped/q=none".into(), 200),
            ("grammar:modifier/glob/q=none".into(), 200),
            ("grammar:modifier/regex/q=none".into(), 200),
            ("grammar:modifier/glob/q=*".into(), 100),
            ("grammar:modifier/regex/q=+".into(), 100),
            ("grammar:modifier/equal/q=?".into(), 100),
            ("near-miss-suffix".into(), 1_000),
            ("grammar:expression-checked".into(), 3_000),
            ("roundtrip:equal".into(), 2_000),
            ("roundtrip:escaped".into(), 1_000),
            ("roundtrip:glob".into(), 1_000),
            ("roundtrip:regex".into(), 1_000),
            ("roundtrip:no-eol".into(), 200),
            ("family:blank-tail".into(), 400),
            ("roundtrip:blank-tail/equal".into(), 150),
        ];
        p.assumptions = vec![
            "a blank other than U+0020 before the final group is outside the statement: those lines are driven for the no-crash clause only".into(),
            "a regex modifier may fail unless the expression was rendered from a well-formed regex AST; escaped (and `(escaped) (glob)`) may fail iff the harness's own escape tokeniser finds the expression malformed (or its decoding is not UTF-8)".into(),
            "expression verbatim is checked byte-exact for equal / no-eol, as decoded bytes for escaped, and for glob / regex only where their normalisation is the identity (no `**`; no backslash, braces, brackets)".into(),
            "round trip compares matches(c) || matches(c + LF) on probe contents (canonical form of unprintable equal text is `(escaped)`, which ignores the final newline)".into(),
        ];
        p
    }

    fn gen(&self, _env: &Env, _k: u64, rng: &mut Rng) -> C08Case {
        gen_case(rng)
    }

    fn check(&self, _env: &Env, case: &C08Case) -> Checked {
        self.judge(case)
    }

    fn shrink(&self, case: &C08Case) -> Vec<C08Case> {
        // violations are minimised against the real code in one go (the same routine that names the cause);
        // `shrink` is called right after `check` on the same case, which has left the minimal form behind
        if let Some(m) = LAST_MIN.with(|l| l.borrow().as_ref().filter(|(c, _)| c == case).map(|(_, m)| m.clone())) {
            return if &m == case { vec![] } else { vec![m] };
        }
        let line = line_of(case);
        if line.contains('\n') {
            return vec![];
        }
        let scan = scan_line(&line);
        let parsed = parse_with(false, &line);
        let cand = match grammar(case, &scan, &parsed) {
            Err((prefix, detail)) => grammar_violation(case, &scan, &prefix, &detail).min,
            Ok(_) => match parsed.ok().and_then(|e| rt_violation(case, &scan, &e)) {
                Some(v) => v.min,
                None => return vec![],
            },
        };
        if &cand == case {
            vec![]
        } else {
            vec![cand]
        }
    }

    fn sample(&self, case: &C08Case) -> Value {
        let line = line_of(case);
        let parsed = parse_with(false, &line);
        json!({
            "line": line,
            "family": case.family,
            "scanner": format!("{:?}", scan_line(&line)),
            "parsed": match &parsed {
                Ok(e) => { let (k, x, o, m) = e.unmake(); json!({"kind": k, "expression": show(&x), "optional": o, "multiline": m}) }
                Err(e) => json!({"error": e}),
            },
            "canonical": parsed.as_ref().ok().map(|e| json!({"ascii": e.to_expression_string(&Escaper::Ascii), "unicode": e.to_expression_string(&Escaper::Unicode)})),
        })
    }
}
