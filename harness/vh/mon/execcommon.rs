//! Shared by C12 and C13: driving scrut's two executors through the library API
//! in private directories, with an explicitly built process environment.
//!
//! scrut's `SubprocessRunner` does not clear the inherited environment
//! (`Exec::env_extend`): a test's shell sees the environment of the calling
//! process plus `testcase.config.environment` plus `SHELL` (and `SCRUT_TEST` in
//! Markdown mode). So that runs are reproducible and so that a reference shell
//! can be given *the same* variables, the worker's own environment is reduced
//! once to `SEALED_ENV`, and `test_environment` builds the per-document variables
//! exactly as `scrut test` does (src/bin/utils/environment.rs).

#![allow(dead_code)]

use std::collections::BTreeMap;
use std::path::Path;
use std::path::PathBuf;
use std::sync::Once;

use scrut::config::DocumentConfig;
use scrut::config::OutputStreamControl;
use scrut::config::TestCaseConfig;
use scrut::executors::bash_runner::BashRunner;
use scrut::executors::bash_script_executor::BashScriptExecutor;
use scrut::executors::context::Context;
use scrut::executors::error::ExecutionError;
use scrut::executors::executor::Executor;
use scrut::executors::stateful_executor::StatefulExecutor;
use scrut::output::Output;
use scrut::testcase::TestCase;

use crate::core::Env;

pub const BASH: &str = "/bin/bash";

/// the complete environment of the worker process after `seal_env`
pub const SEALED_ENV: &[(&str, &str)] = &[("PATH", "/usr/local/bin:/usr/bin:/bin"), ("HOME", "/tmp")];

static SEAL: Once = Once::new();

/// Reduces the environment of this (single threaded, single purpose) worker
/// process to `SEALED_ENV`. Idempotent.
pub fn seal_env() {
    SEAL.call_once(|| {
        let names: Vec<std::ffi::OsString> = std::env::vars_os().map(|(k, _)| k).collect();
        for n in names {
            std::env::remove_var(&n);
        }
        for (k, v) in SEALED_ENV {
            std::env::set_var(k, v);
        }
    });
}

/// A private directory pair below the worker's scratch directory.
///   <root>/w/1/2/3/4/5/6/7/8   work directory (deep, so that `cd ..` stays below root)
///   <root>/tmp                 temp directory (state files, detached stdin files)
pub struct Dirs {
    pub root: PathBuf,
    pub work: PathBuf,
    pub tmp: PathBuf,
}

impl Dirs {
    pub fn new(env: &Env, name: &str) -> std::io::Result<Dirs> {
        let root = env.scratch.join(name);
        let _ = std::fs::remove_dir_all(&root);
        let work = root.join("w/1/2/3/4/5/6/7/8");
        let tmp = root.join("tmp");
        std::fs::create_dir_all(&work)?;
        std::fs::create_dir_all(&tmp)?;
        Ok(Dirs { root, work, tmp })
    }

    pub fn context(&self, file: &str) -> Context {
        Context {
            work_directory: self.work.clone(),
            temp_directory: self.tmp.clone(),
            file: PathBuf::from(file),
            config: DocumentConfig::empty(),
        }
    }

    pub fn remove(&self) {
        let _ = std::fs::remove_dir_all(&self.root);
    }
}

impl Drop for Dirs {
    fn drop(&mut self) {
        self.remove();
    }
}

/// the variables `scrut test` sets for every test of a document
pub fn test_environment(dirs: &Dirs, file: &str, utf8: bool) -> BTreeMap<String, String> {
    let loc = if utf8 { "C.UTF-8" } else { "C" };
    let mut m = BTreeMap::new();
    for (k, v) in [
        ("TESTDIR", dirs.root.to_string_lossy().to_string()),
        ("TESTFILE", file.to_string()),
        ("TMPDIR", dirs.tmp.to_string_lossy().to_string()),
        ("TESTSHELL", BASH.to_string()),
        ("LANG", loc.to_string()),
        ("LANGUAGE", loc.to_string()),
        ("LC_ALL", loc.to_string()),
        ("TZ", "GMT".to_string()),
        ("COLUMNS", "80".to_string()),
        ("CDPATH", String::new()),
        ("GREP_OPTIONS", String::new()),
    ] {
        m.insert(k.to_string(), v);
    }
    m
}

pub fn testcase(expr: &str, config: TestCaseConfig) -> TestCase {
    TestCase {
        title: "t".into(),
        shell_expression: expr.to_string(),
        expectations: vec![],
        exit_code: None,
        line_number: 0,
        config,
    }
}

pub fn run_markdown(tests: &[TestCase], ctx: &Context) -> Result<Vec<Output>, ExecutionError> {
    let refs: Vec<&TestCase> = tests.iter().collect();
    StatefulExecutor::new(BashRunner::stateful_generator(Path::new(BASH))).execute_all(&refs, ctx)
}

pub fn run_cram(tests: &[TestCase], ctx: &Context) -> Result<Vec<Output>, ExecutionError> {
    let refs: Vec<&TestCase> = tests.iter().collect();
    BashScriptExecutor::new(Path::new(BASH)).execute_all(&refs, ctx)
}

pub fn stream_name(s: &Option<OutputStreamControl>) -> &'static str {
    match s {
        None => "none",
        Some(OutputStreamControl::Stdout) => "stdout",
        Some(OutputStreamControl::Stderr) => "stderr",
        Some(OutputStreamControl::Combined) => "combined",
    }
}

/// bash `$'...'` quoting of an arbitrary (UTF-8) string; plain words stay bare
pub fn sh_quote(s: &str) -> String {
    if !s.is_empty() && s.bytes().all(|b| b.is_ascii_alphanumeric() || b == b'_' || b == b'/' || b == b'.') {
        return s.to_string();
    }
    let mut o = String::from("$'");
    for c in s.chars() {
        match c {
            '\\' => o.push_str("\\\\"),
            '\'' => o.push_str("\\'"),
            '\n' => o.push_str("\\n"),
            '\t' => o.push_str("\\t"),
            '\r' => o.push_str("\\r"),
            c if (c as u32) < 0x20 || c as u32 == 0x7f => o.push_str(&format!("\\x{:02x}", c as u32)),
            c => o.push(c),
        }
    }
    o.push('\'');
    o
}

/// POSIX single-quote quoting (the text reaches the shell byte for byte)
pub fn sq_quote(s: &str) -> String {
    let mut o = String::from("'");
    for c in s.chars() {
        if c == '\'' {
            o.push_str("'\\''");
        } else {
            o.push(c);
        }
    }
    o.push('\'');
    o
}

/// every occurrence of `from` replaced by `to`
pub fn replace_bytes(data: &[u8], from: &[u8], to: &[u8]) -> Vec<u8> {
    if from.is_empty() {
        return data.to_vec();
    }
    let mut out = Vec::with_capacity(data.len());
    let mut i = 0;
    while i < data.len() {
        if data[i..].starts_with(from) {
            out.extend_from_slice(to);
            i += from.len();
        } else {
            out.push(data[i]);
            i += 1;
        }
    }
    out
}

pub fn find_bytes(hay: &[u8], needle: &[u8]) -> Option<usize> {
    if needle.is_empty() || hay.len() < needle.len() {
        return None;
    }
    hay.windows(needle.len()).position(|w| w == needle)
}

pub fn describe_error(e: &ExecutionError) -> String {
    let s = e.to_string();
    s.chars().take(300).collect()
}
