//! C15 — a test case exiting with *its* skip code skips the whole document, and nothing else does.
//!
//! Observed at the boundary: result kinds of `scrut test -r json`, exit status, (tolerantly) the
//! summary line. The marker log is only used to know that the skipping test case really ran.

use std::time::Duration;

use serde::Deserialize;
use serde::Serialize;
use serde_json::json;

use super::c20::summary_findings;
use super::seqcommon::*;
use crate::core::*;
use crate::e2e::Sandbox;
use crate::oracle::seqmodel::*;
use crate::rng::Rng;

pub struct C15;

#[derive(Clone, Debug, Serialize, Deserialize)]
pub struct Case {
    pub run: RunSpec,
    pub summary: bool,
}

const CODES: [i32; 6] = [7, 42, 79, 81, 123, 1];
/// skip codes no command can exit with: "skipping switched off"
const SENTINELS: [i32; 7] = [-1, -1, -1, -100, -255, 256, -80];

/// a Markdown document whose skip code is a sentinel: nothing in it can skip, whatever happens
/// (time-outs by per-test and by document limit, detached test cases, exit codes 80 / 255)
fn gen_sentinel_doc(rng: &mut Rng, d: usize) -> DocSpec {
    let code = *rng.pick(&SENTINELS);
    let inline = rng.chance(1, 3);
    let n = 2 + rng.below(4);
    let doc_limit = rng.chance(1, 3);
    let slow_at = if rng.chance(2, 3) { Some(rng.below(n)) } else { None };
    let mut tests = vec![];
    for j in 0..n {
        let mut t = TestSpec::pass(&format!("d{d}t{j}"));
        if slow_at == Some(j) {
            t.sleep_ms = 8000;
            if !doc_limit {
                t.timeout_ms = Some(300);
            }
        } else {
            match rng.weighted(&[4, 1, 2, 2]) {
                0 => {}
                1 => t.output_ok = false,
                2 => {
                    t.exit = *rng.pick(&[DEFAULT_SKIP_CODE, 255, 1]);
                    t.expect_code = if rng.bool() { Some(t.exit) } else { None };
                    t.hard_exit = rng.bool();
                }
                _ => t.detached = true,
            }
        }
        if inline {
            t.skip_code = Some(code);
        }
        tests.push(t);
    }
    let mut doc = DocSpec::new(&format!("d{d}.md"), Format::Markdown, tests);
    if !inline || rng.bool() {
        doc.skip_code = Some(code);
    }
    if doc_limit && slow_at.is_some() {
        doc.total_timeout_ms = Some(1000);
    }
    doc
}

/// a Markdown document in which a test case kills its own shell (first or middle position,
/// ordinary test cases after it); no skip code, or one that nobody exits with
fn gen_killed_doc(rng: &mut Rng, d: usize) -> DocSpec {
    let n = 2 + rng.below(4);
    let at = if n > 2 && rng.bool() { 1 + rng.below(n - 2) } else { 0 };
    let code: Option<i32> = match rng.below(3) {
        0 => None,
        1 => Some(*rng.pick(&CODES)),
        _ => Some(*rng.pick(&SENTINELS)),
    };
    let inline = code.is_some() && rng.chance(1, 3);
    let effective = code.unwrap_or(DEFAULT_SKIP_CODE);
    let mut tests = vec![];
    for j in 0..n {
        let mut t = TestSpec::pass(&format!("d{d}t{j}"));
        if j == at {
            t.kill_self = *rng.pick(&[9, 9, 15, 11]);
            t.output_ok = rng.bool();
            if rng.chance(1, 3) {
                // even a test case that "expects" the status a shell would report for the signal
                t.expect_code = Some(128 + t.kill_self as i32);
            }
        } else {
            match rng.weighted(&[4, 2, 3]) {
                0 => {}
                1 => t.output_ok = false,
                _ => {
                    let pool: Vec<i32> = [1, 3, 137, 255, DEFAULT_SKIP_CODE].iter().copied().filter(|c| *c != effective).collect();
                    t.exit = *rng.pick(&pool);
                    t.expect_code = if rng.bool() { Some(t.exit) } else { None };
                    t.hard_exit = rng.bool();
                }
            }
        }
        if inline {
            t.skip_code = code;
        }
        tests.push(t);
    }
    let mut doc = DocSpec::new(&format!("d{d}.md"), Format::Markdown, tests);
    if !inline {
        doc.skip_code = code;
    }
    doc
}

/// one script-mode document whose compiled script is far larger than a pipe buffer and whose
/// first test case leaves the shell with the skip code (or returns it from a sub-shell)
fn gen_large_run(variant: u64) -> RunSpec {
    let (fmt, cram_compat, code, hard) = match variant % 3 {
        0 => (Format::Cram, false, DEFAULT_SKIP_CODE, true),
        1 => (Format::Markdown, true, 42, true),
        _ => (Format::Cram, false, DEFAULT_SKIP_CODE, false),
    };
    let mut t = TestSpec::pass("d0t0");
    t.exit = code;
    t.hard_exit = hard;
    let mut doc = DocSpec::new(if fmt == Format::Cram { "d0.t" } else { "d0.md" }, fmt, vec![t]);
    if code != DEFAULT_SKIP_CODE {
        doc.skip_code = Some(code);
    }
    doc.filler = 700;
    doc.filler_pad = 120;
    RunSpec {
        args: vec![doc.name.clone()],
        docs: vec![doc],
        aux: vec![],
        cli_prepend: vec![],
        cli_append: vec![],
        cli_timeout_s: None,
        cram_compat,
    }
}

fn gen_doc(rng: &mut Rng, d: usize, fmt: Format) -> DocSpec {
    let md = fmt == Format::Markdown;
    let n = 1 + rng.weighted(&[1, 3, 4, 3]);
    // the codes in play in this document
    let doc_code: Option<i32> = if md && rng.chance(1, 2) { Some(*rng.pick(&CODES)) } else { None };
    let other_code: i32 = *rng.pick(&CODES);
    let effective = doc_code.unwrap_or(DEFAULT_SKIP_CODE);
    let mut pool: Vec<i32> = vec![DEFAULT_SKIP_CODE, effective, other_code, 0, 3];
    pool.dedup();
    // 0 no skipper intended, 1 skipper by document/default code, 2 skipper by its own inline code
    let plan = rng.weighted(&[5, 4, if md { 2 } else { 0 }]);
    let skipper_at = rng.below(n);
    let mut tests = vec![];
    for j in 0..n {
        let mut t = TestSpec::pass(&format!("d{d}t{j}"));
        if plan > 0 && j == skipper_at {
            if plan == 2 {
                let c = *rng.pick(&CODES);
                t.skip_code = Some(c);
                t.exit = c;
            } else {
                t.exit = effective;
            }
            t.hard_exit = rng.bool();
            match rng.below(3) {
                0 => t.expect_code = Some(t.exit), // the test case *expects* that code
                1 => t.expect_code = Some(0),
                _ => {}
            }
            t.output_ok = rng.chance(3, 4);
        } else {
            match rng.weighted(&[4, 2, 3, 2, if md { 1 } else { 0 }, if md { 1 } else { 0 }]) {
                0 => {}
                1 => t.output_ok = false,
                2 => {
                    // exits with a code that is a skip code for somebody else (the default while
                    // the document has its own, a neighbour's inline code) or, less often, with
                    // any code of the pool: the model decides whether that is a skip
                    let mut foreign: Vec<i32> = vec![];
                    if effective != DEFAULT_SKIP_CODE {
                        foreign.push(DEFAULT_SKIP_CODE);
                    }
                    if other_code != effective {
                        foreign.push(other_code);
                    }
                    t.exit = if !foreign.is_empty() && rng.chance(3, 4) { *rng.pick(&foreign) } else { *rng.pick(&pool) };
                    t.expect_code = if rng.bool() { Some(t.exit) } else { None };
                    t.hard_exit = md && rng.bool();
                }
                3 => {
                    // expects [80] / the document code without exiting with it
                    t.expect_code = Some(if rng.bool() { DEFAULT_SKIP_CODE } else { effective });
                }
                4 => {
                    // an inline code that is not used by this test case
                    t.skip_code = Some(other_code);
                    t.exit = if rng.bool() { effective } else { 0 };
                    t.expect_code = Some(t.exit);
                    t.hard_exit = rng.bool();
                }
                _ => {
                    if rng.chance(1, 3) {
                        t.timeout_ms = Some(300);
                        t.sleep_ms = 8000;
                    } else {
                        t.exit = *rng.pick(&pool);
                    }
                }
            }
        }
        if !md {
            // Cram: no inline configuration; a hard `exit` with anything but 80 aborts the script
            t.skip_code = None;
            t.timeout_ms = None;
            t.sleep_ms = 0;
            if t.hard_exit && t.exit != DEFAULT_SKIP_CODE {
                t.hard_exit = false;
            }
        }
        tests.push(t);
    }
    if !md {
        skip_then_hard_exit(rng, &mut tests, DEFAULT_SKIP_CODE);
    }
    let mut doc = DocSpec::new(&format!("d{d}.{}", if md { "md" } else { "t" }), fmt, tests);
    doc.skip_code = doc_code;
    doc
}

/// script mode: a test case returned the skip code from a sub-shell (the script runs on) and a
/// LATER test case ends the shared script with another code. The document is skipped all the
/// same ("if any test case of a document exits with its skip code ...")
fn skip_then_hard_exit(rng: &mut Rng, tests: &mut [TestSpec], code: i32) {
    let Some(i) = tests.iter().position(|t| t.exit == code) else {
        return;
    };
    if tests[i].hard_exit || i + 1 >= tests.len() || !rng.chance(2, 5) {
        return;
    }
    let j = i + 1 + rng.below(tests.len() - i - 1);
    let exit = *rng.pick(&[3, 0, 1, 2]);
    if exit == code {
        return;
    }
    let mut t = TestSpec::pass(&tests[j].id.clone());
    t.skip_code = tests[j].skip_code;
    t.exit = exit;
    t.hard_exit = true;
    t.expect_code = if rng.bool() { Some(exit) } else { None };
    tests[j] = t;
}

/// a Markdown document for `--cram-compat`: all test cases run in ONE script, so they must share
/// ONE skip code (document defaults, the same inline value on every test case, or both), there
/// are no per-test timeouts, and a hard `exit` is only used with the skip code
fn scriptify(rng: &mut Rng, doc: &mut DocSpec) {
    let old_codes: Vec<i32> = doc.tests.iter().map(|t| t.skip_code.or(doc.skip_code).unwrap_or(DEFAULT_SKIP_CODE)).collect();
    let code: i32 = if rng.chance(1, 5) { DEFAULT_SKIP_CODE } else { doc.skip_code.unwrap_or(*rng.pick(&CODES)) };
    let mode = rng.below(3);
    // 0: document defaults only, 1: the same inline value everywhere, 2: both
    doc.skip_code = if code != DEFAULT_SKIP_CODE && mode != 1 { Some(code) } else { None };
    let inline = if code != DEFAULT_SKIP_CODE && mode != 0 { Some(code) } else { None };
    for (t, old) in doc.tests.iter_mut().zip(old_codes) {
        t.skip_code = inline;
        t.timeout_ms = None;
        t.sleep_ms = 0;
        if t.exit == old && old != code {
            // was meant to skip: exits with the script's code now
            if t.expect_code == Some(t.exit) {
                t.expect_code = Some(code);
            }
            t.exit = code;
        }
        if t.hard_exit && t.exit != code {
            t.hard_exit = false;
        }
    }
    skip_then_hard_exit(rng, &mut doc.tests, code);
}

fn gen_run(rng: &mut Rng) -> RunSpec {
    let n_docs = 1 + rng.weighted(&[4, 3, 2]);
    let cram_compat = rng.chance(1, 4);
    let docs: Vec<DocSpec> = (0..n_docs)
        .map(|d| {
            let fmt = if rng.chance(2, 3) { Format::Markdown } else { Format::Cram };
            let special = if !cram_compat && fmt == Format::Markdown { rng.below(12) } else { 99 };
            let mut doc = match special {
                0 | 1 => gen_sentinel_doc(rng, d),
                2 => gen_killed_doc(rng, d),
                _ => gen_doc(rng, d, fmt),
            };
            if cram_compat && fmt == Format::Markdown {
                scriptify(rng, &mut doc);
            }
            doc
        })
        .collect();
    let mut docs = docs;
    let mut aux: Vec<DocSpec> = vec![];
    let mut cli_prepend = vec![];
    let mut cli_append = vec![];
    // a quarter of the plain runs schedule included test cases around the own ones: from the
    // front-matter (Markdown) or with -P / -A (all documents of the run share the format then).
    // An included test case may be the one that skips (default code 80; the model rejects runs in
    // which "its" skip code would be ambiguous)
    if !cram_compat && rng.chance(1, 4) {
        let mk_aux = |rng: &mut Rng, tag: &str, fmt: Format, aux: &mut Vec<DocSpec>| -> String {
            let k = aux.len();
            let name = format!("aux/{tag}{k}.{}", if fmt == Format::Markdown { "md" } else { "t" });
            let n = 1 + rng.below(2);
            let tests = (0..n)
                .map(|j| {
                    let mut t = TestSpec::pass(&format!("{tag}{k}t{j}"));
                    match rng.weighted(&[4, 2, 2, 2]) {
                        0 => {}
                        1 => t.output_ok = false,
                        2 => {
                            t.exit = *rng.pick(&[2, 3]);
                            t.expect_code = if rng.bool() { Some(t.exit) } else { None };
                        }
                        _ => {
                            t.exit = DEFAULT_SKIP_CODE;
                            t.hard_exit = rng.bool();
                            if rng.bool() {
                                t.expect_code = Some(DEFAULT_SKIP_CODE);
                            }
                        }
                    }
                    t
                })
                .collect();
            aux.push(DocSpec::new(&name, fmt, tests));
            name
        };
        let uniform = docs.iter().all(|d| d.format == docs[0].format);
        if uniform && rng.chance(1, 2) {
            let fmt = docs[0].format;
            if rng.bool() {
                cli_prepend.push(mk_aux(rng, "P", fmt, &mut aux));
            }
            if rng.bool() || cli_prepend.is_empty() {
                cli_append.push(mk_aux(rng, "A", fmt, &mut aux));
            }
        }
        for d in docs.iter_mut().filter(|d| d.format == Format::Markdown) {
            if rng.chance(1, 2) {
                let n = mk_aux(rng, "p", Format::Markdown, &mut aux);
                d.prepend.push(n);
            }
            if rng.chance(1, 2) {
                let n = mk_aux(rng, "a", Format::Markdown, &mut aux);
                d.append.push(n);
            }
        }
    }
    RunSpec {
        args: docs.iter().map(|d| d.name.clone()).collect(),
        docs,
        aux,
        cli_prepend,
        cli_append,
        cli_timeout_s: None,
        cram_compat,
    }
}

/// the test case with that id, wherever it is written (own or included document)
fn spec_of(run: &RunSpec, id: &str) -> TestSpec {
    run.docs
        .iter()
        .chain(run.aux.iter())
        .flat_map(|d| d.tests.iter())
        .find(|t| t.id == id)
        .cloned()
        .unwrap_or_else(|| TestSpec::pass(id))
}

/// the report, abbreviated when it is long
fn brief(results: &[(String, String, String)]) -> String {
    if results.len() <= 12 {
        return format!("{results:?}");
    }
    let n = |k: Class| results.iter().filter(|r| Class::of_kind(&r.2) == k).count();
    format!("{:?} ... ({} results: {} pass, {} fail, {} timeout, {} skipped)", &results[..4], results.len(), n(Class::Pass), n(Class::Fail), n(Class::Timeout), n(Class::Skipped))
}

fn skip_findings(run: &RunSpec, docs: &[DocModel], results: &[(String, String, String)]) -> Vec<Finding> {
    let mut out = vec![];
    let all_codes: Vec<i32> = run
        .docs
        .iter()
        .flat_map(|s| s.tests.iter().filter_map(|t| t.skip_code).chain(s.skip_code))
        .chain(std::iter::once(DEFAULT_SKIP_CODE))
        .collect();
    for (d, spec) in docs.iter().zip(run.docs.iter()) {
        let fmt = fmt_of(d);
        let class_of = |id: &str| -> Option<Class> { results.iter().find(|r| r.0 == d.name && r.1 == id).map(|r| Class::of_kind(&r.2)) };
        match d.end {
            DocEnd::Skipped { by } => {
                let offenders: Vec<usize> = (0..d.seq.len()).filter(|i| class_of(&d.seq[*i].id).is_some_and(|c| c != Class::Skipped)).collect();
                if offenders.is_empty() {
                    continue;
                }
                let t = &spec_of(run, &d.seq[by].id);
                let code = if d.seq[by].role != Role::Own {
                    "default-of-included-test-case"
                } else if t.skip_code.is_some() {
                    "inline"
                } else if spec.skip_code.is_some() {
                    "document"
                } else {
                    "default"
                };
                let pos = if offenders.contains(&by) {
                    "skipper-not-skipped"
                } else if offenders.iter().any(|i| *i < by) {
                    "result-before-skipper-kept"
                } else {
                    "result-after-skipper-not-skipped"
                };
                out.push(Finding {
                    clause: "skip-not-total".into(),
                    cause: format!("{fmt}/code={code}/{pos}{}", if spec.filler > 0 { "/large-script" } else { "" }),
                    detail: format!(
                        "test case {} of {} exits with its skip code {} but the document is not reported as skipped throughout; model: {}; report: {}",
                        t.id,
                        d.name,
                        t.exit,
                        describe_doc(d),
                        brief(results)
                    ),
                });
            }
            DocEnd::Completed | DocEnd::TimedOut { .. } | DocEnd::Killed { .. } => {
                let stop = match d.end {
                    // the timed-out test case itself does not "follow a timed-out one"
                    DocEnd::TimedOut { at, attributed: true, or_next: false } => at + 1,
                    DocEnd::TimedOut { at, .. } => at,
                    _ => d.seq.len(),
                };
                let effective: Vec<i32> = spec.tests.iter().map(|t| t.skip_code.or(spec.skip_code).unwrap_or(DEFAULT_SKIP_CODE)).collect();
                let sentinel = !effective.is_empty() && effective.iter().all(|c| !(0..=255).contains(c));
                let wrongly: Vec<usize> = (0..stop.min(d.seq.len())).filter(|i| class_of(&d.seq[*i].id) == Some(Class::Skipped)).collect();
                if wrongly.is_empty() || (d.script && matches!(d.end, DocEnd::TimedOut { .. })) {
                    continue;
                }
                let foreign = spec.tests.iter().any(|t| t.exit != 0 && all_codes.contains(&t.exit));
                out.push(Finding {
                    clause: "skipped-without-skip-code".into(),
                    cause: if let DocEnd::Killed { at } = d.end {
                        // a shell killed by a signal is neither a skip code nor a timeout
                        format!("{fmt}/shell-killed-by-signal/{}", if wrongly.contains(&at) { "the-killed-test-case" } else if wrongly.iter().any(|i| *i > at) { "after-the-killed-test-case" } else { "before-the-killed-test-case" })
                    } else if sentinel {
                        // nothing can exit with the configured code at all
                        format!("{fmt}/unreachable-skip-code/{}", if matches!(d.end, DocEnd::TimedOut { .. }) { "document-timed-out" } else if spec.tests.iter().any(|t| t.detached) { "detached-test-case" } else { "plain" })
                    } else {
                        format!("{fmt}/{}", if foreign { "a-test-exits-with-somebody-elses-skip-code" } else { "no-skip-code-in-sight" })
                    },
                    detail: format!("no test case of {} exits with its own skip code, yet test case(s) {:?} are reported as skipped; model: {}; report: {}", d.name, wrongly.iter().map(|i| &d.seq[*i].id).collect::<Vec<_>>(), describe_doc(d), brief(results)),
                });
            }
            DocEnd::Aborted(_) => {}
        }
    }
    out
}

impl Monitor for C15 {
    type Case = Case;

    fn id(&self) -> &'static str {
        "C15"
    }

    fn plan(&self, tier: Tier) -> Plan {
        let mut p = Plan::new(
            tier.pick(400, 6000),
            "runs of 1-3 documents (Markdown/Cram), a quarter of the plain runs with included documents (front-matter prepend/append, -P/-A) whose test cases are scheduled around the own ones and may themselves be the skipper; skip code default 80, per document (front-matter defaults) or per test case; skipping test case first/middle/last, by `exit N` or `(exit N)`; in script mode also `(exit <skip code>)` followed later by a hard `exit` with another code; documents in which a test case kills its own shell (`kill -9/-15/-11 $$`, first or middle position, ordinary test cases after it): nothing may be reported skipped; documents with an unreachable skip code (-1, -100, -255, 256, -80) in which test cases time out (per-test and document limit), detach, exit 80/255; two script-mode documents per quick run whose script is far larger than a pipe buffer and whose first test case exits with the skip code; a quarter of the runs under --cram-compat (Markdown documents executed as one script with one skip code); neighbours that pass, fail, expect [80] / the skip code, exit with somebody else's code, time out; non-trivial = a document the model says is skipped, or a document where a test case exits with a code that is a skip code elsewhere (80, the document's, a neighbour's) without skipping; distinct = hash of (format, end, position, classes per test case) over the run",
        );
        p.chunk = tier.pick(2, 4);
        p.case_timeout_s = 120;
        p.floor_nontrivial = tier.pick(40, 400);
        p.floor_buckets = vec![
            ("doc:markdown:skipped".into(), tier.pick(30, 400)),
            ("doc:markdown-cram-compat:skipped".into(), tier.pick(11, 150)),
            ("cram-compat:skip-by-custom-code".into(), tier.pick(9, 130)),
            ("doc:cram:skipped".into(), tier.pick(19, 220)),
            ("doc:markdown:completed".into(), tier.pick(26, 330)),
            ("near-miss:foreign-code-no-skip".into(), tier.pick(11, 130)),
            ("skip:custom-code".into(), tier.pick(30, 360)),
            ("skipper-ran".into(), tier.pick(70, 800)),
            ("script:skip-then-hard-exit".into(), tier.pick(3, 40)),
            ("large-script:skipper-leaves-the-shell".into(), tier.pick(1, 10)),
            ("shell-killed:tests-after-it".into(), tier.pick(3, 45)),
            ("includes:skipped-document".into(), tier.pick(5, 80)),
            ("includes:skipper-is-included".into(), tier.pick(1, 15)),
            ("unreachable-skip-code:timed-out".into(), tier.pick(3, 50)),
            ("kind:skipped".into(), tier.pick(200, 2400)),
        ];
        p.assumptions = vec![
            "--cram-compat runs: Markdown documents with one skip code per document (front-matter defaults and/or the same inline value on every test case), no per-test timeouts, hard `exit` only with the skip code; documents with differing per-test configuration are rejected by scrut and not generated".into(),
            "a quarter of the plain runs schedule included test cases (front-matter prepend/append, -P/-A) around the own ones; the skipper may be an included test case (its code is the default 80). Not generated (the model rejects them): a custom document code together with an included test case that exits with 80 or with that code, inline codes inside included documents - which code is 'theirs' is not decided by the statement; includes under --cram-compat".into(),
            "in Cram documents the only way out of the script is `exit 80`; other `exit`s abort the run (C20)".into(),
        ];
        p
    }

    fn gen(&self, _env: &Env, k: u64, rng: &mut Rng) -> Case {
        if k % 200 == 7 {
            // the size family: two documents per quick run
            return Case {
                run: gen_large_run(k / 200),
                summary: false,
            };
        }
        for _ in 0..20 {
            let run = gen_run(rng);
            if let Ok(m) = model_run(&run) {
                if m.aborted.is_none() {
                    return Case {
                        run,
                        summary: rng.chance(1, 4),
                    };
                }
            }
        }
        let mut t = TestSpec::pass("d0t0");
        t.exit = DEFAULT_SKIP_CODE;
        Case {
            run: RunSpec {
                docs: vec![DocSpec::new("d0.md", Format::Markdown, vec![t])],
                aux: vec![],
                args: vec!["d0.md".into()],
                cli_prepend: vec![],
                cli_append: vec![],
                cli_timeout_s: None,
            cram_compat: false,
            },
            summary: false,
        }
    }

    fn check(&self, env: &Env, case: &Case) -> Checked {
        let model = match model_run(&case.run) {
            Ok(m) => m,
            Err(e) => return Checked::out_of_scope(e),
        };
        if model.aborted.is_some() {
            return Checked::out_of_scope("run that scrut cannot do (C20)");
        }
        let sb = Sandbox::new(env, "c15");
        let obs = drive(env, &sb, &case.run, Duration::from_secs(60), Duration::ZERO, &|_m: &[String]| false);
        let j = judge(
            &case.run,
            &model,
            &obs,
            Clauses {
                markers: false,
                results: true,
                exit: true,
            },
        );
        if let Some(r) = j.inconclusive {
            return Checked::inconclusive(r);
        }
        let mut buckets = j.buckets.clone();
        let mut findings = j.findings;
        // a skip the model predicts rests on the skipping test case having run
        let mut nontrivial = false;
        for (d, spec) in model.docs.iter().zip(case.run.docs.iter()) {
            if let DocEnd::Killed { at } = d.end {
                nontrivial = true;
                buckets.push("shell-killed:tests-after-it".into());
                buckets.push(format!("shell-killed:signal={}", spec_of(&case.run, &d.seq[at].id).kill_self));
                buckets.push(format!("shell-killed:position={}", if at == 0 { "first" } else { "middle" }));
            }
            if spec.filler > 0 {
                nontrivial = true;
                buckets.push(format!("large-script:{}", if spec.tests.iter().any(|t| t.hard_exit) { "skipper-leaves-the-shell" } else { "skipper-in-sub-shell" }));
            }
            if spec.skip_code.is_some_and(|c| !(0..=255).contains(&c)) || spec.tests.iter().any(|t| t.skip_code.is_some_and(|c| !(0..=255).contains(&c))) {
                nontrivial = true;
                buckets.push("unreachable-skip-code:document".into());
                if matches!(d.end, DocEnd::TimedOut { .. }) {
                    buckets.push("unreachable-skip-code:timed-out".into());
                }
                if spec.tests.iter().any(|t| t.detached) {
                    buckets.push("unreachable-skip-code:with-detached".into());
                }
            }
            if let DocEnd::Skipped { by } = d.end {
                nontrivial = true;
                if obs.markers.contains(&d.seq[by].id) {
                    buckets.push("skipper-ran".into());
                } else if findings.is_empty() {
                    return Checked::inconclusive(format!("the skipping test case {} left no marker", d.seq[by].id));
                }
                let t = &spec_of(&case.run, &d.seq[by].id);
                if d.seq.iter().any(|x| x.role != Role::Own) {
                    buckets.push("includes:skipped-document".into());
                    if d.seq[by].role != Role::Own {
                        buckets.push("includes:skipper-is-included".into());
                    }
                }
                if d.script && d.format == Format::Markdown {
                    buckets.push(
                        if t.skip_code.is_some() {
                            "cram-compat:skip-by-inline-code"
                        } else if spec.skip_code.is_some() {
                            "cram-compat:skip-by-document-code"
                        } else {
                            "cram-compat:skip-by-default-code"
                        }
                        .into(),
                    );
                }
                if d.script && d.format == Format::Markdown && (t.skip_code.is_some() || spec.skip_code.is_some()) {
                    buckets.push("cram-compat:skip-by-custom-code".into());
                }
                if t.skip_code.is_some() || spec.skip_code.is_some() {
                    buckets.push("skip:custom-code".into());
                } else {
                    buckets.push("skip:default-code".into());
                }
                if t.expect_code == Some(t.exit) {
                    buckets.push("skip:code-was-expected".into());
                }
                let own_at = spec.tests.iter().position(|x| x.id == t.id);
                if d.script && own_at.is_some_and(|o| spec.tests.iter().skip(o + 1).any(|x| x.hard_exit && x.exit != t.exit)) && !t.hard_exit {
                    buckets.push("script:skip-then-hard-exit".into());
                }
                buckets.push(format!("skip:position={}", if by == 0 { "first" } else if by + 1 == d.seq.len() { "last" } else { "middle" }));
            } else {
                // somebody exits with a code that is a skip code somewhere, without skipping
                let codes: Vec<i32> = case
                    .run
                    .docs
                    .iter()
                    .flat_map(|s| s.tests.iter().filter_map(|t| t.skip_code).chain(s.skip_code))
                    .chain(std::iter::once(DEFAULT_SKIP_CODE))
                    .collect();
                let reached = match d.end {
                    DocEnd::TimedOut { at, .. } => at,
                    _ => spec.tests.len(),
                };
                if d.script
                    && d.format == Format::Markdown
                    && (spec.skip_code.is_some() || spec.tests.iter().any(|t| t.skip_code.is_some()))
                    && spec.tests.iter().any(|t| t.exit == DEFAULT_SKIP_CODE)
                {
                    buckets.push("cram-compat:near-miss:exits-80-under-custom-code".into());
                }
                if spec.tests.iter().take(reached).any(|t| t.exit != 0 && codes.contains(&t.exit)) {
                    nontrivial = true;
                    buckets.push("near-miss:foreign-code-no-skip".into());
                }
            }
        }
        let timing = model.docs.iter().any(|d| matches!(d.end, DocEnd::TimedOut { .. }));
        if findings.is_empty() && case.summary && !timing {
            if let Some(rs) = &obs.results {
                let (f, b) = summary_findings(env, &case.run, rs, "c15s");
                findings.extend(f);
                buckets.extend(b);
            }
        }
        // the property's own clauses first: "every test case of that document is skipped" and
        // "no test case is reported as skipped" otherwise
        let own = skip_findings(&case.run, &j.docs, obs.results.as_deref().unwrap_or(&[]));
        let mut c = match own.first().or(findings.first()) {
            Some(f) => Checked::violated(f.sig("C15"), f.detail.chars().take(1500).collect::<String>()),
            None => Checked::held(),
        };
        c = c.shape(nontrivial, shape_of(&j.docs));
        for b in buckets {
            c = c.bucket(b);
        }
        c
    }

    fn shrink(&self, case: &Case) -> Vec<Case> {
        shrink_run(&case.run)
            .into_iter()
            .map(|run| Case {
                run,
                summary: case.summary,
            })
            .collect()
    }

    fn sample(&self, case: &Case) -> serde_json::Value {
        let mut v = sample_run(&case.run);
        v["summary_run"] = json!(case.summary);
        if let Ok(m) = model_run(&case.run) {
            v["model"] = json!(format!("{} -> exit {}", describe(&m.docs), m.exit));
        }
        v
    }
}
