//! C05 — a test passes only if it completed with the expected exit code and output;
//! no exit code => never "succeeded".
//!
//! Two parts behind one monitor (the case index decides which one is generated):
//!  * `validate`: in-process `TestCase::validate(&Output)` against the membership oracle
//!    (`oracle::lang`) with the workload of `diffcommon`; statuses without an exit code are
//!    driven through `validate` for the no-panic clause only.
//!  * `e2e`: the real `scrut test -r json` on Markdown (process per test) and Cram (one script)
//!    documents whose commands exit N, print prepared payloads to either stream or kill their
//!    shell with a signal. Ground truth: by construction (exit code, payload, own expectation
//!    matcher + DP) and the marker log (which commands ran at all).

use std::collections::BTreeMap;
use std::time::Duration;

use scrut::config::OutputStreamControl;
use scrut::config::TestCaseConfig;
use scrut::output::ExitStatus;
use scrut::output::Output;
use scrut::testcase::TestCase;
use scrut::testcase::TestCaseError;
use serde::Deserialize;
use serde::Serialize;
use serde_json::json;
use serde_json::Value;

use super::diffcommon as dc;
use crate::core::*;
use crate::e2e::result_kind;
use crate::e2e::sh_quote;
use crate::e2e::Sandbox;
use crate::e2e::ScrutCmd;
use crate::oracle::lang::det_member;
use crate::oracle::lang::member;
use crate::oracle::lang::split_lines;
use crate::oracle::lang::Det;
use crate::oracle::lang::Quant;
use crate::rng::hash_bytes;
use crate::rng::show;
use crate::rng::Rng;

pub struct C05;

/// one case in `E2E_STRIDE` is an end-to-end document
const E2E_STRIDE_QUICK: u64 = 250;
const E2E_STRIDE_THOROUGH: u64 = 2000;

#[derive(Clone, Debug, Serialize, Deserialize)]
#[serde(tag = "part", rename_all = "snake_case")]
pub enum C05Case {
    Validate(ValCase),
    E2e(DocCase),
}

// ---------------------------------------------------------------------------------------------
// in-process part
// ---------------------------------------------------------------------------------------------

#[derive(Clone, Debug, Serialize, Deserialize)]
pub struct ValCase {
    /// expectation lines as written in a document
    pub exps: Vec<String>,
    #[serde(with = "crate::rng::hexbytes")]
    pub stdout: Vec<u8>,
    #[serde(with = "crate::rng::hexbytes")]
    pub stderr: Vec<u8>,
    /// the `[N]` of the test case
    pub expected: Option<i32>,
    /// "code:N" | "unknown" | "timeout" | "skipped" | "detached"
    pub status: String,
    /// output_stream: "none" | "stdout" | "stderr" | "combined"
    pub stream: String,
    #[serde(default)]
    pub family: String,
}

fn stream_cfg(s: &str) -> Option<OutputStreamControl> {
    match s {
        "stdout" => Some(OutputStreamControl::Stdout),
        "stderr" => Some(OutputStreamControl::Stderr),
        "combined" => Some(OutputStreamControl::Combined),
        _ => None,
    }
}

fn parse_status(s: &str) -> ExitStatus {
    if let Some(n) = s.strip_prefix("code:") {
        return ExitStatus::Code(n.parse().unwrap_or(0));
    }
    match s {
        "timeout" => ExitStatus::Timeout(Duration::from_millis(100)),
        "skipped" => ExitStatus::Skipped,
        "detached" => ExitStatus::Detached,
        _ => ExitStatus::Unknown,
    }
}

fn gen_validate(rng: &mut Rng, thorough: bool) -> ValCase {
    let a = dc::gen_case(rng, true, thorough);
    let x = a.out.clone();
    let lines: Vec<Vec<u8>> = split_lines(&x).iter().map(|l| l.to_vec()).collect();
    // the second stream: related to the first one so that a swapped stream selection changes the verdict
    let y: Vec<u8> = match rng.below(6) {
        0 => vec![],
        1 => x.clone(),
        2 if !lines.is_empty() => {
            let mut l = lines.clone();
            l.remove(rng.below(lines.len()));
            l.concat()
        }
        3 if !lines.is_empty() => {
            let mut l = lines.clone();
            let i = rng.below(lines.len());
            let d = l[i].clone();
            l.insert(i, d);
            l.concat()
        }
        4 => dc::gen_case(rng, true, false).out,
        _ => {
            let mut v = x.clone();
            if !v.is_empty() && v.last() != Some(&b'\n') {
                v.push(b'\n');
            }
            v.extend_from_slice(b"zz\n");
            v
        }
    };
    let (sel, other) = if rng.bool() { (x, y) } else { (y, x) };
    let stream = ["none", "stdout", "stderr", "combined"][rng.weighted(&[2, 2, 3, 2])].to_string();
    let (stdout, mut stderr) = if stream == "stderr" { (other, sel) } else { (sel, other) };
    if stream == "combined" || stream == "none" {
        // the runner merges stderr into stdout for `combined`, and an unset stream is not a configured one:
        // with an empty stderr every reading of "the configured stream" selects the same bytes
        stderr.clear();
    }
    let expected = match rng.below(6) {
        0 | 1 => None,
        2 => Some(0),
        3 => Some(*rng.pick(&[1, 2, 80, 127, 255])),
        _ => Some(rng.below(256) as i32),
    };
    let e = expected.unwrap_or(0);
    let status = match rng.weighted(&[45, 35, 8, 4, 4, 4]) {
        0 => format!("code:{e}"),
        1 => {
            let r = rng.below(256) as i32;
            let mut c = *rng.pick(&[0, 1, e + 1, e - 1, 255, 256, -1, 80, r]);
            if c == e {
                c = e + 1;
            }
            format!("code:{c}")
        }
        2 => "unknown".into(),
        3 => "timeout".into(),
        4 => "skipped".into(),
        _ => "detached".into(),
    };
    ValCase {
        exps: a.exps,
        stdout,
        stderr,
        expected,
        status,
        stream,
        family: a.family,
    }
}

fn val_sample(c: &ValCase) -> Value {
    json!({"part": "validate", "family": c.family, "expectations": c.exps, "stdout": show(&c.stdout), "stderr": show(&c.stderr),
           "expected_exit_code": c.expected, "status": c.status, "output_stream": c.stream})
}

fn check_validate(c: &ValCase) -> Checked {
    let sel_is_stderr = c.stream == "stderr";
    let (sel, other) = if sel_is_stderr { (&c.stderr, &c.stdout) } else { (&c.stdout, &c.stderr) };
    let dsel = dc::DiffCase {
        exps: c.exps.clone(),
        out: sel.clone(),
        family: String::new(),
    };
    let doth = dc::DiffCase {
        exps: c.exps.clone(),
        out: other.clone(),
        family: String::new(),
    };
    let (Some(p), Some(po)) = (dc::prepare(&dsel), dc::prepare(&doth)) else {
        return Checked::out_of_scope("expectation does not parse");
    };
    let mem_sel = member(&p.quants, &p.matrix, p.n_lines);
    let mem_oth = member(&po.quants, &po.matrix, po.n_lines);
    let det = det_member(&p.quants, &p.matrix, p.n_lines);
    if det != Det::OutOfScope && (det == Det::Member) != mem_sel {
        return Checked::inconclusive(format!("oracle self-check failed: DP={mem_sel} det={det:?} on {:?}", val_sample(c)));
    }
    let tc = TestCase {
        title: "t".into(),
        shell_expression: "true".into(),
        expectations: p.exps.clone(),
        exit_code: c.expected,
        line_number: 1,
        config: TestCaseConfig {
            output_stream: stream_cfg(&c.stream),
            ..Default::default()
        },
    };
    let status = parse_status(&c.status);
    let out = Output {
        stdout: c.stdout.clone().into(),
        stderr: c.stderr.clone().into(),
        exit_code: status.clone(),
    };
    let res = tc.validate(&out);
    let kind = match &res {
        Ok(()) => "ok",
        Err(TestCaseError::MalformedOutput(_)) => "malformed",
        Err(TestCaseError::InvalidExitCode { .. }) => "invalid-exit-code",
        Err(TestCaseError::InternalError(_)) => "internal",
        Err(TestCaseError::Timeout) => "timeout",
        Err(TestCaseError::Skipped) => "skipped",
    };
    let ExitStatus::Code(code) = status else {
        // no exit code: the statement speaks of what is *reported*; where the guard lives is the
        // implementation's choice, so only "does not panic" is decided here (the e2e part decides the rest)
        let st = c.status.split(':').next().unwrap_or("?");
        return Checked::held().bucket(format!("validate:no-code:{st}:{kind}")).bucket("validate:no-code");
    };
    let e = c.expected.unwrap_or(0);
    let code_ok = code == e;
    let shape = hash_bytes(
        format!("{}|{}|{}|{}|{}|{}", code_ok, c.expected.is_some(), c.stream, mem_sel, mem_oth, dc::shape_hash(&p, sel)).as_bytes(),
    );
    let mut ck = Checked::held().bucket(format!("validate:stream={}", c.stream));
    if !code_ok {
        match &res {
            Err(TestCaseError::InvalidExitCode { actual, expected }) => {
                if *actual != code || *expected != e {
                    return Checked::violated(
                        "C05/validate/invalid-exit-code-fields",
                        format!("InvalidExitCode{{actual:{actual},expected:{expected}}} for actual {code}, expected {e}: {:?}", val_sample(c)),
                    );
                }
            }
            _ => {
                return Checked::violated(
                    format!("C05/validate/wrong-code-reported-as/{kind}"),
                    format!("exit code {code} != expected {e} but validate returned {kind}: {:?}", val_sample(c)),
                );
            }
        }
        ck = ck.bucket(if mem_sel { "validate:one-false:code" } else { "validate:both-false" });
        if mem_sel {
            ck = ck.bucket("near-miss");
        }
        return ck.shape(mem_sel, shape);
    }
    match kind {
        "ok" => {
            if !mem_sel {
                let why = if mem_oth { "wrong-stream" } else { "not-member" };
                return Checked::violated(
                    format!("C05/validate/false-pass/{why}/cfg={}", c.stream),
                    format!("validate returned Ok, exit code matches, but the selected stream is not accepted: {:?}", val_sample(c)),
                );
            }
            ck = ck.bucket("validate:pass");
        }
        "invalid-exit-code" => {
            return Checked::violated(
                "C05/validate/spurious-invalid-exit-code",
                format!("exit code {code} equals the expected one but InvalidExitCode was returned: {:?}", val_sample(c)),
            );
        }
        _ => {
            if mem_sel && det == Det::Member {
                let why = if mem_oth { "both-accepted" } else { "other-stream-rejected" };
                return Checked::violated(
                    format!("C05/validate/false-failure/{kind}/{why}/cfg={}", c.stream),
                    format!("exit code matches and the deterministic list accepts the selected stream, but validate returned {kind}: {:?}", val_sample(c)),
                );
            }
            ck = ck.bucket(if mem_sel { "validate:fail:nondeterministic-unjudged" } else { "validate:one-false:output" });
            if !mem_sel && c.family.contains("near") {
                ck = ck.bucket("near-miss");
            }
        }
    }
    if mem_sel != mem_oth {
        ck = ck.bucket("validate:streams-discriminate");
    }
    // non-trivial: exactly one conjunct false (here: the output one)
    ck.shape(!mem_sel, shape)
}

fn shrink_validate(c: &ValCase) -> Vec<ValCase> {
    let mut v = vec![];
    let sel_is_stderr = c.stream == "stderr";
    let sel = if sel_is_stderr { &c.stderr } else { &c.stdout };
    let d = dc::DiffCase {
        exps: c.exps.clone(),
        out: sel.clone(),
        family: c.family.clone(),
    };
    // the other stream emptied
    {
        let mut n = c.clone();
        if sel_is_stderr {
            n.stdout.clear();
        } else {
            n.stderr.clear();
        }
        if n.stdout != c.stdout || n.stderr != c.stderr {
            v.push(n);
        }
    }
    for s in dc::shrink(&d) {
        let mut n = c.clone();
        n.exps = s.exps;
        if sel_is_stderr {
            n.stderr = s.out;
        } else {
            n.stdout = s.out;
        }
        v.push(n);
    }
    // lines of the other stream
    let other = if sel_is_stderr { &c.stdout } else { &c.stderr };
    let ol = split_lines(other);
    for i in 0..ol.len().min(30) {
        let mut keep = ol.clone();
        keep.remove(i);
        let mut n = c.clone();
        if sel_is_stderr {
            n.stdout = keep.concat();
        } else {
            n.stderr = keep.concat();
        }
        v.push(n);
    }
    v
}

// ---------------------------------------------------------------------------------------------
// end-to-end part
// ---------------------------------------------------------------------------------------------

#[derive(Clone, Debug, Serialize, Deserialize, PartialEq)]
pub struct ExpSpec {
    /// "equal" | "glob"
    pub kind: String,
    pub text: String,
    /// "" | "?" | "*" | "+"
    pub quant: String,
}

impl ExpSpec {
    fn new(kind: &str, text: &str, quant: &str) -> Self {
        ExpSpec {
            kind: kind.into(),
            text: text.into(),
            quant: quant.into(),
        }
    }
    fn render(&self) -> String {
        if self.kind == "equal" && self.quant.is_empty() {
            self.text.clone()
        } else {
            format!("{} ({}{})", self.text, self.kind, self.quant)
        }
    }
    fn quant(&self) -> Quant {
        Quant {
            optional: self.quant == "?" || self.quant == "*",
            multiline: self.quant == "*" || self.quant == "+",
        }
    }
    /// the harness's own matcher (every generated line ends in a newline)
    fn matches(&self, line: &[u8]) -> bool {
        let Some(body) = line.strip_suffix(b"\n") else {
            return false;
        };
        match self.kind.as_str() {
            "glob" => glob(self.text.as_bytes(), body),
            _ => body == self.text.as_bytes(),
        }
    }
}

/// `*` any run, `?` one character; ASCII only by construction
fn glob(p: &[u8], s: &[u8]) -> bool {
    match p.first() {
        None => s.is_empty(),
        Some(b'*') => (0..=s.len()).any(|i| glob(&p[1..], &s[i..])),
        Some(b'?') => !s.is_empty() && glob(&p[1..], &s[1..]),
        Some(c) => s.first() == Some(c) && glob(&p[1..], &s[1..]),
    }
}

#[derive(Clone, Debug, Serialize, Deserialize)]
pub struct DocTest {
    /// lines written to stdout / stderr (each followed by a newline), stdout first
    pub out: Vec<String>,
    pub err: Vec<String>,
    pub exps: Vec<ExpSpec>,
    /// the `[N]` line
    pub expected: Option<i32>,
    /// "exit:N" (as `exit N`) | "subexit:N" (as `(exit N)`) | "signal:KILL|TERM|SEGV|ABRT"
    pub behaviour: String,
    /// inline configuration (Markdown only): "" | "stdout" | "stderr" | "combined"
    pub stream: String,
    /// inline `{detached: true}` (Markdown, process per test): the command is `sleep 0.1`, no exit code is ever observed
    #[serde(default)]
    pub detached: bool,
    /// inline `{timeout: ..ms}`; used with the behaviour "sleep:MS"
    #[serde(default)]
    pub timeout_ms: u64,
}

#[derive(Clone, Debug, Serialize, Deserialize)]
pub struct DocCase {
    /// "md" | "cram"
    pub format: String,
    /// "" | "combine" | "no-combine"  (command line flag; never mixed with inline configuration)
    pub cli_stream: String,
    /// front-matter `defaults: {output_stream: ...}` (Markdown only, never together with a CLI flag): "" | "stdout" | "stderr" | "combined".
    /// An inline configuration of a test wins over it (documented precedence: test case > document defaults).
    #[serde(default)]
    pub doc_stream: String,
    /// Markdown document run with `--cram-compat` (single-script executor, default stream `combined`)
    #[serde(default)]
    pub cram_compat: bool,
    /// front-matter `total_timeout` in ms (Markdown, only in the detached/timeout family), 0 = none
    #[serde(default)]
    pub total_timeout_ms: u64,
    pub tests: Vec<DocTest>,
    #[serde(default)]
    pub family: String,
}

const CODES: &[i32] = &[0, 0, 1, 2, 3, 7, 42, 100, 126, 127, 128, 137, 143, 255];
const WORDS: &[&str] = &["alpha", "beta 2", "gamma", "delta x y", "eps", "alpha"];
const SIGNALS: &[&str] = &["KILL", "KILL", "TERM", "SEGV", "ABRT"];

fn payload_lines(rng: &mut Rng, tag: char, max: usize) -> Vec<String> {
    let n = rng.below(max + 1);
    (0..n).map(|i| format!("{tag}{} {}", i + 1, rng.pick(WORDS))).collect()
}

/// expectations that describe `lines` (accepting), in one of several styles
fn describe(rng: &mut Rng, lines: &[String]) -> Vec<ExpSpec> {
    match rng.below(5) {
        0 | 1 => lines.iter().map(|l| ExpSpec::new("equal", l, "")).collect(),
        2 if !lines.is_empty() => {
            let first = lines[0].chars().next().unwrap_or('o');
            vec![ExpSpec::new("glob", &format!("{first}*"), "+")]
        }
        3 if !lines.is_empty() => {
            let mut v = vec![ExpSpec::new("equal", &lines[0], "")];
            if lines.len() > 1 {
                v.push(ExpSpec::new("glob", &format!("{}?*", &lines[1][..1]), "*"));
            }
            v
        }
        _ => {
            let mut v: Vec<ExpSpec> = lines.iter().map(|l| ExpSpec::new("equal", l, "")).collect();
            v.push(ExpSpec::new("equal", "zz never printed", "?"));
            v
        }
    }
}

fn effective_stream(doc: &DocCase, t: &DocTest) -> &'static str {
    match doc.cli_stream.as_str() {
        "combine" => "combined",
        "no-combine" => "stdout",
        _ => {
            if doc.format == "cram" {
                "combined"
            } else {
                let configured = if t.stream.is_empty() { doc.doc_stream.as_str() } else { t.stream.as_str() };
                match configured {
                    "stderr" => "stderr",
                    "combined" => "combined",
                    "stdout" => "stdout",
                    // nothing configured: Markdown defaults to stdout, with --cram-compat to combined
                    _ if doc.cram_compat => "combined",
                    _ => "stdout",
                }
            }
        }
    }
}

/// the single-script executor runs all test cases in one bash process
fn single_script(doc: &DocCase) -> bool {
    doc.format == "cram" || doc.cram_compat
}

/// `--cram-compat` Markdown whose test cases do not agree on one stream: the single-script executor cannot
/// serve that; the base behaviour is to refuse the document
fn is_mixed(doc: &DocCase) -> bool {
    if !(doc.cram_compat && doc.format == "md" && doc.cli_stream.is_empty()) {
        return false;
    }
    let mut it = doc.tests.iter().map(|t| effective_stream(doc, t));
    match it.next() {
        Some(first) => it.any(|s| s != first),
        None => false,
    }
}

fn fmt_label(doc: &DocCase) -> &'static str {
    if doc.format == "cram" {
        "cram"
    } else if doc.cram_compat {
        "md-cc"
    } else {
        "md"
    }
}

fn stream_lines<'a>(t: &'a DocTest, stream: &str) -> Vec<&'a String> {
    match stream {
        "stderr" => t.err.iter().collect(),
        "combined" => t.out.iter().chain(t.err.iter()).collect(),
        _ => t.out.iter().collect(),
    }
}

fn gen_doc(rng: &mut Rng) -> DocCase {
    let which = rng.weighted(&[45, 30, 25]);
    let format = if which == 1 { "cram" } else { "md" }.to_string();
    let mut doc = DocCase {
        format: format.clone(),
        cli_stream: String::new(),
        doc_stream: String::new(),
        cram_compat: which == 2,
        total_timeout_ms: 0,
        tests: vec![],
        family: String::new(),
    };
    // --cram-compat Markdown: one stream for all test cases (flag, the same inline configuration everywhere, or
    // nothing), or test cases that disagree
    let cc_mixed = doc.cram_compat && rng.chance(2, 5);
    let cc_uniform: Option<&str> = if doc.cram_compat && !cc_mixed && rng.chance(2, 3) {
        Some(*rng.pick(&["", "stdout", "stderr", "combined"]))
    } else {
        None
    };
    let inline = format == "md" && !doc.cram_compat && rng.chance(2, 3);
    if !inline && !cc_mixed && cc_uniform.is_none() && rng.chance(1, 2) {
        doc.cli_stream = if rng.bool() { "combine" } else { "no-combine" }.into();
    }
    if format == "md" && !doc.cram_compat && doc.cli_stream.is_empty() && rng.chance(1, 3) {
        doc.doc_stream = rng.pick(&["stdout", "stderr", "combined"]).to_string();
    }
    let n = 1 + rng.below(5);
    // families: no signal / one signalled command at a chosen position
    let signal_at = if rng.chance(1, 2) { Some(rng.below(n)) } else { None };
    // mixed documents: mostly "a separate stream first, combined (the default) later", mostly without a signal
    let signal_at = if cc_mixed && rng.chance(3, 4) { None } else { signal_at };
    let cc_first_separate = cc_mixed && rng.chance(2, 3);
    // single-script documents (Cram, --cram-compat): one test case may end the whole script with a plain `exit N`
    // (N != the skip code); the test cases behind it never run and must not be reported as succeeded
    let script_exit_at = if signal_at.is_none() && !cc_mixed && (format == "cram" || doc.cram_compat) && rng.chance(1, 4) { Some(rng.below(n)) } else { None };
    doc.family = if signal_at.is_some() {
        "signal"
    } else if script_exit_at.is_some() {
        "script-exit"
    } else {
        "codes"
    }
    .into();
    for i in 0..n {
        let mut t = DocTest {
            out: payload_lines(rng, 'o', 3),
            err: payload_lines(rng, 'e', 2),
            exps: vec![],
            expected: None,
            behaviour: String::new(),
            stream: String::new(),
            detached: false,
            timeout_ms: 0,
        };
        if rng.chance(1, 5) {
            t.out.clear();
            t.err.clear();
        }
        if inline {
            t.stream = ["", "stdout", "stderr", "combined"][rng.weighted(&[2, 1, 3, 2])].to_string();
        }
        if let Some(u) = cc_uniform {
            t.stream = u.to_string();
        }
        if cc_mixed {
            t.stream = if !cc_first_separate {
                ["", "stdout", "stderr", "combined"][rng.weighted(&[3, 3, 2, 1])].to_string()
            } else if i == 0 {
                ["stdout", "stderr"][rng.below(2)].to_string()
            } else {
                ["", "combined", "stdout"][rng.weighted(&[3, 2, 1])].to_string()
            };
            if t.err.is_empty() {
                // the streams have to differ for the choice of the stream to matter
                t.err = vec![format!("e1 {}", rng.pick(WORDS))];
            }
        }
        let eff = effective_stream(&doc, &t);
        let selected: Vec<String> = stream_lines(&t, eff).into_iter().cloned().collect();
        let other: Vec<String> = match eff {
            "stderr" => t.out.clone(),
            "stdout" => t.err.clone(),
            _ => t.out.clone(),
        };
        // expectations: accept / describe the other stream / one-edit rejections / nothing / anything
        let w_other = if cc_mixed { 60 } else { 15 };
        t.exps = match rng.weighted(&[45, w_other, 8, 8, 8, 8, 8]) {
            0 => describe(rng, &selected),
            1 => describe(rng, &other),
            2 => {
                let mut v = describe(rng, &selected);
                v.pop();
                v
            }
            3 => {
                let mut v = describe(rng, &selected);
                v.push(ExpSpec::new("equal", "zz missing line", ""));
                v
            }
            4 => {
                let mut v: Vec<ExpSpec> = selected.iter().map(|l| ExpSpec::new("equal", l, "")).collect();
                if !v.is_empty() {
                    let i = rng.below(v.len());
                    v[i].text.push('x');
                }
                v
            }
            5 => vec![],
            _ => vec![ExpSpec::new("glob", "*", "*")],
        };
        if signal_at == Some(i) {
            t.behaviour = format!("signal:{}", rng.pick(SIGNALS));
            // what is recorded of a killed command is unspecified: no output, permissive expectations
            t.out.clear();
            t.err.clear();
            t.exps = match rng.below(3) {
                0 => vec![],
                1 => vec![ExpSpec::new("glob", "*", "*")],
                _ => vec![ExpSpec::new("equal", "zz never printed", "?")],
            };
            t.expected = *rng.pick(&[None, None, Some(0), Some(1), Some(3)]);
        } else {
            let code = *rng.pick(CODES);
            t.behaviour = if format == "md" && !doc.cram_compat && rng.bool() { format!("exit:{code}") } else { format!("subexit:{code}") };
            t.expected = match rng.weighted(&[60, 15, 25]) {
                0 => {
                    if code == 0 && rng.bool() {
                        None
                    } else {
                        Some(code)
                    }
                }
                1 => None,
                _ => Some(*rng.pick(CODES)),
            };
            if script_exit_at == Some(i) {
                let code = *rng.pick(&[0, 0, 0, 1, 3]);
                t.behaviour = format!("exit:{code}");
                t.expected = if code == 0 { None } else { Some(code) };
            }
            if (signal_at.is_some_and(|s| i > s) || script_exit_at.is_some_and(|s| i > s)) && rng.chance(2, 3) {
                // a later test that would accept the empty output of a command that never ran
                t.out.clear();
                t.err.clear();
                t.exps = if rng.bool() { vec![] } else { vec![ExpSpec::new("glob", "*", "*")] };
                t.expected = None;
                t.behaviour = "subexit:0".into();
            }
        }
        doc.tests.push(t);
    }
    // detached test cases before / between ordinary ones, and a later test case that runs into its own time limit
    // or into the document's: whatever path produces the results, a detached test case (no exit code is ever
    // observed) is never a success
    if format == "md" && !doc.cram_compat && doc.doc_stream.is_empty() && signal_at.is_none() && rng.chance(1, 3) {
        let special = |behaviour: &str, detached: bool, timeout_ms: u64, exps: Vec<ExpSpec>| DocTest {
            out: vec![],
            err: vec![],
            exps,
            expected: None,
            behaviour: behaviour.into(),
            stream: String::new(),
            detached,
            timeout_ms,
        };
        for _ in 0..1 + rng.below(2) {
            let pos = rng.below(doc.tests.len() + 1);
            let exps = if rng.bool() { vec![] } else { vec![ExpSpec::new("glob", "*", "*")] };
            doc.tests.insert(pos, special("sleep:100", true, 0, exps));
        }
        match rng.below(4) {
            0 => {}
            k => {
                // somewhere after the first detached test case
                let first = doc.tests.iter().position(|t| t.detached).unwrap_or(0);
                let pos = first + 1 + rng.below(doc.tests.len() - first);
                if k == 3 {
                    doc.total_timeout_ms = 400;
                    doc.tests.insert(pos, special("sleep:2000", false, 0, vec![]));
                } else {
                    doc.tests.insert(pos, special("sleep:2000", false, 300, vec![]));
                }
            }
        }
        doc.family = "detached+timeout".into();
    }
    if cc_mixed {
        if doc.tests.len() < 2 {
            let mut t = doc.tests[0].clone();
            t.stream = if effective_stream(&doc, &t) == "stdout" { "combined" } else { "stdout" }.into();
            doc.tests.push(t);
        }
        if !is_mixed(&doc) {
            let first = effective_stream(&doc, &doc.tests[0]);
            let l = doc.tests.len() - 1;
            doc.tests[l].stream = if first == "stdout" { "" } else { "stdout" }.into();
        }
        doc.family = format!("{}+mixed-streams", doc.family);
    }
    doc
}

struct Rendered {
    text: String,
    /// (file name, content)
    payloads: Vec<(String, Vec<u8>)>,
}

fn join_nl(lines: &[String]) -> Vec<u8> {
    let mut v = vec![];
    for l in lines {
        v.extend_from_slice(l.as_bytes());
        v.push(b'\n');
    }
    v
}

fn render_doc(doc: &DocCase, sb: &Sandbox) -> Rendered {
    let mut text = String::new();
    let mut payloads = vec![];
    let cram = doc.format == "cram";
    if !cram && doc.total_timeout_ms > 0 {
        text.push_str(&format!("---\ntotal_timeout: {}ms\n---\n\n", doc.total_timeout_ms));
    }
    if !cram && !doc.doc_stream.is_empty() {
        text.push_str(&format!("---\ndefaults:\n  output_stream: {}\n---\n\n", doc.doc_stream));
    }
    for (i, t) in doc.tests.iter().enumerate() {
        let mut cmd = sb.mark(&format!("t{i}"));
        if !t.out.is_empty() {
            let name = format!("t{i}.out");
            cmd.push_str(&format!("; cat {}", sh_quote(&sb.payload.join(&name).display().to_string())));
            payloads.push((name, join_nl(&t.out)));
        }
        if !t.err.is_empty() {
            let name = format!("t{i}.err");
            cmd.push_str(&format!("; cat {} >&2", sh_quote(&sb.payload.join(&name).display().to_string())));
            payloads.push((name, join_nl(&t.err)));
        }
        if let Some(sig) = t.behaviour.strip_prefix("signal:") {
            cmd.push_str(&format!("; ulimit -c 0; kill -{sig} $$; echo survived-t{i} >> {}", sb.log.display()));
        } else if let Some(n) = t.behaviour.strip_prefix("exit:") {
            cmd.push_str(&format!("; exit {n}"));
        } else if let Some(n) = t.behaviour.strip_prefix("subexit:") {
            cmd.push_str(&format!("; (exit {n})"));
        } else if let Some(ms) = t.behaviour.strip_prefix("sleep:") {
            let ms: u64 = ms.parse().unwrap_or(100);
            cmd.push_str(&format!("; sleep {}.{:03}", ms / 1000, ms % 1000));
        }
        if cram {
            text.push_str(&format!("title-t{i}\n  $ {cmd}\n"));
            for e in &t.exps {
                text.push_str(&format!("  {}\n", e.render()));
            }
            if let Some(n) = t.expected {
                text.push_str(&format!("  [{n}]\n"));
            }
            text.push('\n');
        } else {
            let mut parts = vec![];
            if !t.stream.is_empty() {
                parts.push(format!("output_stream: {}", t.stream));
            }
            if t.detached {
                parts.push("detached: true".to_string());
            }
            if t.timeout_ms > 0 {
                parts.push(format!("timeout: {}ms", t.timeout_ms));
            }
            let cfg = if parts.is_empty() { String::new() } else { format!(" {{{}}}", parts.join(", ")) };
            text.push_str(&format!("title-t{i}\n\n```scrut{cfg}\n$ {cmd}\n"));
            for e in &t.exps {
                text.push_str(&format!("{}\n", e.render()));
            }
            if let Some(n) = t.expected {
                text.push_str(&format!("[{n}]\n"));
            }
            text.push_str("```\n\n");
        }
    }
    Rendered { text, payloads }
}

fn doc_sample(doc: &DocCase) -> Value {
    let tests: Vec<Value> = doc
        .tests
        .iter()
        .map(|t| {
            json!({"behaviour": t.behaviour, "stdout": t.out, "stderr": t.err,
                   "expectations": t.exps.iter().map(|e| e.render()).collect::<Vec<_>>(),
                   "expected_exit_code": t.expected, "inline_output_stream": t.stream, "detached": t.detached, "timeout_ms": t.timeout_ms})
        })
        .collect();
    json!({"part": "e2e", "format": doc.format, "cli": doc.cli_stream, "document_default_stream": doc.doc_stream, "cram_compat": doc.cram_compat, "total_timeout_ms": doc.total_timeout_ms, "family": doc.family, "tests": tests})
}

fn outcome_title(o: &Value) -> String {
    o["title"]
        .as_str()
        .or_else(|| o["testcase"]["title"].as_str())
        .unwrap_or("")
        .trim()
        .to_string()
}

fn accepts(exps: &[ExpSpec], lines: &[&String]) -> (bool, Det) {
    let q: Vec<Quant> = exps.iter().map(|e| e.quant()).collect();
    let bytes: Vec<Vec<u8>> = lines
        .iter()
        .map(|l| {
            let mut b = l.as_bytes().to_vec();
            b.push(b'\n');
            b
        })
        .collect();
    let m: Vec<Vec<bool>> = exps.iter().map(|e| bytes.iter().map(|l| e.matches(l)).collect()).collect();
    (member(&q, &m, bytes.len()), det_member(&q, &m, bytes.len()))
}

fn check_e2e(env: &Env, doc: &DocCase) -> Checked {
    if doc.tests.is_empty() {
        return Checked::out_of_scope("empty document");
    }
    let fmt = fmt_label(doc);
    let mixed = is_mixed(doc);
    let lenient = doc.total_timeout_ms > 0;
    let sb = Sandbox::new(env, "c05");
    let r = render_doc(doc, &sb);
    for (name, content) in &r.payloads {
        sb.write_payload(name, content);
    }
    let file = if fmt == "cram" { "doc.t" } else { "doc.md" };
    sb.write_doc(file, r.text.as_bytes());
    let mut cmd = ScrutCmd::new(&sb, &["test", "--no-color", "-r", "json"]);
    match doc.cli_stream.as_str() {
        "combine" => cmd = cmd.arg("--combine-output"),
        "no-combine" => cmd = cmd.arg("--no-combine-output"),
        _ => {}
    }
    if doc.cram_compat {
        cmd = cmd.arg("--cram-compat");
    }
    let run = cmd.arg(file).run(env);
    let markers = sb.markers();
    run.kill_group();
    if run.watchdog_fired {
        return Checked::inconclusive("watchdog fired while running scrut");
    }
    let Some(code) = run.code else {
        return Checked::inconclusive(format!("scrut was terminated by signal {:?}", run.signal));
    };
    let ran = |i: usize| markers.iter().any(|m| *m == format!("t{i}"));
    let survived = |i: usize| markers.iter().any(|m| *m == format!("survived-t{i}"));
    let n = doc.tests.len();
    let signal_pos = doc.tests.iter().position(|t| t.behaviour.starts_with("signal:"));
    if let Some(s) = signal_pos {
        if survived(s) {
            return Checked::out_of_scope("the signal did not terminate the shell").bucket("e2e:signal-survived");
        }
    }
    let executed_signal = signal_pos.is_some_and(ran);
    let script_exit_pos = if single_script(doc) { doc.tests.iter().position(|t| t.behaviour.starts_with("exit:")) } else { None };
    let executed_script_exit = script_exit_pos.is_some_and(ran);

    let mut ck = Checked::held().bucket("e2e:doc").bucket(format!("e2e:fmt={fmt}"));
    let mut shape_src = format!("{fmt}|{}|{mixed}", doc.cli_stream);
    if mixed {
        ck = ck.bucket("e2e:mixed-streams");
    }
    let mut nontrivial = false;
    if let Some(s) = signal_pos {
        let pos = if n == 1 {
            "only"
        } else if s == 0 {
            "first"
        } else if s + 1 == n {
            "last"
        } else {
            "middle"
        };
        ck = ck.bucket(format!("e2e:signal-pos={pos}")).bucket(format!("e2e:{}", doc.tests[s].behaviour));
        if executed_signal {
            ck = ck.bucket("e2e:signal-executed");
            nontrivial = true;
        }
    }

    // the report
    let outcomes = match run.json() {
        Ok(o) => Some(o),
        Err(_) => None,
    };
    let Some(outcomes) = outcomes else {
        // no per-test report at all
        if mixed && code != 0 {
            // refused as a whole (the base behaviour): nothing is reported as succeeded, the run is not a success
            for t in &doc.tests {
                shape_src.push_str(&format!("|{}", effective_stream(doc, t)));
            }
            return ck
                .bucket("e2e:mixed-refused")
                .bucket(format!("e2e:exit={code}"))
                .shape(true, hash_bytes(shape_src.as_bytes()));
        }
        if single_script(doc) && executed_script_exit {
            // the script ended before its last test case: scrut refuses the document (the base behaviour); nothing is
            // reported as succeeded, so the run must not look like a success
            if code == 0 {
                return Checked::violated(
                    format!("C05/e2e/exit-0-with-ended-script/{fmt}"),
                    format!("a test case ended the script with `exit`, nothing was reported, but scrut exited 0: {:?}", doc_sample(doc)),
                );
            }
            return ck
                .bucket("e2e:script-exit-refused")
                .bucket(format!("e2e:exit={code}"))
                .shape(true, hash_bytes(shape_src.as_bytes()));
        }
        if single_script(doc) && executed_signal {
            // by design the single script is aborted as a whole: nothing is reported as succeeded;
            // the run must not look like a success
            if code == 0 {
                return Checked::violated(
                    format!("C05/e2e/exit-0-with-signalled-command/{fmt}"),
                    format!("the script was killed by a signal, nothing was reported, but scrut exited 0: {:?}", doc_sample(doc)),
                );
            }
            for t in &doc.tests {
                shape_src.push_str(&format!("|{}", t.behaviour.split(':').next().unwrap_or("")));
            }
            return ck
                .bucket("e2e:cram-aborted")
                .bucket(format!("e2e:exit={code}"))
                .shape(true, hash_bytes(shape_src.as_bytes()));
        }
        return Checked::inconclusive(format!(
            "no JSON report (exit {code}): {} / {:?}",
            run.stderr_str().chars().take(300).collect::<String>(),
            doc_sample(doc)
        ));
    };
    let mut by_title: BTreeMap<String, Vec<String>> = BTreeMap::new();
    for o in &outcomes {
        by_title.entry(outcome_title(o)).or_default().push(result_kind(o));
    }
    for title in by_title.keys() {
        let known = (0..n).any(|i| *title == format!("title-t{i}"));
        if !known {
            return Checked::inconclusive(format!("outcome with unknown title {title:?}: {:?}", doc_sample(doc)));
        }
    }

    let mut any_not_success = false;
    for (i, t) in doc.tests.iter().enumerate() {
        let kinds = by_title.get(&format!("title-t{i}")).cloned().unwrap_or_default();
        let success = kinds.iter().any(|k| k == "success");
        if t.detached {
            // scrut does not wait for it: no exit code is ever observed, so it is never a success (normally it
            // gets no result at all, which is not a failure of the run either)
            nontrivial = true;
            shape_src.push_str(&format!("|detached:{}", kinds.join("+")));
            ck = ck.bucket("e2e:detached").bucket(if kinds.is_empty() { "e2e:detached:no-result" } else { "e2e:detached:has-result" });
            if success {
                let path = if doc.tests.iter().any(|x| x.behaviour == "sleep:2000") { "with-timeout" } else { "no-timeout" };
                return Checked::violated(
                    format!("C05/e2e/detached-test-success/{fmt}/{path}"),
                    format!("test #{i} is detached (scrut never saw an exit code) but is reported as success: {:?}", doc_sample(doc)),
                );
            }
            continue;
        }
        if !success {
            any_not_success = true;
        }
        if t.behaviour.starts_with("sleep:") {
            // the command that exceeds a time limit: how that is reported is C14's matter
            shape_src.push_str(&format!("|sleeper:{}", kinds.join("+")));
            for k in &kinds {
                ck = ck.bucket(format!("e2e:sleeper:{k}"));
            }
            continue;
        }
        for k in &kinds {
            ck = ck.bucket(format!("e2e:kind:{k}"));
        }
        let eff = effective_stream(doc, t);
        let is_signal = t.behaviour.starts_with("signal:");
        shape_src.push_str(&format!("|{}:{eff}", t.behaviour.split(':').next().unwrap_or("")));
        if !ran(i) {
            // never started (a command before it ended without an exit code): never a success
            ck = ck.bucket("e2e:not-run");
            shape_src.push_str(":not-run");
            if success {
                return Checked::violated(
                    format!("C05/e2e/not-run-test-success/{fmt}"),
                    format!("test #{i} never ran (no marker) but is reported as success: {:?}", doc_sample(doc)),
                );
            }
            continue;
        }
        if script_exit_pos == Some(i) {
            // the test case that ended the script: which output / code is attributed to it is not specified
            ck = ck.bucket("e2e:script-exit-reported");
            continue;
        }
        if is_signal {
            if success {
                return Checked::violated(
                    format!("C05/e2e/signalled-test-success/{fmt}"),
                    format!("test #{i} killed its shell with a signal (no exit code) but is reported as success: {:?}", doc_sample(doc)),
                );
            }
            continue;
        }
        let actual: i32 = t.behaviour.rsplit(':').next().and_then(|s| s.parse().ok()).unwrap_or(0);
        let e = t.expected.unwrap_or(0);
        let (acc, det) = accepts(&t.exps, &stream_lines(t, eff));
        shape_src.push_str(&format!(":{}:{}", actual == e, acc));
        ck = ck.bucket(format!("e2e:stream={eff}"));
        if actual != e {
            nontrivial |= acc;
            ck = ck.bucket("e2e:wrong-code");
            if (mixed || lenient) && !success {
                // a document the single-script executor cannot serve: only "not a success" is decided
                continue;
            }
            if kinds.len() != 1 || kinds[0] != "invalid_exit_code" {
                let got = if kinds.is_empty() { "nothing".to_string() } else { kinds.join("+") };
                return Checked::violated(
                    format!("C05/e2e/wrong-code-reported-as/{got}/{fmt}"),
                    format!("test #{i} exited {actual}, expected {e}, reported as {got}: {:?}", doc_sample(doc)),
                );
            }
            // the fields of the report
            if let Some(o) = outcomes.iter().find(|o| outcome_title(o) == format!("title-t{i}")) {
                let (a, x) = (o["result"]["actual"].as_i64(), o["result"]["expected"].as_i64());
                if a.is_some() && x.is_some() && (a != Some(actual as i64) || x != Some(e as i64)) {
                    return Checked::violated(
                        format!("C05/e2e/invalid-exit-code-fields/{fmt}"),
                        format!("test #{i} exited {actual}, expected {e}, reported actual={a:?} expected={x:?}: {:?}", doc_sample(doc)),
                    );
                }
            }
            continue;
        }
        if acc {
            if lenient {
                // the document limit may hit any test case: only "no false success" is decided
                ck = ck.bucket("e2e:document-limit-pass-direction-unjudged");
            } else if mixed {
                // what the combined stream of a script run with separate streams is, is not decided
                ck = ck.bucket("e2e:mixed-pass-direction-unjudged");
            } else if det == Det::Member {
                if !success {
                    let got = if kinds.is_empty() { "nothing".to_string() } else { kinds.join("+") };
                    return Checked::violated(
                        format!("C05/e2e/false-failure/{got}/{fmt}/stream={eff}"),
                        format!("test #{i}: exit code and {eff} output as expected, reported as {got}: {:?}", doc_sample(doc)),
                    );
                }
                ck = ck.bucket("e2e:pass");
            } else {
                ck = ck.bucket("e2e:nondeterministic-unjudged");
            }
        } else {
            nontrivial = true;
            ck = ck.bucket("e2e:wrong-output");
            if success {
                // which stream would have been accepted?
                let alt = ["stdout", "stderr", "combined"]
                    .iter()
                    .find(|s| **s != eff && accepts(&t.exps, &stream_lines(t, s)).0)
                    .map(|s| format!("accepted-as={s}"))
                    .unwrap_or_else(|| "accepted-by-none".into());
                return Checked::violated(
                    format!("C05/e2e/false-pass/{fmt}/stream={eff}/{alt}"),
                    format!("test #{i}: the {eff} output is not accepted by the expectations but the test is reported as success: {:?}", doc_sample(doc)),
                );
            }
        }
    }
    if any_not_success && code == 0 {
        return Checked::violated(
            format!("C05/e2e/exit-0-despite-failure/{fmt}"),
            format!("at least one test is not a success but scrut exited 0: {:?}", doc_sample(doc)),
        );
    }
    ck.bucket(format!("e2e:exit={code}")).shape(nontrivial, hash_bytes(shape_src.as_bytes()))
}

fn shrink_doc(doc: &DocCase) -> Vec<DocCase> {
    let mut v = vec![];
    for i in 0..doc.tests.len() {
        if doc.tests.len() > 1 {
            let mut d = doc.clone();
            d.tests.remove(i);
            v.push(d);
        }
    }
    if !doc.cli_stream.is_empty() {
        let mut d = doc.clone();
        d.cli_stream.clear();
        v.push(d);
    }
    if !doc.doc_stream.is_empty() {
        let mut d = doc.clone();
        d.doc_stream.clear();
        v.push(d);
    }
    for i in 0..doc.tests.len() {
        let t = &doc.tests[i];
        if !t.behaviour.starts_with("signal:") && t.behaviour != "subexit:0" {
            let mut d = doc.clone();
            d.tests[i].behaviour = "subexit:0".into();
            d.tests[i].expected = None;
            v.push(d);
        }
        if !t.out.is_empty() || !t.err.is_empty() {
            let mut d = doc.clone();
            d.tests[i].out.clear();
            d.tests[i].err.clear();
            v.push(d);
        }
        if !t.exps.is_empty() {
            let mut d = doc.clone();
            d.tests[i].exps.clear();
            v.push(d);
        }
        if !t.stream.is_empty() {
            let mut d = doc.clone();
            d.tests[i].stream.clear();
            v.push(d);
        }
        if t.expected.is_some() && t.behaviour.starts_with("signal:") {
            let mut d = doc.clone();
            d.tests[i].expected = None;
            v.push(d);
        }
        if t.behaviour.starts_with("signal:") && t.behaviour != "signal:KILL" {
            let mut d = doc.clone();
            d.tests[i].behaviour = "signal:KILL".into();
            v.push(d);
        }
    }
    v
}

// ---------------------------------------------------------------------------------------------

impl Monitor for C05 {
    type Case = C05Case;

    fn id(&self) -> &'static str {
        "C05"
    }

    fn plan(&self, tier: Tier) -> Plan {
        let mut p = Plan::new(
            tier.pick(100_000, 2_000_000),
            "two parts. validate: (expectations, stdout, stderr, expected code, exit status, output_stream) through TestCase::validate, judged with the membership DP on the selected stream; non-trivial = exactly one of the two conjuncts (exit code, accepted stream) false; e2e (one case in 250/2000): a Markdown or Cram document of 1-5 tests that exit N, print payloads to both streams or kill their shell (KILL/TERM/SEGV/ABRT), run by the scrut binary with -r json; non-trivial = a signalled command was executed or a test with exactly one conjunct false; distinct = hash of (code relation, stream, which conjunct, match matrix) resp. (format, per test behaviour/stream/conjuncts, signal position)",
        );
        p.case_timeout_s = 120;
        p.floor_nontrivial = tier.pick(1_000, 10_000);
        p.floor_buckets = vec![
            ("validate:pass".into(), tier.pick(2_000, 40_000)),
            ("validate:one-false:code".into(), tier.pick(1_000, 20_000)),
            ("validate:one-false:output".into(), tier.pick(2_000, 40_000)),
            ("validate:streams-discriminate".into(), tier.pick(1_000, 20_000)),
            ("validate:stream=stderr".into(), tier.pick(2_000, 40_000)),
            ("validate:stream=combined".into(), tier.pick(1_000, 20_000)),
            ("validate:no-code".into(), tier.pick(1_000, 20_000)),
            ("e2e:doc".into(), tier.pick(60, 200)),
            ("e2e:fmt=md".into(), tier.pick(20, 80)),
            ("e2e:fmt=cram".into(), tier.pick(15, 50)),
            ("e2e:fmt=md-cc".into(), tier.pick(12, 40)),
            ("e2e:mixed-refused".into(), tier.pick(6, 15)),
            ("e2e:script-exit-refused".into(), tier.pick(4, 12)),
            ("e2e:detached".into(), tier.pick(5, 15)),
            ("e2e:signal-executed".into(), tier.pick(15, 50)),
            ("e2e:signal-pos=first".into(), tier.pick(3, 10)),
            ("e2e:signal-pos=middle".into(), tier.pick(3, 10)),
            ("e2e:signal-pos=last".into(), tier.pick(3, 10)),
            ("e2e:wrong-code".into(), tier.pick(10, 50)),
            ("e2e:wrong-output".into(), tier.pick(10, 50)),
            ("e2e:pass".into(), tier.pick(10, 50)),
            ("e2e:stream=stderr".into(), tier.pick(5, 25)),
            ("e2e:stream=combined".into(), tier.pick(10, 50)),
        ];
        p.assumptions = vec![
            "the match matrix (Expectation::matches) is taken as data in the validate part; the e2e part uses its own equal/glob matcher on printable ASCII lines".into(),
            "statuses without an exit code are driven through TestCase::validate for the no-panic clause only; the 'never succeeded' clause is decided end to end".into(),
            "e2e ground truth for 'did not run' is the marker log; bash 5.2: kill -KILL/-TERM/-SEGV/-ABRT $$ ends the shell without an exit code (a 'survived' marker puts the case out of scope)".into(),
            "Cram documents with an executed signalled command are aborted as a whole by design: only 'nothing is a success' and 'exit status != 0' are judged there".into(),
            "exit code 80 (skip) is not generated (C15); time limits only in the detached+timeout family: Markdown documents with {detached: true} test cases (sleep 0.1) before / between ordinary ones and, mostly, a later `sleep 2` under {timeout: 300ms} or a 400 ms document limit; judged: a detached test case is never reported as succeeded; how the timed-out command itself is reported is left to C14; under a document limit the other test cases are judged in the 'no false success' direction only".into(),
            "Markdown under --cram-compat (label md-cc): with one stream for all test cases (flag, the same inline configuration everywhere, or nothing = combined) it is judged like a Cram document for that stream; when the test cases disagree on the stream the single-script executor cannot serve the document: a refusal (no report, exit != 0) holds, and if results are reported only 'a success needs the right exit code and its own configured stream accepted' is judged (the pass direction is not decided there)".into(),
        ];
        p
    }

    fn gen(&self, env: &Env, k: u64, rng: &mut Rng) -> C05Case {
        let stride = env.tier.pick(E2E_STRIDE_QUICK, E2E_STRIDE_THOROUGH);
        if k % stride == 0 {
            C05Case::E2e(gen_doc(rng))
        } else {
            C05Case::Validate(gen_validate(rng, env.tier == Tier::Thorough))
        }
    }

    fn check(&self, env: &Env, case: &C05Case) -> Checked {
        match case {
            C05Case::Validate(c) => check_validate(c),
            C05Case::E2e(d) => check_e2e(env, d),
        }
    }

    fn shrink(&self, case: &C05Case) -> Vec<C05Case> {
        match case {
            C05Case::Validate(c) => shrink_validate(c).into_iter().map(C05Case::Validate).collect(),
            C05Case::E2e(d) => shrink_doc(d).into_iter().map(C05Case::E2e).collect(),
        }
    }

    fn sample(&self, case: &C05Case) -> Value {
        match case {
            C05Case::Validate(c) => val_sample(c),
            C05Case::E2e(d) => doc_sample(d),
        }
    }
}
