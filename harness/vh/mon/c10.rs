//! C10 — `update` preserves everything else and is idempotent (in-process part).
//!
//! The document comes from C06's block list, so the harness knows which lines are outside
//! scrut blocks. parse -> per-test output (pass / changed output / changed exit code) ->
//! really validate -> `MarkdownUpdateGenerator::generate_update` -> oracle:
//!   (1) every outside line is still there, in order, unchanged (CRLF -> LF and a final
//!       newline may be normalised); nothing is added;
//!   (2) same scrut blocks in the same order, each with its language, its inline
//!       configuration text and its comment lines; command lines unchanged;
//!   (3) blocks of passing tests are byte-identical (commands, expectations, exit code);
//!   (4) the updated document parses to the same commands;
//!   (5) validating the updated tests against the same outputs and updating again changes nothing;
//!   (6) an unterminated trailing block loses no line (a closing fence may be added).

use scrut::escaping::Escaper;
use scrut::generators::generator::UpdateGenerator;
use scrut::generators::markdown::MarkdownUpdateGenerator;
use scrut::outcome::Outcome;
use scrut::output::ExitStatus;
use scrut::output::Output;
use scrut::parsers::parser::ParserType;
use scrut::testcase::TestCase;
use serde::Deserialize;
use serde::Serialize;
use serde_json::json;

use super::doccommon::*;
use crate::core::*;
use crate::gen::docgen::*;
use crate::rng::hash_str;
use crate::rng::Rng;

pub struct C10;

#[derive(Clone, Debug, Serialize, Deserialize)]
pub struct C10Case {
    pub doc: MdDoc,
    /// intended outcome of the i-th parsed test (cyclic): "pass" | "output" | "code"
    pub outcomes: Vec<String>,
}

struct Driven {
    updated: String,
    /// result kinds of the first validation, per parsed test
    kinds: Vec<&'static str>,
    shells: Vec<String>,
}

enum Step {
    Skip(String),
    Fail(String, String),
    Done(Driven),
}

fn output_for(tc: &TestCase, intent: &str, i: usize) -> Output {
    let mut out = String::new();
    for e in &tc.expectations {
        let o = e.original_string();
        // benign documents contain plain lines and `<text>* (glob)` only
        match o.strip_suffix("* (glob)") {
            Some(prefix) => out.push_str(&format!("{prefix}XY\n")),
            None => out.push_str(&format!("{o}\n")),
        }
    }
    let expected = tc.exit_code.unwrap_or(0);
    let (out, code) = match intent {
        "output" => (format!("new output {i}\nsecond line\n"), expected),
        "code" => (out, if expected == 3 { 4 } else { 3 }),
        _ => (out, expected),
    };
    Output {
        stdout: out.into_bytes().into(),
        stderr: vec![].into(),
        exit_code: ExitStatus::Code(code),
    }
}

fn outcomes_of(tests: &[TestCase], outputs: &[Output]) -> Vec<Outcome> {
    tests
        .iter()
        .zip(outputs.iter())
        .map(|(tc, o)| Outcome {
            location: Some("doc.md".into()),
            output: o.clone(),
            testcase: tc.clone(),
            format: ParserType::Markdown,
            escaping: Escaper::Unicode,
            result: tc.validate(o),
        })
        .collect()
}

fn update(text: &str, outcomes: &[Outcome]) -> Result<String, String> {
    let refs: Vec<&Outcome> = outcomes.iter().collect();
    MarkdownUpdateGenerator::default().generate_update(text, &refs).map_err(|e| format!("{e:#}"))
}

/// the lines of a text as the statement counts them (CRLF -> LF normalisation, final newline optional)
fn text_lines(text: &str) -> Vec<String> {
    let mut v: Vec<String> = text.split('\n').map(|l| l.strip_suffix('\r').unwrap_or(l).to_string()).collect();
    if v.last().is_some_and(|l| l.is_empty()) {
        v.pop();
    }
    v
}

/// `(ticks, rest)` of a fence line of a scrut block, None if the line is not one
fn scrut_fence(line: &str) -> Option<(usize, String)> {
    let ticks = line.chars().take_while(|c| *c == '`').count();
    if ticks < 3 {
        return None;
    }
    let rest = line[ticks..].trim();
    let after = rest.strip_prefix("scrut")?;
    if !(after.is_empty() || after.starts_with(' ') || after.starts_with('{')) {
        return None;
    }
    Some((ticks, after.trim().to_string()))
}

/// clauses (1) (2) (3) (6): walk the model's lines along the updated document
fn structure(doc: &MdDoc, updated: &str, passing_blocks: Option<&[usize]>) -> Option<(String, String)> {
    let rl = doc.rlines();
    let ul = text_lines(updated);
    let bad = |clause: &str, what: String| Some((clause.to_string(), what));
    let mut i = 0usize;
    let mut j = 0usize;
    while i < rl.len() {
        let m = &rl[i];
        match m.part {
            Part::Outside => {
                match ul.get(j) {
                    None => return bad("lines-lost", format!("updated document ends before line {:?} (and {} more lines)", m.text, rl.len() - i - 1)),
                    Some(u) if *u != m.text => {
                        // lost or changed? look ahead for the expected line
                        let ahead = ul[j..].iter().take(6).any(|x| *x == m.text);
                        let clause = if ahead { "line-added" } else if rl[i + 1..].iter().take(6).any(|x| x.part == Part::Outside && x.text == *u) { "line-lost" } else { "line-changed" };
                        return bad(clause, format!("outside line {:?} expected, updated document has {:?}", m.text, u));
                    }
                    Some(_) => {}
                }
                i += 1;
                j += 1;
            }
            Part::ScrutFence => {
                let Block::Scrut(s) = &doc.blocks[m.block] else {
                    return bad("harness", "model inconsistency".into());
                };
                let Some(u) = ul.get(j) else {
                    return bad("lines-lost", format!("updated document ends before the scrut block {:?}", m.text));
                };
                let Some((ticks, cfg)) = scrut_fence(u) else {
                    return bad("block-language", format!("scrut fence {:?} expected, updated document has {:?}", m.text, u));
                };
                let want_cfg = s.cfg_text.clone().unwrap_or_default();
                // blanks inside the braces may move; the configuration text may not
                let norm = |c: &str| c.chars().filter(|ch| !ch.is_whitespace()).collect::<String>();
                if norm(&cfg) != norm(&want_cfg) {
                    // `{}` and no configuration are the same configuration
                    let empty = |c: &str| norm(c).is_empty() || norm(c) == "{}";
                    if !(empty(&cfg) && empty(&want_cfg)) {
                        return bad("block-config", format!("inline configuration {:?} became {:?}", want_cfg, cfg));
                    }
                }
                j += 1;
                i += 1;
                // comments
                while i < rl.len() && rl[i].block == m.block && rl[i].part == Part::ScrutComment {
                    if ul.get(j) != Some(&rl[i].text) {
                        return bad("block-comments", format!("comment line {:?} expected, updated document has {:?}", rl[i].text, ul.get(j)));
                    }
                    i += 1;
                    j += 1;
                }
                // model content of the block
                let mut cmd = vec![];
                let mut body = vec![];
                while i < rl.len() && rl[i].block == m.block && matches!(rl[i].part, Part::ScrutCmd | Part::ScrutBody) {
                    if rl[i].part == Part::ScrutCmd {
                        cmd.push(rl[i].text.clone());
                    } else {
                        body.push(rl[i].text.clone());
                    }
                    i += 1;
                }
                let has_close = i < rl.len() && rl[i].block == m.block && rl[i].part == Part::ScrutClose;
                if has_close {
                    i += 1;
                }
                // content of the block in the updated document
                let close = ul[j.min(ul.len())..].iter().position(|l| {
                    let t = l.chars().take_while(|c| *c == '`').count();
                    t >= ticks && l[t..].trim().is_empty() && t == l.trim_end().len()
                });
                let (content, next): (&[String], usize) = match close {
                    Some(k) => (&ul[j..j + k], j + k + 1),
                    None => {
                        if has_close {
                            return bad("closing-fence-lost", format!("block {:?} is not closed in the updated document", m.text));
                        }
                        (&ul[j.min(ul.len())..], ul.len())
                    }
                };
                if !s.has_test() {
                    if content != body.as_slice() {
                        return bad("no-test-block-changed", format!("block without command {:?} now contains {:?}", body, content));
                    }
                } else {
                    if content.len() < cmd.len() || content[..cmd.len()] != cmd[..] {
                        return bad("command-lines", format!("command lines {:?} became {:?}", cmd, &content[..cmd.len().min(content.len())]));
                    }
                    if passing_blocks.is_some_and(|p| p.contains(&m.block)) {
                        let mut want = cmd.clone();
                        want.extend(body.iter().cloned());
                        if content != want.as_slice() {
                            return bad("passing-test-changed", format!("block of a passing test {:?} became {:?}", want, content));
                        }
                    }
                }
                j = next;
            }
            _ => {
                return bad("harness", "model inconsistency".into());
            }
        }
    }
    if j < ul.len() {
        // a closing fence may be added to an unterminated trailing block
        let open_ticks = match doc.blocks.last() {
            Some(Block::Foreign { terminated: false, fence, .. }) => Some(*fence),
            _ => None,
        };
        let rest = &ul[j..];
        let only_close = rest.len() == 1 && open_ticks.is_some_and(|t| rest[0] == "`".repeat(t));
        if !only_close {
            return bad("lines-added", format!("updated document has additional lines {:?}", &rest[..rest.len().min(4)]));
        }
    }
    None
}

fn drive(case: &C10Case) -> Step {
    let doc = &case.doc;
    if case.outcomes.is_empty() {
        return Step::Skip("no outcome kinds".into());
    }
    let exp = expect_md(doc);
    if exp.nocrash_only.is_some() || exp.must_err.is_some() {
        return Step::Skip("document outside C10's workload".into());
    }
    let text = doc.render();
    let tests = match parse_md(&text) {
        Ok(t) => t,
        Err(e) => return Step::Skip(format!("original document does not parse: {e}")),
    };
    if tests.is_empty() {
        return Step::Skip("no tests: update returns the document unchanged".into());
    }
    let outputs: Vec<Output> = tests
        .iter()
        .enumerate()
        .map(|(i, tc)| output_for(tc, &case.outcomes[i % case.outcomes.len()], i))
        .collect();
    let outcomes = outcomes_of(&tests, &outputs);
    let kinds: Vec<&'static str> = outcomes
        .iter()
        .map(|o| match &o.result {
            Ok(()) => "pass",
            Err(scrut::testcase::TestCaseError::MalformedOutput(_)) => "output",
            Err(scrut::testcase::TestCaseError::InvalidExitCode { .. }) => "code",
            Err(_) => "other",
        })
        .collect();
    let shells: Vec<String> = tests.iter().map(|t| t.shell_expression.clone()).collect();
    let updated = match update(&text, &outcomes) {
        Ok(u) => u,
        Err(e) => return Step::Skip(format!("generate_update returned an error: {e}")),
    };
    // which model blocks hold passing tests (only when the parser's tests are the model's tests)
    let mapped = exp.tests.len() == tests.len() && exp.tests.iter().zip(tests.iter()).all(|(m, t)| m.shell == t.shell_expression);
    let passing: Vec<usize> = if mapped {
        exp.tests.iter().zip(kinds.iter()).filter(|(_, k)| **k == "pass").map(|(m, _)| m.block).collect()
    } else {
        vec![]
    };
    if let Some((clause, detail)) = structure(doc, &updated, if mapped { Some(&passing) } else { None }) {
        return Step::Fail(clause, format!("{detail}; updated document: {:?}", clip(&updated, 400)));
    }
    // (4) same commands
    let tests2 = match parse_md(&updated) {
        Ok(t) => t,
        Err(e) => return Step::Fail("updated-not-parsed".into(), format!("updated document does not parse ({}): {:?}", clip(&e, 160), clip(&updated, 400))),
    };
    let shells2: Vec<String> = tests2.iter().map(|t| t.shell_expression.clone()).collect();
    if shells2 != shells {
        return Step::Fail("commands-changed".into(), format!("commands {:?} became {:?}; updated document: {:?}", shells, shells2, clip(&updated, 400)));
    }
    // (5) fixpoint
    let outcomes2 = outcomes_of(&tests2, &outputs);
    match update(&updated, &outcomes2) {
        Err(e) => return Step::Fail("second-update-error".into(), e),
        Ok(again) => {
            if again != updated {
                return Step::Fail(
                    "not-idempotent".into(),
                    format!("second update changes the document: {:?} -> {:?}", clip(&updated, 300), clip(&again, 300)),
                );
            }
        }
    }
    Step::Done(Driven { updated, kinds, shells })
}

fn shrink_case(case: &C10Case) -> Vec<C10Case> {
    let mut v: Vec<C10Case> = shrink_md(&case.doc)
        .into_iter()
        .filter(|d| md_wellformed(d).is_ok())
        .map(|d| C10Case {
            doc: d,
            outcomes: case.outcomes.clone(),
        })
        .collect();
    if case.outcomes.len() > 1 {
        for i in 0..case.outcomes.len() {
            let mut o = case.outcomes.clone();
            o.remove(i);
            v.push(C10Case {
                doc: case.doc.clone(),
                outcomes: o,
            });
        }
    }
    for (i, o) in case.outcomes.iter().enumerate() {
        if o != "pass" {
            let mut o2 = case.outcomes.clone();
            o2[i] = "pass".into();
            v.push(C10Case {
                doc: case.doc.clone(),
                outcomes: o2,
            });
        }
    }
    v
}

impl Monitor for C10 {
    type Case = C10Case;

    fn id(&self) -> &'static str {
        "C10"
    }

    fn plan(&self, tier: Tier) -> Plan {
        let mut p = Plan::new(
            tier.pick(8_000, 250_000),
            "documents from C06's block list with benign expectation text (every block kind around the tests, CRLF, unterminated trailing block) and at least one test; per-test outcome pass / changed output / changed exit code produced by really validating; non-trivial = the document has outside lines of >= 2 kinds and at least one test was rewritten; distinct = hash of (block-kind sequence, outcome kinds)",
        );
        p.floor_nontrivial = tier.pick(500, 5_000);
        p.floor_buckets = vec![
            ("updated".into(), tier.pick(1_000, 30_000)),
            ("outcome:pass".into(), tier.pick(500, 15_000)),
            ("outcome:output".into(), tier.pick(500, 15_000)),
            ("outcome:code".into(), tier.pick(500, 15_000)),
            ("fixpoint-checked".into(), tier.pick(1_000, 30_000)),
            ("passing-block-compared".into(), tier.pick(300, 10_000)),
            ("doc:crlf".into(), tier.pick(50, 2_000)),
        ];
        p.assumptions = vec![
            "in-process part only (`scrut update --replace` end to end is not driven here)".into(),
            "a document the parser rejects never reaches the update generator: out of scope".into(),
            "fence length and the blank between language and configuration may change; `{}` equals no configuration".into(),
            "output text is benign (syntax collisions are C09's subject)".into(),
        ];
        p
    }

    fn gen(&self, _env: &Env, _k: u64, rng: &mut Rng) -> C10Case {
        let opts = MdOpts {
            benign: true,
            invalid: false,
            undoc: false,
            truncate: true,
            max_blocks: 8,
            need_test: true,
        };
        let doc = gen_md(rng, &opts);
        let n = rng.range(1, 4);
        let outcomes = (0..n).map(|_| rng.pick(&["pass", "output", "code"]).to_string()).collect();
        C10Case { doc, outcomes }
    }

    fn check(&self, _env: &Env, case: &C10Case) -> Checked {
        if let Err(e) = md_wellformed(&case.doc) {
            return Checked::out_of_scope(format!("block list does not describe its rendering: {e}"));
        }
        let kinds = case.doc.kinds();
        let mut outside: Vec<&str> = kinds.iter().copied().filter(|k| *k != "scrut").collect();
        outside.sort();
        outside.dedup();
        let step = match guarded("C10", "parse / validate / generate_update", || drive(case)) {
            Ok(s) => s,
            Err(c) => return c,
        };
        match step {
            Step::Skip(reason) => {
                let b = if reason.starts_with("original document does not parse") {
                    "skip:parse-error"
                } else if reason.starts_with("no tests") {
                    "skip:no-tests"
                } else if reason.starts_with("generate_update") {
                    "skip:update-error"
                } else {
                    "skip:other"
                };
                Checked::out_of_scope(reason).bucket(b)
            }
            Step::Fail(clause, detail) => {
                let min = minimise(case, &shrink_case, &|c| matches!(quiet(|| drive(c)), Some(Step::Fail(_, _))), 200);
                let (clause, min_detail) = match quiet(|| drive(&min)) {
                    Some(Step::Fail(c, d)) => (c, d),
                    _ => (clause, detail.clone()),
                };
                let mut feats = min.doc.features();
                let mut oc: Vec<String> = min.outcomes.iter().filter(|o| *o != "pass").map(|o| format!("outcome:{o}")).collect();
                oc.sort();
                oc.dedup();
                feats.extend(oc);
                let sig = format!("C10/{clause}/{}", feats.join("+"));
                Checked::violated(
                    sig,
                    format!("{min_detail}; minimal document: {:?} with outcomes {:?}; on the full document: {}", min.doc.render(), min.outcomes, clip(&detail, 300)),
                )
            }
            Step::Done(d) => {
                let rewritten = d.kinds.iter().any(|k| *k != "pass");
                let shape = hash_str(&format!("{}|{}", kinds.join(","), d.kinds.join(",")));
                let mut c = Checked::held().shape(outside.len() >= 2 && rewritten, shape).bucket("updated").bucket("fixpoint-checked");
                for k in &d.kinds {
                    c = c.bucket(format!("outcome:{k}"));
                }
                let exp = expect_md(&case.doc);
                if exp.tests.len() == d.shells.len() && d.kinds.contains(&"pass") {
                    c = c.bucket("passing-block-compared");
                }
                if exp.tests.len() != d.shells.len() {
                    c = c.bucket("parser-disagrees-with-model");
                }
                if d.updated == case.doc.render() {
                    c = c.bucket("unchanged");
                } else if !rewritten {
                    // nothing failed, yet the text changed (fence, blank, CRLF): the near miss of "preserves"
                    c = c.bucket("near-miss:only-normalised");
                }
                if exp.err_ok.is_some() {
                    c = c.bucket("doc:unterminated").bucket("near-miss");
                }
                if case.doc.crlf {
                    c = c.bucket("doc:crlf");
                }
                for f in case.doc.features() {
                    if !f.starts_with("scrut:exp") {
                        c = c.bucket(format!("f:{f}"));
                    }
                }
                c
            }
        }
    }

    fn shrink(&self, case: &C10Case) -> Vec<C10Case> {
        shrink_case(case)
    }

    fn sample(&self, case: &C10Case) -> serde_json::Value {
        json!({
            "document": case.doc.render(),
            "outcomes": case.outcomes,
        })
    }
}
