use std::sync::Arc;

use crate::core::DynMonitor;
use crate::core::Erased;
use crate::core::Multi;

pub mod c01;
pub mod c02;
pub mod c03;
pub mod c04;
pub mod c04e;
pub mod c05;
pub mod c06;
pub mod c07;
pub mod c08;
pub mod c09;
pub mod c09e;
pub mod c10;
pub mod c10e;
pub mod c11;
pub mod c12;
pub mod c13;
pub mod c14;
pub mod c15;
pub mod c16;
pub mod c16e;
pub mod c17;
pub mod c18;
pub mod c19;
pub mod c19e;
pub mod cfgcommon;
pub mod c20;
pub mod diffcommon;
pub mod doccommon;
pub mod execcommon;
pub mod expcommon;
pub mod seqcommon;

pub fn by_id(id: &str) -> Option<Arc<dyn DynMonitor>> {
    Some(match id {
        "C01" => Arc::new(Erased(c01::C01)),
        "C02" => Arc::new(Erased(c02::C02)),
        "C03" => Arc::new(Erased(c03::C03)),
        "C04" => Arc::new(Multi {
            id: "C04",
            parts: vec![Arc::new(Erased(c04::C04)), Arc::new(Erased(c04e::C04e))],
        }),
        "C05" => Arc::new(Erased(c05::C05)),
        "C08" => Arc::new(Erased(c08::C08)),
        "C11" => Arc::new(Erased(c11::C11)),
        "C18" => Arc::new(Erased(c18::C18)),
        "C16" => Arc::new(Multi {
            id: "C16",
            parts: vec![Arc::new(Erased(c16::C16)), Arc::new(Erased(c16e::C16e))],
        }),
        "C17" => Arc::new(Erased(c17::C17)),
        "C12" => Arc::new(Erased(c12::C12)),
        "C13" => Arc::new(Erased(c13::C13)),
        "C14" => Arc::new(Erased(c14::C14)),
        "C15" => Arc::new(Erased(c15::C15)),
        "C20" => Arc::new(Erased(c20::C20)),
        "C06" => Arc::new(Erased(c06::C06)),
        "C07" => Arc::new(Erased(c07::C07)),
        "C09" => Arc::new(Multi {
            id: "C09",
            parts: vec![Arc::new(Erased(c09::C09)), Arc::new(Erased(c09e::C09e))],
        }),
        "C19" => Arc::new(Multi {
            id: "C19",
            parts: vec![Arc::new(Erased(c19::C19)), Arc::new(Erased(c19e::C19e))],
        }),
        "C10" => Arc::new(Multi {
            id: "C10",
            parts: vec![Arc::new(Erased(c10::C10)), Arc::new(Erased(c10e::C10e))],
        }),
        _ => return None,
    })
}
