use std::sync::Arc;

use crate::core::DynMonitor;
use crate::core::Erased;

pub mod c01;
pub mod c02;
pub mod c03;
pub mod diffcommon;

pub fn by_id(id: &str) -> Option<Arc<dyn DynMonitor>> {
    Some(match id {
        "C01" => Arc::new(Erased(c01::C01)),
        "C02" => Arc::new(Erased(c02::C02)),
        "C03" => Arc::new(Erased(c03::C03)),
        _ => return None,
    })
}
