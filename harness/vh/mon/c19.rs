//! C19 — every renderer handles every outcome and shows every difference (in-process part).
//!
//! Outcomes are produced by the real `TestCase::validate` on generated (test case, output) pairs,
//! plus the result kinds that validation cannot produce (timeout, skipped, internal error). Every
//! outcome carries a unique token in its title and in its command. The oracle compares what the
//! diff inside the outcome says with what each rendering shows.

use std::collections::HashMap;
use std::sync::Once;
use std::time::Duration;

use scrut::config::OutputStreamControl;
use scrut::config::TestCaseConfig;
use scrut::diff::DiffLine;
use scrut::escaping::Escaper;
use scrut::outcome::Outcome;
use scrut::output::ExitStatus;
use scrut::output::Output;
use scrut::parsers::parser::ParserType;
use scrut::renderers::diff::DiffRenderer;
use scrut::renderers::pretty::PrettyColorRenderer;
use scrut::renderers::pretty::PrettyMonochromeRenderer;
use scrut::renderers::renderer::Renderer;
use scrut::renderers::structured::JsonRenderer;
use scrut::renderers::structured::YamlRenderer;
use scrut::testcase::TestCase;
use scrut::testcase::TestCaseError;
use serde::Deserialize;
use serde::Serialize;
use serde_json::json;
use serde_json::Value;

use super::diffcommon::parse_exp;
use crate::core::*;
use crate::oracle::lang::split_lines;
use crate::rng::hash_bytes;
use crate::rng::show;
use crate::rng::Rng;

pub struct C19;

#[derive(Clone, Debug, Default, Serialize, Deserialize)]
pub struct OSpec {
    /// unique within the case; contained in the first line of the title
    pub token: String,
    /// unique within the case; contained in the command
    pub cmd_token: String,
    /// "validate" | "timeout" | "skipped" | "internal"
    pub kind: String,
    pub title: String,
    pub command: String,
    #[serde(default)]
    pub location: Option<String>,
    pub line_number: usize,
    #[serde(default)]
    pub exps: Vec<String>,
    #[serde(default, with = "crate::rng::hexbytes")]
    pub stdout: Vec<u8>,
    #[serde(default, with = "crate::rng::hexbytes")]
    pub stderr: Vec<u8>,
    /// exit code of the execution; None = no exit code (ExitStatus::Unknown)
    #[serde(default)]
    pub exit: Option<i32>,
    #[serde(default)]
    pub expect_exit: Option<i32>,
    /// expectations apply to stderr
    #[serde(default)]
    pub stderr_stream: bool,
    #[serde(default)]
    pub cram: bool,
    /// ASCII escaper instead of the Unicode one
    #[serde(default)]
    pub ascii: bool,
    /// message of an internal error
    #[serde(default)]
    pub message: String,
    #[serde(default)]
    pub family: String,
}

#[derive(Clone, Debug, Default, Serialize, Deserialize)]
pub struct C19Case {
    pub outcomes: Vec<OSpec>,
    pub surround: usize,
    pub absolute: bool,
    pub summarize: bool,
    pub json_pretty: bool,
}

// ---------------------------------------------------------------------------------------------
// text pools

const LINES: &[&[u8]] = &[
    b"a",
    b"b",
    b"ab",
    b"",
    b"a b",
    b"foo bar",
    b"c",
    "\u{fc}ber".as_bytes(),
    "\u{65e5}\u{672c}\u{8a9e}".as_bytes(),
    "e\u{301}x".as_bytes(),
    "\u{1f602} wide".as_bytes(),
    "\u{ff46}\u{ff55}\u{ff4c}\u{ff4c}".as_bytes(),
    "a\u{a0}".as_bytes(),
    "x\u{3000}".as_bytes(),
    "y\u{2003}".as_bytes(),
    "\u{e9}t\u{e9}\u{a0}\u{a0}".as_bytes(),
    "\u{a0}".as_bytes(),
    b"tr ",
    b"z \t",
    b" ",
    b"\t",
    b"tab\there",
    b"\x00",
    b"a\x1b[1mb\x1b[0m",
    b"a\rb",
    b"a\r",
    b"a\\b",
    "\u{200b}".as_bytes(),
    b"\x7f",
];

/// (expression, kind) for the random family
const EXPS: &[(&str, &str)] = &[
    ("a", ""),
    ("b", ""),
    ("ab", ""),
    ("", "equal"),
    ("a\u{a0}", ""),
    ("x\u{3000}", ""),
    ("tr ", ""),
    ("\u{65e5}\u{672c}\u{8a9e}", ""),
    ("a*", "glob"),
    ("*", "glob"),
    ("\u{65e5}*", "glob"),
    ("[ab]+", "regex"),
    (".*\u{fc}.*", "regex"),
    ("a\\tb", "escaped"),
    ("\\xff\\xfe", "escaped"),
    ("a", "no-eol"),
    ("z \\t", "escaped"),
];

const QUANTS: &[&str] = &["", "", "", "?", "*", "+"];

/// an expectation line that describes exactly `line` (written by the harness)
fn exact_exp(line: &[u8], no_eol: bool) -> String {
    let plain = std::str::from_utf8(line).ok().filter(|s| !s.chars().any(|c| c.is_control() || c == '\\' || c == '\u{200b}'));
    match plain {
        Some(s) if no_eol => format!("{s} (no-eol)"),
        Some(s) if s.ends_with(')') => format!("{s} (equal)"),
        Some(s) => s.to_string(),
        None => {
            let mut e = String::new();
            for &b in line {
                match b {
                    b'\\' => e.push_str("\\\\"),
                    0x20..=0x7e => e.push(b as char),
                    _ => e.push_str(&format!("\\x{:02x}", b)),
                }
            }
            if no_eol {
                // an escaped expectation cannot also say no-eol: describe it with a glob instead
                "* (glob)".to_string()
            } else {
                format!("{e} (escaped)")
            }
        }
    }
}

fn join(lines: &[Vec<u8>], final_newline: bool) -> Vec<u8> {
    let mut out = vec![];
    for (i, l) in lines.iter().enumerate() {
        out.extend_from_slice(l);
        if i + 1 < lines.len() || final_newline {
            out.push(b'\n');
        }
    }
    out
}

/// what a generated outcome may contain besides the common pool
#[derive(Clone, Copy)]
struct Flavour {
    /// invalid UTF-8 lines (the diff renderer refuses them: kept to a fraction of the cases)
    invalid: bool,
    /// 10^4 character lines
    long: bool,
}

fn rand_line(rng: &mut Rng, fl: Flavour) -> Vec<u8> {
    if fl.long && rng.chance(1, 8) {
        return if rng.bool() {
            vec![b'x'; 10_000]
        } else {
            let mut s = "\u{fc}".repeat(5_000);
            s.push('\u{a0}');
            s.into_bytes()
        };
    }
    if fl.invalid && rng.chance(1, 5) {
        return match rng.below(3) {
            0 => b"\xff\xfe".to_vec(),
            1 => b"ab\xc3".to_vec(),
            _ => (0..1 + rng.below(12)).map(|_| rng.byte()).filter(|b| *b != b'\n').collect(),
        };
    }
    rng.pick(LINES).to_vec()
}

fn rand_exp(rng: &mut Rng) -> String {
    let (e, k) = *rng.pick(EXPS);
    let q = *rng.pick(QUANTS);
    if k.is_empty() && q.is_empty() {
        e.to_string()
    } else {
        format!("{e} ({k}{q})")
    }
}

const TITLES: &[&str] = &[
    "{T} a plain title",
    "{T}",
    "{T} first line\nsecond line of the title\nthird",
    "{T} \u{fc}n\u{ef}c\u{f6}d\u{e9} \u{65e5}\u{672c}\u{8a9e} \u{1f602}",
    "{T} trailing blank \u{a0}",
    "title with the token at the end {T}",
    "{T} e\u{301} combining\r\nwith a CRLF inside",
];

const COMMANDS: &[&str] = &[
    "echo {C}",
    "{C}",
    "printf 'a\\nb\\n' | \\\n  grep {C} \\\n  | sort",
    "echo '\u{65e5}\u{672c}' {C}",
    "cmd --flag={C} \"quoted arg\"  ",
];

fn gen_outcome(rng: &mut Rng, i: usize, location: Option<String>, invalid_ok: bool) -> OSpec {
    let token = format!("Tk{i}x");
    let cmd_token = format!("Ck{i}x");
    let kind = ["validate", "timeout", "skipped", "internal"][rng.weighted(&[72, 9, 9, 10])];
    let max_line = if rng.chance(1, 5) { 100_000 } else { 300 };
    let mut o = OSpec {
        title: rng.pick(TITLES).replace("{T}", &token),
        command: rng.pick(COMMANDS).replace("{C}", &cmd_token),
        token,
        cmd_token,
        kind: kind.into(),
        location,
        line_number: 1 + rng.below(max_line),
        cram: rng.chance(1, 4),
        ascii: rng.chance(1, 3),
        exit: Some(0),
        ..Default::default()
    };
    let fl = Flavour {
        invalid: invalid_ok && rng.bool(),
        long: rng.chance(1, 16),
    };
    let mut lines: Vec<Vec<u8>> = vec![];
    let mut fin = true;
    let family = rng.weighted(&[18, 34, 20, 6, 6, 12, 4]);
    match family {
        // the output's own lines: passes
        0 | 1 | 5 => {
            let m = if family == 5 { 20 + rng.below(60) } else { rng.below(8) };
            lines = (0..m).map(|_| rand_line(rng, fl)).collect();
            fin = lines.is_empty() || !rng.chance(1, 5);
            o.exps = lines.iter().enumerate().map(|(j, l)| exact_exp(l, j + 1 == lines.len() && !fin)).collect();
            o.family = "own-lines".into();
            if family != 0 {
                // one to three line edits: near miss
                for _ in 0..1 + rng.below(3) {
                    match rng.below(4) {
                        0 if !lines.is_empty() => {
                            lines.remove(rng.below(lines.len()));
                        }
                        1 => {
                            let at = rng.below(lines.len() + 1);
                            lines.insert(at, rand_line(rng, fl));
                        }
                        2 if !lines.is_empty() => {
                            let at = rng.below(lines.len());
                            lines[at] = rand_line(rng, fl);
                        }
                        _ if !lines.is_empty() => {
                            let at = rng.below(lines.len());
                            let l = lines[at].clone();
                            lines.insert(at, l);
                        }
                        _ => {}
                    }
                }
                if rng.chance(1, 8) {
                    fin = !fin;
                }
                o.family = if family == 5 { "near-miss-long".into() } else { "near-miss".into() };
            }
        }
        2 => {
            o.exps = (0..rng.below(7)).map(|_| rand_exp(rng)).collect();
            lines = (0..rng.below(9)).map(|_| rand_line(rng, fl)).collect();
            fin = lines.is_empty() || !rng.chance(1, 5);
            o.family = "random".into();
        }
        3 => {
            lines = (0..1 + rng.below(5)).map(|_| rand_line(rng, fl)).collect();
            fin = !rng.chance(1, 4);
            o.family = "only-output".into();
        }
        4 => {
            o.exps = (0..1 + rng.below(5)).map(|_| rand_exp(rng)).collect();
            o.family = "only-expectations".into();
        }
        _ => {
            // many identical lines and a multiline expectation around a mismatch
            let base = rand_line(rng, fl);
            let m = 5 + rng.below(40);
            lines = (0..m).map(|_| base.clone()).collect();
            let at = rng.below(m);
            lines[at] = rand_line(rng, fl);
            o.exps = vec![format!("{} (+)", exact_exp(&base, false).trim_end_matches(" (equal)")), rand_exp(rng)];
            o.family = "multiline".into();
        }
    }
    let bytes = join(&lines, fin);
    let noise: Vec<u8> = if rng.chance(1, 3) { join(&[rand_line(rng, fl), rand_line(rng, fl)], rng.bool()) } else { vec![] };
    if rng.chance(1, 7) {
        o.stderr_stream = true;
        o.stderr = bytes;
        o.stdout = noise;
    } else {
        o.stdout = bytes;
        o.stderr = noise;
    }
    match rng.below(20) {
        0..=2 => {
            // exit code mismatch
            o.exit = Some(*rng.pick(&[1, 2, 127, 255, -1]));
            o.expect_exit = if rng.bool() { Some(0) } else { None };
        }
        3 => {
            o.exit = Some(3);
            o.expect_exit = Some(3);
        }
        4 => {
            o.exit = Some(0);
            o.expect_exit = Some(*rng.pick(&[1, 80, 255]));
        }
        5 => o.exit = None,
        _ => {}
    }
    if kind == "internal" {
        o.message = rng
            .pick(&["something broke in {E}", "first line {E}\nsecond line", "invalid utf-8 sequence {E} \u{fc}"])
            .replace("{E}", &format!("Ek{i}x"));
    }
    o
}

// ---------------------------------------------------------------------------------------------
// driving the real code

fn build(o: &OSpec) -> Result<Outcome, String> {
    let mut exps = vec![];
    for e in &o.exps {
        exps.push(parse_exp(e).ok_or_else(|| format!("expectation {e:?} does not parse"))?);
    }
    let tc = TestCase {
        title: o.title.clone(),
        shell_expression: o.command.clone(),
        expectations: exps,
        exit_code: o.expect_exit,
        line_number: o.line_number,
        config: TestCaseConfig {
            output_stream: if o.stderr_stream { Some(OutputStreamControl::Stderr) } else { None },
            ..Default::default()
        },
    };
    let streams = |status: ExitStatus| Output {
        stdout: o.stdout.clone().into(),
        stderr: o.stderr.clone().into(),
        exit_code: status,
    };
    let (output, result) = match o.kind.as_str() {
        "validate" => {
            let out = streams(o.exit.map(ExitStatus::Code).unwrap_or(ExitStatus::Unknown));
            let r = catch(|| tc.validate(&out)).map_err(|(loc, msg)| format!("validate panicked at {loc}: {msg}"))?;
            (out, r)
        }
        "timeout" => (streams(ExitStatus::Timeout(Duration::from_millis(1500))), Err(TestCaseError::Timeout)),
        "skipped" => (("", "", None).into(), Err(TestCaseError::Skipped)),
        "internal" => (streams(ExitStatus::Code(o.exit.unwrap_or(0))), Err(TestCaseError::InternalError(anyhow::anyhow!("{}", o.message)))),
        other => return Err(format!("unknown outcome kind {other}")),
    };
    Ok(Outcome {
        location: o.location.clone(),
        output,
        testcase: tc,
        format: if o.cram { ParserType::Cram } else { ParserType::Markdown },
        escaping: if o.ascii { Escaper::Ascii } else { Escaper::Unicode },
        result,
    })
}

fn kind_name(o: &Outcome) -> &'static str {
    match &o.result {
        Ok(()) => "success",
        Err(TestCaseError::MalformedOutput(_)) => "malformed_output",
        Err(TestCaseError::InvalidExitCode { .. }) => "invalid_exit_code",
        Err(TestCaseError::InternalError(_)) => "internal_error",
        Err(TestCaseError::Timeout) => "timeout",
        Err(TestCaseError::Skipped) => "skipped",
    }
}

/// what the diff inside a failed outcome says must be shown
struct Needles {
    /// (canonical form under the outcome's escaper, line as written)
    unmatched: Vec<(String, String)>,
    /// raw bytes of every unexpected line
    unexpected: Vec<Vec<u8>>,
}

fn needles(o: &Outcome) -> Option<Needles> {
    let Err(TestCaseError::MalformedOutput(diff)) = &o.result else {
        return None;
    };
    let mut n = Needles {
        unmatched: vec![],
        unexpected: vec![],
    };
    for l in &diff.lines {
        match l {
            DiffLine::UnmatchedExpectation { expectation, .. } => {
                n.unmatched.push((expectation.to_expression_string(&o.escaping), expectation.original_string()))
            }
            DiffLine::UnexpectedLines { lines } => n.unexpected.extend(lines.iter().map(|(_, b)| b.clone())),
            DiffLine::MatchedExpectation { .. } => {}
        }
    }
    Some(n)
}

// ---------------------------------------------------------------------------------------------
// oracle helpers (independent of scrut's helpers)

/// removes SGR sequences `ESC [ ... m`
fn strip_sgr(s: &str) -> String {
    let b = s.as_bytes();
    let mut out = Vec::with_capacity(b.len());
    let mut i = 0;
    while i < b.len() {
        if b[i] == 0x1b && i + 1 < b.len() && b[i + 1] == b'[' {
            let mut j = i + 2;
            while j < b.len() && (b[j].is_ascii_digit() || b[j] == b';') {
                j += 1;
            }
            if j < b.len() && b[j] == b'm' {
                i = j + 1;
                continue;
            }
        }
        out.push(b[i]);
        i += 1;
    }
    String::from_utf8_lossy(&out).into_owned()
}

const HIGHLIGHT: [char; 3] = ['\u{21a6}', '\u{23b5}', '\u{2370}'];

/// comparison key "up to trailing-blank highlighting": control characters are dropped (the
/// monochrome renderer strips them together with the colours), then the text without its trailing
/// run of white space / highlight symbols, and the length of that run
fn key(content: &str) -> (String, usize) {
    let clean: String = content.chars().filter(|c| !c.is_control()).collect();
    let trimmed = clean.trim_end_matches(|c: char| c.is_whitespace() || HIGHLIGHT.contains(&c));
    (trimmed.to_string(), clean.chars().count() - trimmed.chars().count())
}

/// rows of a pretty section: (symbol, content)
fn pretty_rows(section: &str) -> Vec<(char, &str)> {
    let mut rows = vec![];
    for line in section.split('\n') {
        if let Some(at) = line.find("  | ") {
            if !line[..at].chars().all(|c| c.is_ascii_digit() || c == ' ' || c == '+') {
                continue;
            }
            let rest = &line[at + 4..];
            let mut it = rest.chars();
            if let (Some(sym), Some(' ')) = (it.next(), it.next()) {
                rows.push((sym, &rest[sym.len_utf8() + 1..]));
            } else if let Some(sym) = rest.chars().next() {
                if rest.chars().count() == 1 {
                    rows.push((sym, ""));
                }
            }
        }
    }
    rows
}

fn without_final_newline(line: &[u8]) -> (&[u8], bool) {
    match line.last() {
        Some(b'\n') => (&line[..line.len() - 1], true),
        _ => (line, false),
    }
}

fn text_classes(bytes: &[u8], out: &mut Vec<&'static str>) {
    let mut add = |c: &'static str| {
        if !out.contains(&c) {
            out.push(c);
        }
    };
    match std::str::from_utf8(bytes) {
        Err(_) => add("invalid-utf8"),
        Ok(s) => {
            if !s.is_ascii() {
                add("multibyte");
            }
            if s.chars().any(|c| matches!(c as u32, 0x1100..=0x115f | 0x2e80..=0xa4cf | 0xac00..=0xd7a3 | 0xf900..=0xfaff | 0xfe30..=0xfe6f | 0xff00..=0xff60 | 0xffe0..=0xffe6 | 0x1f300..=0x1faff)) {
                add("wide");
            }
            if s.chars().any(|c| matches!(c as u32, 0x300..=0x36f)) {
                add("combining");
            }
            if s.ends_with('\u{a0}') {
                add("trail-nbsp");
            }
            if s.ends_with('\u{3000}') {
                add("trail-ideographic-space");
            }
            if s.ends_with('\u{2003}') {
                add("trail-em-space");
            }
            if s.ends_with(' ') || s.ends_with('\t') {
                add("trail-ascii-blank");
            }
            if s.chars().any(|c| c.is_control()) {
                add("control");
            }
            if s.is_empty() {
                add("empty");
            }
        }
    }
    if bytes.len() >= 5_000 {
        add("long");
    }
}

fn where_of(loc: &str) -> String {
    let file = loc.rsplit_once(':').map(|(f, _)| f).unwrap_or(loc);
    if file.contains("/rustc/") || file.contains("/library/") {
        return "std".into();
    }
    if let Some(i) = file.find("registry/src/") {
        let rest = &file[i + 13..];
        let mut parts = rest.split('/');
        parts.next();
        let krate = parts.next().unwrap_or("?");
        // drop the version: serde_json-1.0.151 -> serde_json
        let name = match krate.rsplit_once('-') {
            Some((n, v)) if v.starts_with(|c: char| c.is_ascii_digit()) => n,
            _ => krate,
        };
        return format!("dep:{name}");
    }
    match file.rfind("src/") {
        Some(i) => file[i..].to_string(),
        None => file.to_string(),
    }
}

fn msg_class(msg: &str) -> String {
    let cut = msg.find(['\'', '`', '"', ';']).unwrap_or(msg.len());
    let mut out = String::new();
    let mut in_digits = false;
    for c in msg[..cut].chars().take(70) {
        if c.is_ascii_digit() {
            if !in_digits {
                out.push('N');
            }
            in_digits = true;
        } else {
            in_digits = false;
            out.push(if c.is_whitespace() { '-' } else { c });
        }
    }
    out.trim_matches(|c: char| c == '-' || c == ':' || c == ';' || c == '(').to_string()
}

static FORCE_COLORS: Once = Once::new();

struct Ctx<'a> {
    specs: &'a [OSpec],
    outcomes: &'a [Outcome],
    needles: Vec<Option<Needles>>,
}

impl Ctx<'_> {
    fn failed_rendered(&self, i: usize) -> bool {
        // failed and not skipped: the pretty renderer gives it a section
        matches!(&self.outcomes[i].result, Err(e) if !matches!(e, TestCaseError::Skipped))
    }

    /// passed tests must not show up in pretty / diff renderings
    fn check_passed_absent(&self, renderer: &str, text: &str) -> Option<Checked> {
        for (i, o) in self.outcomes.iter().enumerate() {
            if o.result.is_ok() {
                let s = &self.specs[i];
                for t in [&s.token, &s.cmd_token] {
                    if !t.is_empty() && text.contains(t.as_str()) {
                        return Some(Checked::violated(
                            format!("C19/{renderer}/passed-test-rendered"),
                            format!("outcome #{i} passed, yet its token {t} occurs in the {renderer} rendering:\n{}", clip(text)),
                        ));
                    }
                }
            }
        }
        None
    }

    fn check_pretty(&self, renderer: &str, raw: &str) -> Option<Checked> {
        let text = strip_sgr(raw);
        if let Some(c) = self.check_passed_absent(renderer, &text) {
            return Some(c);
        }
        // section starts
        let mut starts: Vec<(usize, usize)> = vec![];
        for i in 0..self.outcomes.len() {
            if self.failed_rendered(i) && !self.specs[i].token.is_empty() {
                if let Some(p) = text.find(self.specs[i].token.as_str()) {
                    starts.push((p, i));
                }
            }
        }
        for (i, n) in self.needles.iter().enumerate() {
            let Some(n) = n else { continue };
            if n.unmatched.is_empty() && n.unexpected.is_empty() {
                continue;
            }
            let tok = &self.specs[i].token;
            if tok.is_empty() || !self.specs[i].title.contains(tok.as_str()) {
                continue; // a replayed case without tokens: sections cannot be told apart
            }
            let Some(&(start, _)) = starts.iter().find(|(_, j)| *j == i) else {
                return Some(Checked::violated(
                    format!("C19/{renderer}/failed-test-not-rendered"),
                    format!("outcome #{i} has differences but its title token {tok} is not in the rendering:\n{}", clip(&text)),
                ));
            };
            let end = starts.iter().map(|(p, _)| *p).filter(|p| *p > start).min().unwrap_or(text.len());
            let section = &text[start..end];
            let rows = pretty_rows(section);
            let mut minus: HashMap<(String, usize), usize> = HashMap::new();
            let mut plus: HashMap<(String, usize), usize> = HashMap::new();
            for (sym, content) in &rows {
                match sym {
                    '-' => *minus.entry(key(content)).or_insert(0) += 1,
                    '+' => *plus.entry(key(content)).or_insert(0) += 1,
                    _ => {}
                }
            }
            let n_minus: usize = minus.values().sum();
            let n_plus: usize = plus.values().sum();
            for (canonical, _) in &n.unmatched {
                let k = key(canonical);
                match minus.get_mut(&k) {
                    Some(c) if *c > 0 => *c -= 1,
                    _ => {
                        let cause = if n_minus < n.unmatched.len() { "row-missing" } else { "content-differs" };
                        return Some(Checked::violated(
                            format!("C19/{renderer}/unmatched-expectation-not-shown/{cause}"),
                            format!("outcome #{i}: unmatched expectation {canonical:?} has no `-` row in its section:\n{}", clip(section)),
                        ));
                    }
                }
            }
            let esc = &self.outcomes[i].escaping;
            // the unterminated line (two accepted spellings) first
            let mut order: Vec<&Vec<u8>> = n.unexpected.iter().collect();
            order.sort_by_key(|l| l.last() == Some(&b'\n'));
            for line in order {
                let (body, eol) = without_final_newline(line);
                // the escaped rendering of the line is data here (C11 decides whether it is right)
                let shown = esc.escaped_expectation(body);
                let mut accepted = vec![];
                if eol {
                    accepted.push(shown.clone());
                } else {
                    accepted.push(format!("{shown} (no-eol)"));
                    if let Some(stem) = shown.strip_suffix(" (escaped)") {
                        accepted.push(format!("{stem} (no-eol) (escaped)"));
                    }
                }
                let mut found = false;
                for a in &accepted {
                    if let Some(c) = plus.get_mut(&key(a)) {
                        if *c > 0 {
                            *c -= 1;
                            found = true;
                            break;
                        }
                    }
                }
                if !found {
                    let cause = if n_plus < n.unexpected.len() { "row-missing" } else { "content-differs" };
                    return Some(Checked::violated(
                        format!("C19/{renderer}/unexpected-line-not-shown/{cause}"),
                        format!("outcome #{i}: unexpected line {:?} (shown as {:?}) has no `+` row in its section:\n{}", show(line), accepted, clip(section)),
                    ));
                }
            }
        }
        None
    }

    fn check_diff(&self, text: &str) -> Option<Checked> {
        if let Some(c) = self.check_passed_absent("diff", text) {
            return Some(c);
        }
        // rows per outcome: lines that follow a hunk header carrying the outcome's title token
        let mut rows: Vec<HashMap<&str, usize>> = vec![HashMap::new(); self.outcomes.len()];
        let mut seen = vec![false; self.outcomes.len()];
        let mut owner: Option<usize> = None;
        for line in text.split('\n') {
            if line.starts_with("@@ -") {
                owner = (0..self.outcomes.len()).find(|i| !self.specs[*i].token.is_empty() && line.contains(self.specs[*i].token.as_str()));
                if let Some(o) = owner {
                    seen[o] = true;
                }
            } else if let Some(o) = owner {
                *rows[o].entry(line).or_insert(0) += 1;
            }
        }
        for (i, n) in self.needles.iter().enumerate() {
            let Some(n) = n else { continue };
            if n.unmatched.is_empty() && n.unexpected.is_empty() {
                continue;
            }
            let tok = &self.specs[i].token;
            // the diff renderer joins the lines of a title; the token is on the first one
            if tok.is_empty() || !self.specs[i].title.lines().next().unwrap_or("").contains(tok.as_str()) {
                continue;
            }
            if !seen[i] {
                return Some(Checked::violated(
                    "C19/diff/failed-test-not-rendered",
                    format!("outcome #{i} has differences but no hunk header carries its title token {tok}:\n{}", clip(text)),
                ));
            }
            let prefix = if self.specs[i].cram { "  " } else { "" };
            let total: usize = rows[i].values().sum();
            for (_, original) in &n.unmatched {
                let want = format!("-{prefix}{original}");
                match rows[i].get_mut(want.as_str()) {
                    Some(c) if *c > 0 => *c -= 1,
                    _ => {
                        let cause = if total < n.unmatched.len() + n.unexpected.len() { "row-missing" } else { "content-differs" };
                        return Some(Checked::violated(
                            format!("C19/diff/unmatched-expectation-not-shown/{cause}"),
                            format!("outcome #{i}: no row {want:?} in its hunks:\n{}", clip(text)),
                        ));
                    }
                }
            }
            for line in &n.unexpected {
                let (body, _) = without_final_newline(line);
                let Ok(s) = std::str::from_utf8(body) else { continue };
                let want = format!("+{prefix}{s}");
                // a line with an embedded CR/LF-free text is one row
                match rows[i].get_mut(want.as_str()) {
                    Some(c) if *c > 0 => *c -= 1,
                    _ => {
                        let cause = if total < n.unmatched.len() + n.unexpected.len() { "row-missing" } else { "content-differs" };
                        return Some(Checked::violated(
                            format!("C19/diff/unexpected-line-not-shown/{cause}"),
                            format!("outcome #{i}: no row {want:?} in its hunks:\n{}", clip(text)),
                        ));
                    }
                }
            }
        }
        None
    }

    fn check_structured(&self, renderer: &str, v: &Value) -> Option<Checked> {
        let Some(arr) = v.as_array() else {
            return Some(Checked::violated(format!("C19/{renderer}/not-a-list"), format!("top level is not a list: {}", clip(&v.to_string()))));
        };
        if arr.len() != self.outcomes.len() {
            return Some(Checked::violated(
                format!("C19/{renderer}/entry-count"),
                format!("{} entries for {} outcomes", arr.len(), self.outcomes.len()),
            ));
        }
        for (i, e) in arr.iter().enumerate() {
            let want = kind_name(&self.outcomes[i]);
            let got = e.get("result").and_then(|r| r.get("kind")).and_then(|k| k.as_str());
            if got != Some(want) {
                return Some(Checked::violated(
                    format!("C19/{renderer}/wrong-result-kind/{want}"),
                    format!("entry #{i}: result.kind is {got:?}, the outcome is {want}: {}", clip(&e.to_string())),
                ));
            }
            let tok = &self.specs[i].token;
            if !tok.is_empty() && self.specs[i].title.contains(tok.as_str()) {
                let title = if want == "success" { e.get("title") } else { e.get("testcase").and_then(|t| t.get("title")) };
                if !title.and_then(|t| t.as_str()).is_some_and(|t| t.contains(tok.as_str())) {
                    return Some(Checked::violated(
                        format!("C19/{renderer}/entry-not-for-outcome/{want}"),
                        format!("entry #{i} does not carry the title token {tok}: {}", clip(&e.to_string())),
                    ));
                }
            }
        }
        None
    }
}

fn clip(s: &str) -> String {
    let n = s.chars().count();
    if n <= 1500 {
        s.to_string()
    } else {
        let head: String = s.chars().take(1000).collect();
        let tail: String = s.chars().skip(n - 400).collect();
        format!("{head}\n[... {} characters ...]\n{tail}", n - 1400)
    }
}

fn shorten(l: &[u8]) -> Vec<Vec<u8>> {
    let mut v = vec![];
    if l.len() > 8 {
        v.push(l[..l.len() / 2].to_vec());
        v.push(l[l.len() / 2..].to_vec());
    } else {
        for i in 0..l.len() {
            let mut c = l.to_vec();
            c.remove(i);
            v.push(c);
        }
    }
    v
}

impl Monitor for C19 {
    type Case = C19Case;

    fn id(&self) -> &'static str {
        "C19"
    }

    fn plan(&self, tier: Tier) -> Plan {
        let mut p = Plan::new(
            tier.pick(20_000, 1_000_000),
            "cases = lists of 0..6 outcomes (real TestCase::validate on generated test case/output pairs from the families own-lines, near-miss, random, only-output, only-expectations, long near-miss, multiline; plus timeout, skipped and internal-error outcomes) with text classes multi-byte, wide, combining, trailing U+00A0/U+3000/U+2003/blank, control bytes, invalid UTF-8, 10^4-character lines, multi-line titles and commands; rendered by PrettyColor (colours forced, 0..8 surrounding lines, relative/absolute numbers, summary on/off), PrettyMonochrome, Diff, Json, Yaml; non-trivial = at least one outcome with malformed output; distinct = hash of (result kinds, diff line kinds per outcome, text classes of the shown lines, renderer settings)",
        );
        p.floor_nontrivial = tier.pick(1_500, 30_000);
        p.floor_buckets = vec![
            ("kind:malformed_output".into(), tier.pick(2_000, 100_000)),
            ("kind:success".into(), tier.pick(1_000, 50_000)),
            ("kind:invalid_exit_code".into(), tier.pick(400, 20_000)),
            ("kind:timeout".into(), tier.pick(400, 20_000)),
            ("kind:skipped".into(), tier.pick(400, 20_000)),
            ("kind:internal_error".into(), tier.pick(400, 20_000)),
            ("diffline:unmatched".into(), tier.pick(1_500, 75_000)),
            ("diffline:unexpected".into(), tier.pick(1_500, 75_000)),
            ("class:trail-nbsp".into(), tier.pick(100, 5_000)),
            ("class:wide".into(), tier.pick(200, 10_000)),
            ("class:long".into(), tier.pick(40, 2_000)),
            ("class:no-eol".into(), tier.pick(100, 5_000)),
            ("ok:pretty-color".into(), tier.pick(3_000, 150_000)),
            ("ok:diff".into(), tier.pick(2_000, 100_000)),
            ("ok:json".into(), tier.pick(3_000, 150_000)),
            ("ok:yaml".into(), tier.pick(3_000, 150_000)),
            ("pretty-color:has-colours".into(), tier.pick(1_500, 75_000)),
        ];
        p.assumptions = vec![
            "the end-to-end part (scrut test -r X, exit 50) is not covered by this in-process monitor".into(),
            "the canonical form of an expectation and the escaped form of an output line are taken as data (C08/C11 decide whether they are right)".into(),
            "locations are all-or-none (the diff renderer documents an error for mixed lists)".into(),
            "YAML is judged like JSON (well-formed, one entry per outcome, result kind, title token); whether it equals the JSON value is recorded as a bucket only".into(),
        ];
        p
    }

    fn gen(&self, env: &Env, _k: u64, rng: &mut Rng) -> C19Case {
        // invalid UTF-8 output lines make the diff renderer refuse the whole list (known): they are
        // confined to a fraction of the cases so that the other cases see every renderer
        let invalid_ok = rng.chance(1, env.tier.pick(25, 150));
        let n = match rng.below(20) {
            0 => 0,
            1..=6 => 1,
            _ => 2 + rng.below(5),
        };
        let with_locations = rng.chance(3, 4);
        let docs = 1 + rng.below(3);
        let outcomes = (0..n)
            .map(|i| {
                let loc = if with_locations {
                    let d = rng.below(docs);
                    Some(if d == 2 { format!("dir with space/Lk{d}x \u{fc}.md") } else { format!("tests/Lk{d}x.md") })
                } else {
                    None
                };
                gen_outcome(rng, i, loc, invalid_ok)
            })
            .collect();
        C19Case {
            outcomes,
            surround: rng.below(9),
            absolute: rng.bool(),
            summarize: rng.chance(3, 4),
            json_pretty: rng.bool(),
        }
    }

    fn check(&self, _env: &Env, case: &C19Case) -> Checked {
        // colours are decided once per process by the `console` crate: force them so that the colour
        // renderer really emits escape sequences although stdout is a pipe
        FORCE_COLORS.call_once(|| std::env::set_var("CLICOLOR_FORCE", "1"));

        let mut outcomes = vec![];
        for o in &case.outcomes {
            match build(o) {
                Ok(x) => outcomes.push(x),
                Err(e) => return Checked::out_of_scope(e).bucket("outcome-not-built"),
            }
        }
        let refs: Vec<&Outcome> = outcomes.iter().collect();
        let n_loc = outcomes.iter().filter(|o| o.location.is_some()).count();
        let mixed_locations = n_loc != 0 && n_loc != outcomes.len();
        let ctx = Ctx {
            specs: &case.outcomes,
            outcomes: &outcomes,
            needles: outcomes.iter().map(needles).collect(),
        };
        let mut c = Checked::held();

        let color = || PrettyColorRenderer {
            max_surrounding_lines: case.surround,
            absolute_line_numbers: case.absolute,
            summarize: case.summarize,
        };
        let renderers: Vec<(&str, Box<dyn Renderer>)> = vec![
            ("pretty-color", Box::new(color())),
            ("pretty-mono", Box::new(PrettyMonochromeRenderer::new(color()))),
            ("json", Box::new(JsonRenderer::new(case.json_pretty))),
            ("yaml", Box::new(YamlRenderer::new())),
            // last: its known refusal of non UTF-8 lines must not hide the other renderers
            ("diff", Box::new(DiffRenderer::new())),
        ];
        let mut json_value: Option<Value> = None;
        for (name, r) in &renderers {
            let text = match catch(|| r.render(&refs)) {
                Err((loc, msg)) => {
                    return Checked::violated(
                        format!("C19/panic/{name}/{}/{}", where_of(&loc), msg_class(&msg)),
                        format!("{name} renderer panicked at {loc}: {}", clip(&msg)),
                    );
                }
                Ok(Err(e)) => {
                    if *name == "diff" && mixed_locations {
                        c = c.bucket("diff:mixed-locations-refused");
                        continue;
                    }
                    let non_utf8 = ctx
                        .needles
                        .iter()
                        .flatten()
                        .any(|n| n.unexpected.iter().any(|l| std::str::from_utf8(l).is_err()));
                    let cause = if *name == "diff" && non_utf8 && format!("{e:#}").to_lowercase().contains("utf") {
                        "non-utf8-unexpected-line".to_string()
                    } else {
                        msg_class(&format!("{e:#}"))
                    };
                    return Checked::violated(format!("C19/render-err/{name}/{cause}"), format!("{name} renderer returns Err: {e:#}"));
                }
                Ok(Ok(t)) => t,
            };
            c = c.bucket(format!("ok:{name}"));
            let v = match *name {
                "pretty-color" => {
                    if text.contains("\u{1b}[") {
                        c = c.bucket("pretty-color:has-colours");
                    }
                    ctx.check_pretty(name, &text)
                }
                "pretty-mono" => ctx.check_pretty(name, &text),
                "diff" => ctx.check_diff(&text),
                "json" => match serde_json::from_str::<Value>(&text) {
                    Err(e) => Some(Checked::violated("C19/json/not-well-formed", format!("{e}: {}", clip(&text)))),
                    Ok(v) => {
                        let r = ctx.check_structured("json", &v);
                        json_value = Some(v);
                        r
                    }
                },
                _ => match serde_yaml::from_str::<Value>(&text) {
                    Err(e) => Some(Checked::violated("C19/yaml/not-well-formed", format!("{e}: {}", clip(&text)))),
                    Ok(v) => {
                        let r = ctx.check_structured("yaml", &v);
                        if r.is_none() {
                            c = c.bucket(if Some(&v) == json_value.as_ref() { "yaml-equals-json" } else { "yaml-differs-from-json" });
                        }
                        r
                    }
                },
            };
            if let Some(v) = v {
                return v;
            }
        }

        // evidence
        let mut shape: Vec<u8> = vec![case.surround as u8, case.absolute as u8, case.summarize as u8];
        let mut classes: Vec<&'static str> = vec![];
        let mut nontrivial = false;
        for (i, o) in outcomes.iter().enumerate() {
            let k = kind_name(o);
            c = c.bucket(format!("kind:{k}"));
            shape.extend_from_slice(k.as_bytes());
            shape.push(o.location.is_some() as u8);
            if let Err(TestCaseError::MalformedOutput(diff)) = &o.result {
                nontrivial = true;
                for l in &diff.lines {
                    match l {
                        DiffLine::MatchedExpectation { lines, .. } => {
                            shape.push(b'=');
                            shape.push(lines.len().min(3) as u8);
                        }
                        DiffLine::UnmatchedExpectation { .. } => shape.push(b'-'),
                        DiffLine::UnexpectedLines { lines } => {
                            shape.push(b'+');
                            shape.push(lines.len().min(3) as u8);
                        }
                    }
                }
                if let Some(n) = &ctx.needles[i] {
                    if !n.unmatched.is_empty() {
                        c = c.bucket("diffline:unmatched");
                    }
                    if !n.unexpected.is_empty() {
                        c = c.bucket("diffline:unexpected");
                    }
                    for (canonical, _) in &n.unmatched {
                        text_classes(canonical.as_bytes(), &mut classes);
                    }
                    for l in &n.unexpected {
                        let (body, eol) = without_final_newline(l);
                        text_classes(body, &mut classes);
                        if !eol && !classes.contains(&"no-eol") {
                            classes.push("no-eol");
                        }
                    }
                }
                if diff.lines.iter().any(|l| matches!(l, DiffLine::MatchedExpectation { .. })) {
                    c = c.bucket("diffline:matched");
                }
            }
            c = c.bucket(format!("family:{}", case.outcomes[i].family));
        }
        classes.sort();
        for cl in &classes {
            c = c.bucket(format!("class:{cl}"));
            shape.extend_from_slice(cl.as_bytes());
        }
        if outcomes.is_empty() {
            c = c.bucket("empty-list");
        }
        if case.outcomes.iter().any(|o| o.title.contains('\n')) {
            c = c.bucket("multi-line-title");
        }
        c = c.bucket(format!("surround:{}", case.surround));
        c.buckets.sort();
        c.buckets.dedup();
        c.shape(nontrivial, hash_bytes(&shape))
    }

    fn shrink(&self, case: &C19Case) -> Vec<C19Case> {
        let mut v = vec![];
        if case.outcomes.len() > 1 {
            for i in 0..case.outcomes.len() {
                let mut c = case.clone();
                c.outcomes = vec![case.outcomes[i].clone()];
                v.push(c);
            }
        }
        for i in 0..case.outcomes.len() {
            let mut c = case.clone();
            c.outcomes.remove(i);
            v.push(c);
        }
        for (i, o) in case.outcomes.iter().enumerate() {
            let mut push = |o2: OSpec| {
                let mut c = case.clone();
                c.outcomes[i] = o2;
                v.push(c);
            };
            for j in 0..o.exps.len() {
                let mut o2 = o.clone();
                o2.exps.remove(j);
                push(o2);
            }
            for which in 0..2 {
                let bytes = if which == 0 { &o.stdout } else { &o.stderr };
                let lines: Vec<Vec<u8>> = split_lines(bytes).iter().map(|l| l.to_vec()).collect();
                if lines.len() > 8 {
                    for half in 0..2 {
                        let keep = if half == 0 { &lines[..lines.len() / 2] } else { &lines[lines.len() / 2..] };
                        let mut o2 = o.clone();
                        if which == 0 {
                            o2.stdout = keep.concat();
                        } else {
                            o2.stderr = keep.concat();
                        }
                        push(o2);
                    }
                }
                for j in 0..lines.len().min(40) {
                    let mut keep = lines.clone();
                    keep.remove(j);
                    let mut o2 = o.clone();
                    if which == 0 {
                        o2.stdout = keep.concat();
                    } else {
                        o2.stderr = keep.concat();
                    }
                    push(o2);
                }
                for j in 0..lines.len().min(12) {
                    let (body, eol) = without_final_newline(&lines[j]);
                    for s in shorten(body) {
                        let mut keep = lines.clone();
                        let mut l = s;
                        if eol {
                            l.push(b'\n');
                        }
                        keep[j] = l;
                        let mut o2 = o.clone();
                        if which == 0 {
                            o2.stdout = keep.concat();
                        } else {
                            o2.stderr = keep.concat();
                        }
                        push(o2);
                    }
                }
            }
            if o.title != o.token {
                let mut o2 = o.clone();
                o2.title = o.token.clone();
                push(o2);
            }
            if o.command != o.cmd_token {
                let mut o2 = o.clone();
                o2.command = o.cmd_token.clone();
                push(o2);
            }
            if o.cram {
                let mut o2 = o.clone();
                o2.cram = false;
                push(o2);
            }
            if o.line_number != 1 {
                let mut o2 = o.clone();
                o2.line_number = 1;
                push(o2);
            }
            if o.expect_exit.is_some() || o.exit != Some(0) {
                let mut o2 = o.clone();
                o2.expect_exit = None;
                o2.exit = Some(0);
                push(o2);
            }
        }
        if case.outcomes.iter().any(|o| o.location.is_some()) {
            let mut c = case.clone();
            for o in &mut c.outcomes {
                o.location = None;
            }
            v.push(c);
        }
        if case.surround != 0 {
            v.push(C19Case { surround: 0, ..case.clone() });
        }
        if case.absolute {
            v.push(C19Case { absolute: false, ..case.clone() });
        }
        if case.summarize {
            v.push(C19Case { summarize: false, ..case.clone() });
        }
        v
    }

    fn sample(&self, case: &C19Case) -> Value {
        json!({
            "surrounding_lines": case.surround,
            "absolute_line_numbers": case.absolute,
            "summarize": case.summarize,
            "outcomes": case.outcomes.iter().map(|o| json!({
                "kind": o.kind,
                "family": o.family,
                "title": o.title,
                "command": o.command,
                "location": o.location,
                "line_number": o.line_number,
                "expectations": o.exps.iter().map(|e| if e.len() > 200 { format!("{}... ({} bytes)", e.chars().take(60).collect::<String>(), e.len()) } else { e.clone() }).collect::<Vec<_>>(),
                "stdout": clip(&show(&o.stdout)),
                "stderr": clip(&show(&o.stderr)),
                "exit": o.exit,
                "expected_exit": o.expect_exit,
                "stream": if o.stderr_stream { "stderr" } else { "stdout" },
                "format": if o.cram { "cram" } else { "markdown" },
                "escaper": if o.ascii { "ascii" } else { "unicode" },
            })).collect::<Vec<_>>(),
        })
    }
}
