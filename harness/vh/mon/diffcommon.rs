//! Shared workload and helpers for C01 / C02 / C03 (DiffTool).

use std::cell::RefCell;
use std::collections::HashMap;

use scrut::expectation::Expectation;
use scrut::expectation::ExpectationMaker;
use scrut::rules::registry::RuleRegistry;
use serde::Deserialize;
use serde::Serialize;
use serde_json::json;
use serde_json::Value;

use crate::oracle::lang::split_lines;
use crate::oracle::lang::Quant;
use crate::rng::hash_bytes;
use crate::rng::show;
use crate::rng::Rng;

#[derive(Clone, Debug, Serialize, Deserialize)]
pub struct DiffCase {
    /// expectation lines as written in a document
    pub exps: Vec<String>,
    /// output bytes
    #[serde(with = "crate::rng::hexbytes")]
    pub out: Vec<u8>,
    /// generator family (information only)
    #[serde(default)]
    pub family: String,
}

thread_local! {
    static CACHE: RefCell<HashMap<String, Option<Expectation>>> = RefCell::new(HashMap::new());
    static MAKER: ExpectationMaker = ExpectationMaker::new(RuleRegistry::default());
}

/// parse through the real parser, memoised per worker (the parser rebuilds a regex per call)
pub fn parse_exp(line: &str) -> Option<Expectation> {
    CACHE.with(|c| {
        if let Some(e) = c.borrow().get(line) {
            return e.clone();
        }
        let e = MAKER.with(|m| m.parse(line).ok());
        let mut c = c.borrow_mut();
        if c.len() > 50_000 {
            c.clear();
        }
        c.insert(line.to_string(), e.clone());
        e
    })
}

/// expression pool: (expression, kind suffix without quantifier)
pub const POOL: &[(&str, &str)] = &[
    ("a", ""),
    ("b", ""),
    ("ab", ""),
    ("c", ""),
    ("", "equal"),
    ("a b", ""),
    ("a*", "glob"),
    ("?", "glob"),
    ("*", "glob"),
    ("*b", "glob"),
    ("[ab]", "regex"),
    (".*", "regex"),
    ("a+b?", "regex"),
    ("[^a]*", "regex"),
    ("a\\tb", "escaped"),
    ("\\xff\\xfe", "escaped"),
    ("a", "no-eol"),
    ("b", "no-eol"),
    ("a*", "gl"),
    ("c", "eq"),
];

pub const QUANTS: &[&str] = &["", "?", "*", "+"];

pub fn exp_line(expr: &str, kind: &str, quant: &str) -> String {
    if kind.is_empty() && quant.is_empty() {
        expr.to_string()
    } else {
        format!("{expr} ({kind}{quant})")
    }
}

/// alphabet of output lines (without terminator)
pub const ALPHA: &[&[u8]] = &[b"a", b"b", b"ab", b"c", b"", b"a b", b"aab", b"a\tb", b"\xff\xfe", b"ba"];
pub const HOSTILE: &[&[u8]] = &[b"\x00", b"a\r", b"\xff", b"\xc3", b"a\x00b", b"\x1b[0m", b" ", b"a ", b"\xe2\x82\xac"];

pub fn join_lines(lines: &[Vec<u8>], final_newline: bool) -> Vec<u8> {
    let mut out = vec![];
    for (i, l) in lines.iter().enumerate() {
        out.extend_from_slice(l);
        if i + 1 < lines.len() || final_newline {
            out.push(b'\n');
        }
    }
    out
}

fn rand_quant(rng: &mut Rng) -> &'static str {
    QUANTS[rng.weighted(&[5, 2, 2, 2])]
}

fn rand_exp(rng: &mut Rng, pool_size: usize) -> String {
    let (e, k) = POOL[rng.below(pool_size.min(POOL.len()))];
    exp_line(e, k, rand_quant(rng))
}

fn rand_line(rng: &mut Rng, alpha_size: usize, hostile: bool) -> Vec<u8> {
    if hostile && rng.chance(1, 6) {
        rng.pick(HOSTILE).to_vec()
    } else {
        ALPHA[rng.below(alpha_size.min(ALPHA.len()))].to_vec()
    }
}

/// sample a word of the language of `exps` (lines that the expectations match), if possible
fn sample_member(rng: &mut Rng, exps: &[String], alpha_size: usize) -> Option<Vec<Vec<u8>>> {
    let mut lines = vec![];
    for e in exps {
        let exp = parse_exp(e)?;
        let candidates: Vec<Vec<u8>> = ALPHA[..alpha_size.min(ALPHA.len())]
            .iter()
            .filter(|l| {
                let mut x = l.to_vec();
                x.push(b'\n');
                exp.matches(&x)
            })
            .map(|l| l.to_vec())
            .collect();
        let count = match (exp.optional, exp.multiline) {
            (false, false) => 1,
            (true, false) => rng.below(2),
            (false, true) => 1 + rng.below(3),
            (true, true) => rng.below(4),
        };
        for _ in 0..count {
            if candidates.is_empty() {
                return None;
            }
            lines.push(rng.pick(&candidates).clone());
        }
    }
    Some(lines)
}

/// complete sweep of small shapes: <= 3 expectations (6 expressions x 4 quantifiers) x <= 4 lines over {a, b, ab},
/// with and without final newline. Case k of 0..SWEEP_SIZE is decoded, not drawn.
pub const SWEEP_EXPRS: &[(&str, &str)] = &[("a", ""), ("b", ""), ("ab", ""), ("a*", "glob"), ("?", "glob"), ("[ab]", "regex")];
pub const SWEEP_LINES: &[&[u8]] = &[b"a", b"b", b"ab"];
pub const SWEEP_SIZE: u64 = (1 + 24 + 24 * 24 + 24 * 24 * 24) * (1 + 3 + 9 + 27 + 81) * 2;

pub fn sweep_case(mut k: u64) -> DiffCase {
    let fin = k % 2 == 0;
    k /= 2;
    let line_shapes: u64 = 1 + 3 + 9 + 27 + 81;
    let mut l = k % line_shapes;
    k /= line_shapes;
    let mut m = 0u32;
    let mut block = 1u64;
    while l >= block {
        l -= block;
        block *= 3;
        m += 1;
    }
    let mut lines = vec![];
    for _ in 0..m {
        lines.push(SWEEP_LINES[(l % 3) as usize].to_vec());
        l /= 3;
    }
    let mut n = 0u32;
    let mut block = 1u64;
    while k >= block {
        k -= block;
        block *= 24;
        n += 1;
    }
    let mut exps = vec![];
    for _ in 0..n {
        let e = (k % 24) as usize;
        k /= 24;
        let (expr, kind) = SWEEP_EXPRS[e / 4];
        exps.push(exp_line(expr, kind, QUANTS[e % 4]));
    }
    let fin = fin || lines.is_empty();
    DiffCase {
        exps,
        out: join_lines(&lines, fin),
        family: "sweep".into(),
    }
}

pub fn gen_case(rng: &mut Rng, hostile_bytes: bool, thorough: bool) -> DiffCase {
    let family = rng.weighted(&[30, 30, 5, 8, 12, 15, 4]);
    // a small expression pool and alphabet make overlapping match sets likely
    let pool_size = *rng.pick(&[4usize, 8, 12, POOL.len()]);
    let alpha_size = *rng.pick(&[3usize, 4, 6, ALPHA.len()]);
    match family {
        // uniform random
        0 => {
            let n = rng.below(9);
            let m = rng.below(13);
            let exps = (0..n).map(|_| rand_exp(rng, pool_size)).collect();
            let lines: Vec<Vec<u8>> = (0..m).map(|_| rand_line(rng, alpha_size, hostile_bytes)).collect();
            let fin = lines.is_empty() || !rng.chance(1, 5);
            DiffCase {
                exps,
                out: join_lines(&lines, fin),
                family: "uniform".into(),
            }
        }
        // member then mutate by one line edit
        1 => {
            let n = 1 + rng.below(7);
            let exps: Vec<String> = (0..n).map(|_| rand_exp(rng, pool_size)).collect();
            let mut lines = sample_member(rng, &exps, alpha_size)
                .unwrap_or_else(|| (0..rng.below(6)).map(|_| rand_line(rng, alpha_size, false)).collect());
            let family = match rng.below(5) {
                0 => "member".to_string(),
                1 if !lines.is_empty() => {
                    lines.remove(rng.below(lines.len()));
                    "near-delete".into()
                }
                2 if !lines.is_empty() => {
                    let i = rng.below(lines.len());
                    let l = lines[i].clone();
                    lines.insert(i, l);
                    "near-duplicate".into()
                }
                3 => {
                    let i = rng.below(lines.len() + 1);
                    lines.insert(i, rand_line(rng, alpha_size, hostile_bytes));
                    "near-insert".into()
                }
                _ if !lines.is_empty() => {
                    let i = rng.below(lines.len());
                    lines[i] = rand_line(rng, alpha_size, hostile_bytes);
                    "near-replace".into()
                }
                _ => "member".into(),
            };
            let fin = lines.is_empty() || !rng.chance(1, 6);
            DiffCase {
                exps,
                out: join_lines(&lines, fin),
                family,
            }
        }
        // long tails
        2 => {
            let n = 1 + rng.below(3);
            let mut exps: Vec<String> = (0..n)
                .map(|_| {
                    let (e, k) = POOL[rng.below(POOL.len())];
                    exp_line(e, k, *rng.pick(&["*", "+", "+", ""]))
                })
                .collect();
            if rng.bool() {
                exps.push(rand_exp(rng, pool_size));
            }
            let m = if thorough { rng.range(50, 2000) } else { rng.range(20, 300) };
            let base = rand_line(rng, alpha_size, false);
            let lines: Vec<Vec<u8>> = (0..m)
                .map(|_| if rng.chance(1, 40) { rand_line(rng, alpha_size, hostile_bytes) } else { base.clone() })
                .collect();
            DiffCase {
                exps,
                out: join_lines(&lines, rng.chance(4, 5)),
                family: "long-tail".into(),
            }
        }
        // degenerate
        3 => {
            let which = rng.below(4);
            let (exps, lines): (Vec<String>, Vec<Vec<u8>>) = match which {
                0 => (vec![], (0..rng.below(5)).map(|_| rand_line(rng, alpha_size, hostile_bytes)).collect()),
                1 => ((0..rng.below(6)).map(|_| rand_exp(rng, pool_size)).collect(), vec![]),
                2 => (
                    (0..1 + rng.below(5))
                        .map(|_| {
                            let (e, k) = POOL[rng.below(pool_size)];
                            exp_line(e, k, *rng.pick(&["?", "*"]))
                        })
                        .collect(),
                    (0..rng.below(4)).map(|_| rand_line(rng, alpha_size, false)).collect(),
                ),
                _ => (vec![], vec![]),
            };
            let fin = lines.is_empty() || rng.bool();
            DiffCase {
                exps,
                out: join_lines(&lines, fin),
                family: "degenerate".into(),
            }
        }
        // pairwise disjoint match sets with every quantifier vector
        4 => {
            let disjoint: &[(&str, &str)] = &[("a", ""), ("b", ""), ("c", ""), ("ab", ""), ("a b", ""), ("", "equal")];
            let n = 1 + rng.below(6);
            let exps: Vec<String> = (0..n)
                .map(|_| {
                    let (e, k) = *rng.pick(disjoint);
                    exp_line(e, k, rand_quant(rng))
                })
                .collect();
            let mut lines = sample_member(rng, &exps, 6).unwrap_or_default();
            let family = if rng.chance(1, 3) && !lines.is_empty() {
                let i = rng.below(lines.len());
                if rng.bool() {
                    lines.remove(i);
                } else {
                    lines[i] = rand_line(rng, 6, false);
                }
                "disjoint-near"
            } else {
                "disjoint-member"
            };
            DiffCase {
                exps,
                out: join_lines(&lines, true),
                family: family.into(),
            }
        }
        // the output is the text of the expectation lines themselves, annotations included
        // (`ready (regex)` printed as `ready (regex)`): a shortcut that compares texts is wrong
        6 => {
            let n = 1 + rng.below(4);
            let exps: Vec<String> = (0..n).map(|_| rand_exp(rng, pool_size)).collect();
            let lines: Vec<Vec<u8>> = exps.iter().map(|e| e.as_bytes().to_vec()).collect();
            DiffCase {
                exps,
                out: join_lines(&lines, rng.bool()),
                family: "as-written".into(),
            }
        }
        // the output's own lines as expectations (must always pass)
        _ => {
            let m = rng.below(10);
            let lines: Vec<Vec<u8>> = (0..m)
                .map(|_| {
                    if rng.chance(1, 3) {
                        // arbitrary bytes without LF
                        (0..rng.below(8)).map(|_| rng.byte()).filter(|b| *b != b'\n').collect()
                    } else {
                        rand_line(rng, ALPHA.len(), true)
                    }
                })
                .collect();
            let fin = lines.is_empty() || !rng.chance(1, 4);
            let exps = lines
                .iter()
                .enumerate()
                .map(|(i, l)| own_line_expectation(l, i + 1 == lines.len() && !fin))
                .collect();
            DiffCase {
                exps,
                out: join_lines(&lines, fin),
                family: "own-lines".into(),
            }
        }
    }
}

/// an expectation line that describes exactly `line` (harness-made, not scrut's escaper)
pub fn own_line_expectation(line: &[u8], no_eol: bool) -> String {
    let plain = std::str::from_utf8(line)
        .ok()
        .filter(|s| s.chars().all(|c| (' '..='~').contains(&c)) && !s.ends_with(')'));
    match plain {
        Some(s) if !no_eol => format!("{s} (equal)"),
        Some(s) => format!("{s} (no-eol)"),
        None => {
            let mut e = String::new();
            for &b in line {
                match b {
                    b'\\' => e.push_str("\\\\"),
                    0x20..=0x7e => e.push(b as char),
                    _ => e.push_str(&format!("\\x{:02x}", b)),
                }
            }
            format!("{e} (escaped)")
        }
    }
}

pub struct Prepared {
    pub exps: Vec<Expectation>,
    pub quants: Vec<Quant>,
    pub matrix: Vec<Vec<bool>>,
    pub n_lines: usize,
}

/// parse the expectations and compute the match matrix with the real `matches`
pub fn prepare(case: &DiffCase) -> Option<Prepared> {
    let exps: Vec<Expectation> = case.exps.iter().map(|l| parse_exp(l)).collect::<Option<Vec<_>>>()?;
    let lines = split_lines(&case.out);
    let quants = exps
        .iter()
        .map(|e| Quant {
            optional: e.optional,
            multiline: e.multiline,
        })
        .collect();
    let matrix = exps.iter().map(|e| lines.iter().map(|l| e.matches(l)).collect()).collect();
    Some(Prepared {
        exps,
        quants,
        matrix,
        n_lines: lines.len(),
    })
}

pub fn shape_hash(p: &Prepared, out: &[u8]) -> u64 {
    let mut buf: Vec<u8> = vec![];
    for q in &p.quants {
        buf.push(q.optional as u8 | (q.multiline as u8) << 1);
    }
    buf.push(0xff);
    for row in &p.matrix {
        for b in row {
            buf.push(*b as u8);
        }
        buf.push(2);
    }
    buf.push(out.last().map(|b| (*b == b'\n') as u8).unwrap_or(3));
    hash_bytes(&buf)
}

pub fn sample(case: &DiffCase) -> Value {
    json!({"family": case.family, "expectations": case.exps, "output": show(&case.out)})
}

/// greedy shrink candidates: drop one expectation, drop one line
pub fn shrink(case: &DiffCase) -> Vec<DiffCase> {
    let mut v = vec![];
    for i in 0..case.exps.len() {
        let mut c = case.clone();
        c.exps.remove(i);
        v.push(c);
    }
    let lines = split_lines(&case.out);
    if lines.len() > 40 {
        // halves first
        for half in 0..2 {
            let keep: Vec<&[u8]> = if half == 0 { lines[..lines.len() / 2].to_vec() } else { lines[lines.len() / 2..].to_vec() };
            let mut c = case.clone();
            c.out = keep.concat();
            v.push(c);
        }
    }
    for i in 0..lines.len().min(60) {
        let mut c = case.clone();
        let mut keep = lines.clone();
        keep.remove(i);
        c.out = keep.concat();
        v.push(c);
    }
    v
}
