//! C04 — each expectation kind matches exactly the documented lines.
//!
//! Expressions are structures (text, escape tokens, glob tokens, regex AST); the text given to scrut is
//! rendered from the structure and the expected verdict comes from `oracle::rulematch` (own glob DP, own
//! position-set regex evaluator, own escape decoder). Both the default registry and the Cram-compat registry
//! (`CramGlobRule` registered for `glob`/`gl`, as the binary does) are driven.

use serde::Deserialize;
use serde::Serialize;
use serde_json::json;
use serde_json::Value;

use super::expcommon::*;
use crate::core::*;
use crate::oracle::rulematch::*;
use crate::rng::hash_str;
use crate::rng::show;
use crate::rng::Rng;

pub struct C04;

#[derive(Clone, Debug, PartialEq, Serialize, Deserialize)]
pub enum Spec {
    Equal(String),
    NoEol(String),
    Escaped(Vec<EscTok>),
    Glob(Vec<GlobTok>),
    /// `<escape tokens> (escaped) (glob)`: the tokens decode to the glob text; bool = short marker ` (esc)`
    EscGlob(Vec<EscTok>, bool),
    Regex(Re),
    /// arbitrary text under the given kind: no-panic clause only
    Raw(String),
}

#[derive(Clone, Debug, PartialEq, Serialize, Deserialize)]
pub struct Line {
    #[serde(with = "crate::rng::hexbytes")]
    pub bytes: Vec<u8>,
    /// relation to the expression (member, edit, ext-left, ...): information only
    pub rel: String,
}

#[derive(Clone, Debug, PartialEq, Serialize, Deserialize)]
pub struct C04Case {
    pub spec: Spec,
    /// kind name written in the suffix (alias or canonical)
    pub alias: String,
    /// Cram-compat registry?
    pub cram: bool,
    pub lines: Vec<Line>,
}

fn canonical(alias: &str) -> &'static str {
    KINDS.iter().find(|(a, _)| *a == alias).map(|(_, c)| *c).unwrap_or("equal")
}

const ESC_MARKERS: &[&str] = &[" (escaped)", " \\(escaped\\)", " (esc)", " \\(esc\\)"];

fn expr_text(spec: &Spec) -> String {
    match spec {
        Spec::Equal(s) | Spec::NoEol(s) | Spec::Raw(s) => s.clone(),
        Spec::Escaped(t) => esc_render(t),
        Spec::Glob(t) => glob_render(t),
        Spec::EscGlob(t, short) => format!("{}{}", esc_render(t), if *short { " (esc)" } else { " (escaped)" }),
        Spec::Regex(r) => re_render(r),
    }
}

pub fn expectation_line(case: &C04Case) -> String {
    format!("{} ({})", expr_text(&case.spec), case.alias)
}

/// the glob token list an EscGlob stands for
fn escglob_tokens(t: &[EscTok], cram: bool) -> Option<Vec<GlobTok>> {
    // a decoded `*`, `?` or backslash that was not written as itself has no documented reading
    for x in t {
        let v = match x {
            EscTok::Hex(v, _) | EscTok::Oct(v) => *v,
            EscTok::Backslash => b'\\',
            _ => continue,
        };
        if matches!(v, b'*' | b'?' | b'\\' | b'\n') {
            return None;
        }
    }
    let bytes = esc_decode(t)?;
    let text = String::from_utf8(bytes).ok()?;
    if text.contains('\n') {
        return None;
    }
    let toks = glob_parse(&text, cram);
    glob_unambiguous(&toks, cram).then_some(toks)
}

/// is the meaning of the expression fixed by the documentation (otherwise: no-panic clause only)
fn specified(case: &C04Case) -> bool {
    let text = expr_text(&case.spec);
    if text.contains('\n') {
        return false;
    }
    match &case.spec {
        Spec::Equal(_) => canonical(&case.alias) == "equal",
        Spec::NoEol(_) => canonical(&case.alias) == "no-eol",
        Spec::Escaped(t) => {
            canonical(&case.alias) == "escaped"
                && esc_decode(t).is_some_and(|b| !b.contains(&b'\n'))
                // Cram compatibility: a trailing ` (no-eol)` is dropped from escaped expressions
                && !text.ends_with(" (no-eol)")
        }
        Spec::Glob(t) => {
            canonical(&case.alias) == "glob"
                && glob_unambiguous(t, case.cram)
                // documented combination `(escaped) (glob)` is a different family
                && !ESC_MARKERS.iter().any(|m| text.ends_with(m))
        }
        Spec::EscGlob(t, _) => canonical(&case.alias) == "glob" && escglob_tokens(t, case.cram).is_some(),
        Spec::Regex(r) => canonical(&case.alias) == "regex" && re_wellformed(r) && re_size(r) <= 40,
        Spec::Raw(_) => false,
    }
}

/// documented verdict for one line; None = not specified for this line
fn oracle(case: &C04Case, line: &[u8]) -> Option<bool> {
    if line.iter().rev().skip(1).any(|b| *b == b'\n') {
        return None; // not a line
    }
    let content = strip_final_newline(line);
    match &case.spec {
        Spec::Equal(s) => Some(line.len() == s.len() + 1 && &line[..s.len()] == s.as_bytes() && line[s.len()] == b'\n'),
        Spec::NoEol(s) => Some(line == s.as_bytes()),
        Spec::Escaped(t) => Some(content == &esc_decode(t)?[..]),
        Spec::Glob(t) => Some(glob_match(t, &scalars(valid_utf8(content)?))),
        Spec::EscGlob(t, _) => Some(glob_match(&escglob_tokens(t, case.cram)?, &scalars(valid_utf8(content)?))),
        Spec::Regex(r) => re_full_match(r, &scalars(valid_utf8(content)?)),
        Spec::Raw(_) => None,
    }
}

#[derive(Clone, Debug, PartialEq)]
enum Outcome {
    Agree,
    Unspecified,
    ParseError(String),
    Mismatch { line: usize, got: bool, want: bool },
}

impl Outcome {
    fn class(&self) -> u8 {
        match self {
            Outcome::Agree | Outcome::Unspecified => 0,
            Outcome::ParseError(_) => 1,
            Outcome::Mismatch { .. } => 2,
        }
    }
}

/// drive scrut on the case; `judged` / `members` count what was compared
fn drive(case: &C04Case, judged: &mut usize, accepted: &mut usize) -> Outcome {
    let spec_ok = specified(case);
    let exp = match parse_with(case.cram, &expectation_line(case)) {
        Ok(e) => e,
        Err(e) => {
            return if spec_ok { Outcome::ParseError(e) } else { Outcome::Unspecified };
        }
    };
    let mut first = None;
    for (i, l) in case.lines.iter().enumerate() {
        let got = exp.matches(&l.bytes);
        if !spec_ok {
            continue;
        }
        if let Some(want) = oracle(case, &l.bytes) {
            *judged += 1;
            if want {
                *accepted += 1;
            }
            if got != want && first.is_none() {
                first = Some(Outcome::Mismatch { line: i, got, want });
            }
        }
    }
    match first {
        Some(m) => m,
        None if spec_ok => Outcome::Agree,
        None => Outcome::Unspecified,
    }
}

fn kind_tag(case: &C04Case) -> String {
    match &case.spec {
        Spec::Equal(_) => "equal".into(),
        Spec::NoEol(_) => "no-eol".into(),
        Spec::Escaped(_) => "escaped".into(),
        Spec::Glob(_) => if case.cram { "glob-cram" } else { "glob" }.into(),
        Spec::EscGlob(..) => if case.cram { "escaped-glob-cram" } else { "escaped-glob" }.into(),
        Spec::Regex(_) => "regex".into(),
        Spec::Raw(_) => format!("raw-{}", canonical(&case.alias)),
    }
}

fn push_tag(v: &mut Vec<String>, t: &str) {
    if !v.iter().any(|x| x == t) {
        v.push(t.to_string());
    }
}

fn char_tag(c: char, v: &mut Vec<String>, prefix: &str) {
    if c == '\\' {
        push_tag(v, &format!("{prefix}backslash"));
    } else if !c.is_ascii() {
        push_tag(v, &format!("{prefix}nonascii"));
    } else if (c as u32) < 0x20 || c as u32 == 0x7f {
        push_tag(v, &format!("{prefix}control"));
    }
}

fn esc_tags(t: &[EscTok], v: &mut Vec<String>) {
    for x in t {
        match x {
            EscTok::Lit(c) => char_tag(*c, v, "lit-"),
            EscTok::Backslash => push_tag(v, "esc-backslash"),
            EscTok::Named(_) => push_tag(v, "esc-named"),
            EscTok::Hex(_, m) => push_tag(v, if *m != 0 { "esc-hex-upper" } else { "esc-hex" }),
            EscTok::Oct(_) => push_tag(v, "esc-oct"),
            EscTok::Unknown(_) => push_tag(v, "esc-unknown"),
        }
    }
}

/// structural tags of the expression
fn spec_tags(spec: &Spec) -> Vec<String> {
    let mut v = vec![];
    match spec {
        Spec::Equal(s) | Spec::NoEol(s) | Spec::Raw(s) => {
            for c in s.chars() {
                char_tag(c, &mut v, "");
            }
            if let Some(t) = paren_tail(s.as_bytes()) {
                push_tag(&mut v, &format!("tail={t}"));
            }
        }
        Spec::Escaped(t) => esc_tags(t, &mut v),
        Spec::Glob(t) => {
            for x in t {
                match x {
                    GlobTok::Lit(c) => char_tag(*c, &mut v, "lit-"),
                    GlobTok::One => push_tag(&mut v, "one"),
                    GlobTok::Many => push_tag(&mut v, "many"),
                    GlobTok::Esc(_) => push_tag(&mut v, "esc"),
                }
            }
        }
        Spec::EscGlob(t, _) => {
            for x in t {
                match x {
                    EscTok::Lit('*') => push_tag(&mut v, "many"),
                    EscTok::Lit('?') => push_tag(&mut v, "one"),
                    _ => {}
                }
            }
            esc_tags(t, &mut v);
        }
        Spec::Regex(r) => {
            re_tags(r, true, &mut v);
            let text = re_render(r);
            if let Some(i) = text.find("<<<<") {
                if text[i..].contains(">>>>") {
                    push_tag(&mut v, "placeholder");
                }
            }
            // an escaped backslash directly in front of a character class, after an earlier class
            if let Some(i) = text.find(']') {
                if text[i..].contains("\\\\[") {
                    push_tag(&mut v, "escbs-class");
                }
            }
        }
    }
    v.sort();
    v
}

fn line_tags(line: &[u8]) -> Vec<String> {
    let mut v = vec![];
    if line.last() == Some(&b'\n') {
        v.push("nl".to_string());
    }
    if line.iter().any(|b| *b >= 0x80) {
        v.push("nonascii".to_string());
    }
    if line.contains(&b'\r') {
        v.push("cr".to_string());
    }
    v
}

/// the member followed by / interrupted by carriage returns: CR LF output under keep_crlf, a progress line
/// that ends in a bare CR. A CR is an ordinary character of the line: the result is a member only if the
/// expression describes the CR (`\r` in escaped, `.` / a class in regex, `?` / `*` in glob)
fn cr_variants(rng: &mut Rng, w: &[u8]) -> Vec<(Vec<u8>, &'static str, u32)> {
    let mut end = w.to_vec();
    end.push(b'\r');
    let mut out = vec![(end.clone(), "cr-end", 100), (end.clone(), "cr-end", 0)];
    match rng.below(3) {
        0 => {
            end.push(b'\r');
            out.push((end, "cr-cr", 60));
        }
        1 => {
            // between two scalars (never inside a UTF-8 sequence of valid text)
            let cuts: Vec<usize> = (0..=w.len()).filter(|i| std::str::from_utf8(&w[..*i]).is_ok() || std::str::from_utf8(w).is_err()).collect();
            let i = *rng.pick(&cuts);
            let mut mid = w[..i].to_vec();
            mid.push(b'\r');
            mid.extend_from_slice(&w[i..]);
            out.push((mid, "cr-mid", 60));
        }
        _ => {
            let mut start = vec![b'\r'];
            start.extend_from_slice(w);
            out.push((start, "cr-start", 60));
        }
    }
    out
}

fn spec_shrinks(spec: &Spec) -> Vec<Spec> {
    /// every removal of 1..=4 consecutive items (a UTF-8 sequence spelled as hex escapes goes as a whole)
    fn drop_each<T: Clone>(v: &[T]) -> Vec<Vec<T>> {
        let mut out = vec![];
        for width in 1..=4usize.min(v.len()) {
            for i in 0..=(v.len() - width) {
                let mut w = v.to_vec();
                w.drain(i..i + width);
                out.push(w);
            }
        }
        out
    }
    fn text_shrinks(s: &str) -> Vec<String> {
        let cs: Vec<char> = s.chars().collect();
        let mut out: Vec<String> = vec![];
        if cs.len() > 3 {
            out.push(cs[..cs.len() / 2].iter().collect());
            out.push(cs[cs.len() / 2..].iter().collect());
        }
        out.extend(drop_each(&cs).into_iter().map(|v| v.into_iter().collect::<String>()));
        out
    }
    match spec {
        Spec::Equal(s) => text_shrinks(s).into_iter().map(Spec::Equal).collect(),
        Spec::NoEol(s) => text_shrinks(s).into_iter().map(Spec::NoEol).collect(),
        Spec::Raw(s) => text_shrinks(s).into_iter().map(Spec::Raw).collect(),
        Spec::Escaped(t) => {
            let mut out: Vec<Spec> = drop_each(t).into_iter().map(Spec::Escaped).collect();
            for (i, x) in t.iter().enumerate() {
                let mut simpler = vec![];
                if let EscTok::Hex(v, m) = x {
                    if *m != 0 {
                        simpler.push(EscTok::Hex(*v, 0));
                    }
                }
                if *x != EscTok::Lit('a') {
                    simpler.push(EscTok::Lit('a'));
                }
                for s in simpler {
                    let mut w = t.clone();
                    w[i] = s;
                    out.push(Spec::Escaped(w));
                }
            }
            out
        }
        Spec::Glob(t) => {
            let mut out: Vec<Spec> = drop_each(t).into_iter().map(Spec::Glob).collect();
            for (i, x) in t.iter().enumerate() {
                if *x != GlobTok::Lit('a') {
                    let mut w = t.clone();
                    w[i] = GlobTok::Lit('a');
                    out.push(Spec::Glob(w));
                }
            }
            out
        }
        Spec::EscGlob(t, short) => {
            let mut out: Vec<Spec> = drop_each(t).into_iter().map(|v| Spec::EscGlob(v, *short)).collect();
            if *short {
                out.push(Spec::EscGlob(t.clone(), false));
            }
            for (i, x) in t.iter().enumerate() {
                if !matches!(x, EscTok::Lit('a') | EscTok::Lit('*') | EscTok::Lit('?')) {
                    let mut w = t.clone();
                    w[i] = EscTok::Lit('a');
                    out.push(Spec::EscGlob(w, *short));
                }
            }
            out
        }
        Spec::Regex(r) => re_shrinks(r).into_iter().map(Spec::Regex).collect(),
    }
}

fn line_shrinks(line: &[u8]) -> Vec<Vec<u8>> {
    let mut out = vec![];
    if line.last() == Some(&b'\n') {
        out.push(line[..line.len() - 1].to_vec());
    }
    match std::str::from_utf8(line) {
        Ok(s) => {
            let cs: Vec<char> = s.chars().collect();
            for i in 0..cs.len() {
                if cs[i] == '\n' {
                    continue;
                }
                let mut w = cs.clone();
                w.remove(i);
                out.push(w.into_iter().collect::<String>().into_bytes());
            }
            for i in 0..cs.len() {
                if cs[i] != 'a' && cs[i] != '\n' {
                    let mut w = cs.clone();
                    w[i] = 'a';
                    out.push(w.into_iter().collect::<String>().into_bytes());
                }
            }
        }
        Err(_) => {
            for i in 0..line.len() {
                let mut w = line.to_vec();
                w.remove(i);
                out.push(w);
            }
        }
    }
    out
}

/// one-step smaller variants of a single-line case
fn case_shrinks(case: &C04Case) -> Vec<C04Case> {
    let mut out = vec![];
    if case.lines.len() > 1 {
        for l in &case.lines {
            out.push(C04Case { lines: vec![l.clone()], ..case.clone() });
        }
        return out;
    }
    let canon = match &case.spec {
        Spec::Raw(_) => case.alias.clone(),
        _ => canonical(&case.alias).to_string(),
    };
    if case.alias != canon {
        out.push(C04Case { alias: canon, ..case.clone() });
    }
    if case.cram {
        out.push(C04Case { cram: false, ..case.clone() });
    }
    let cur: Vec<u8> = case.lines.first().map(|l| l.bytes.clone()).unwrap_or_default();
    let with_line = |c: &C04Case, b: Vec<u8>, rel: &str| C04Case {
        lines: vec![Line { bytes: b, rel: rel.into() }],
        ..c.clone()
    };
    let smaller: Vec<C04Case> = spec_shrinks(&case.spec).into_iter().map(|s| C04Case { spec: s, ..case.clone() }).collect();
    // phase A: a smaller expression with the same line; a smaller line with the same expression
    out.extend(smaller.iter().cloned());
    let line_cands = line_shrinks(&cur);
    for b in &line_cands {
        out.push(with_line(case, b.clone(), "shrunk"));
    }
    // phase B: a smaller expression with fresh members of it (a deletion in the expression often needs the
    // matching deletion in the line), drawn from a stream seeded by the expression itself
    let nl = cur.last() == Some(&b'\n');
    for cand in &smaller {
        let mut rng = Rng::new(hash_str(&expr_text(&cand.spec)));
        let members: Vec<Vec<u8>> = match &cand.spec {
            Spec::Regex(r) => (0..2).filter_map(|_| re_sample(r, &mut rng, &['a', 'b'])).map(String::into_bytes).collect(),
            Spec::Glob(t) => vec![glob_member(&mut rng, t).into_bytes()],
            Spec::EscGlob(t, _) => escglob_tokens(t, cand.cram).map(|g| vec![glob_member(&mut rng, &g).into_bytes()]).unwrap_or_default(),
            Spec::Escaped(t) => esc_decode(t).into_iter().collect(),
            Spec::Equal(t) | Spec::NoEol(t) => vec![t.clone().into_bytes()],
            Spec::Raw(_) => vec![],
        };
        for m in members {
            if m.contains(&b'\n') {
                continue;
            }
            let extras: &[&[u8]] = if cur.contains(&b'\r') { &[b"", b"x", b"\r"] } else { &[b"", b"x"] };
            for extra in extras {
                let mut b = m.clone();
                b.extend_from_slice(extra);
                if nl {
                    let mut c = b.clone();
                    c.push(b'\n');
                    out.push(with_line(cand, c, "resampled"));
                }
                out.push(with_line(cand, b, "resampled"));
            }
        }
    }
    // phase C: a deletion in the expression paired with a deletion in the line
    if smaller.len() * line_cands.len() <= 900 {
        for cand in &smaller {
            for b in &line_cands {
                out.push(with_line(cand, b.clone(), "shrunk"));
            }
        }
    }
    out
}

thread_local! {
    /// (case, its minimal form): `shrink` is called right after `check` on the same case
    static LAST_MIN: std::cell::RefCell<Option<(C04Case, C04Case)>> = const { std::cell::RefCell::new(None) };
}

/// greedy minimisation keeping the outcome class (mismatch / parse error); bounded
fn minimise(case: &C04Case, class: u8) -> C04Case {
    if let Some(m) = LAST_MIN.with(|l| l.borrow().as_ref().filter(|(c, _)| c == case).map(|(_, m)| m.clone())) {
        return m;
    }
    let min = minimise_uncached(case, class);
    LAST_MIN.with(|l| *l.borrow_mut() = Some((case.clone(), min.clone())));
    min
}

fn minimise_uncached(case: &C04Case, class: u8) -> C04Case {
    let mut best = case.clone();
    let mut budget = 3000usize;
    loop {
        let mut improved = false;
        for cand in case_shrinks(&best) {
            if budget == 0 {
                return best;
            }
            budget -= 1;
            let (mut a, mut b) = (0, 0);
            if drive(&cand, &mut a, &mut b).class() == class {
                best = cand;
                improved = true;
                break;
            }
        }
        if !improved {
            return best;
        }
    }
}

fn signature(min: &C04Case, outcome: &Outcome) -> String {
    let tags = spec_tags(&min.spec);
    let tags = if tags.is_empty() { "plain".to_string() } else { tags.join("+") };
    match outcome {
        Outcome::ParseError(_) => format!("C04/{}/parse-error/{}", kind_tag(min), tags),
        _ => {
            let lt = min.lines.first().map(|l| line_tags(&l.bytes)).unwrap_or_default();
            if lt.is_empty() {
                format!("C04/{}/mismatch/{}", kind_tag(min), tags)
            } else {
                format!("C04/{}/mismatch/{}/line:{}", kind_tag(min), tags, lt.join("+"))
            }
        }
    }
}

// ---------------------------------------------------------------------------------------------
// generators
// ---------------------------------------------------------------------------------------------

const SAMPLE_POOL: &[char] = &['a', 'b', 'c', 'A', 'x', '0', '1', ' ', '-', '.', '*', 'é', 'Ж', '中', '😀', '\t', '\\', '(', ']'];

fn with_nl(rng: &mut Rng, mut b: Vec<u8>, p_nl: u32) -> Vec<u8> {
    if rng.chance(p_nl, 100) {
        b.push(b'\n');
    }
    b
}

fn glob_member(rng: &mut Rng, toks: &[GlobTok]) -> String {
    let mut s = String::new();
    for t in toks {
        match t {
            GlobTok::Lit(c) | GlobTok::Esc(c) => s.push(*c),
            GlobTok::One => s.push(*rng.pick(SAMPLE_POOL)),
            GlobTok::Many => {
                for _ in 0..rng.below(4) {
                    s.push(*rng.pick(SAMPLE_POOL));
                }
            }
        }
    }
    s
}

fn text_lines(rng: &mut Rng, member: Option<String>, lines: &mut Vec<Line>, tag: &str) {
    let mut add = |rng: &mut Rng, s: String, rel: &str, p_nl: u32| {
        if s.chars().count() <= 40 && !s.contains('\n') {
            lines.push(Line { bytes: with_nl(rng, s.into_bytes(), p_nl), rel: format!("{tag}{rel}") });
        }
    };
    let Some(w) = member else {
        let s = rand_text(rng, 6, &[50, 15, 10, 20, 5]);
        add(rng, s, "random", 60);
        return;
    };
    add(rng, w.clone(), "member", 100);
    add(rng, w.clone(), "member", 0);
    let s = edit_text(rng, &w, SAMPLE_POOL);
    add(rng, s, "edit", 70);
    let x = rng.pick(SAMPLE_POOL).to_string();
    if rng.bool() {
        add(rng, format!("{x}{w}"), "ext-left", 70);
    } else {
        add(rng, format!("{w}{x}"), "ext-right", 70);
    }
    if let Some(f) = flip_case(rng, &w) {
        add(rng, f, "caseflip", 70);
    }
    for (b, rel, p_nl) in cr_variants(rng, w.as_bytes()) {
        if let Ok(s) = String::from_utf8(b) {
            add(rng, s, rel, p_nl);
        }
    }
}

fn byte_lines(rng: &mut Rng, content: &[u8], lines: &mut Vec<Line>) {
    let mut push = |rng: &mut Rng, b: Vec<u8>, rel: &str, p_nl: u32| {
        if !b.contains(&b'\n') {
            lines.push(Line { bytes: with_nl(rng, b, p_nl), rel: rel.into() });
        }
    };
    push(rng, content.to_vec(), "member", 100);
    push(rng, content.to_vec(), "member", 0);
    let mut m = content.to_vec();
    match rng.below(4) {
        0 if !m.is_empty() => {
            m.remove(rng.below(m.len()));
        }
        1 => {
            let i = rng.below(m.len() + 1);
            m.insert(i, *rng.pick(&[b'a', b'\\', b't', 0x09, 0x00, 0xc3, b' ', b'x']));
        }
        2 if !m.is_empty() => {
            let i = rng.below(m.len());
            m[i] ^= 1 << rng.below(8);
        }
        _ => m.push(b'\\'),
    }
    push(rng, m, "edit", 70);
    // the undecoded text as a line
    push(rng, crate::rng::show(content).into_bytes(), "edit-spelled", 70);
    for (b, rel, p_nl) in cr_variants(rng, content) {
        push(rng, b, rel, p_nl);
    }
}

fn gen_case(rng: &mut Rng) -> C04Case {
    let kind = rng.weighted(&[34, 14, 14, 14, 6, 6, 6, 6]);
    let mut lines: Vec<Line> = vec![];
    let (spec, canon, cram) = match kind {
        0 => {
            let r = gen_regex(rng);
            for i in 0..2 {
                let w = re_sample(&r, rng, SAMPLE_POOL);
                text_lines(rng, w, &mut lines, if i == 0 { "" } else { "2:" });
            }
            (Spec::Regex(r), "regex", rng.chance(1, 6))
        }
        1 | 2 => {
            let cram = kind == 2;
            let t = gen_glob(rng, cram);
            for i in 0..2 {
                let w = glob_member(rng, &t);
                text_lines(rng, Some(w), &mut lines, if i == 0 { "" } else { "2:" });
            }
            (Spec::Glob(t), "glob", cram)
        }
        3 => {
            let t = gen_esc_tokens(rng, false);
            if let Some(b) = esc_decode(&t) {
                byte_lines(rng, &b, &mut lines);
            }
            let spelled = esc_render(&t);
            lines.push(Line { bytes: with_nl(rng, spelled.into_bytes(), 60), rel: "edit-undecoded".into() });
            (Spec::Escaped(t), "escaped", rng.chance(1, 6))
        }
        4 | 5 => {
            let s = rand_text(rng, 8, &[50, 15, 12, 15, 8]);
            byte_lines(rng, s.as_bytes(), &mut lines);
            if kind == 4 {
                (Spec::Equal(s), "equal", rng.chance(1, 6))
            } else {
                (Spec::NoEol(s), "no-eol", rng.chance(1, 6))
            }
        }
        6 => {
            let cram = rng.bool();
            let t = gen_esc_tokens(rng, true);
            if let Some(g) = escglob_tokens(&t, cram) {
                let w = glob_member(rng, &g);
                text_lines(rng, Some(w), &mut lines, "");
            }
            (Spec::EscGlob(t, rng.chance(1, 3)), "glob", cram)
        }
        _ => {
            // arbitrary text under an arbitrary kind, arbitrary bytes as lines: must not panic
            let s = rand_text(rng, 10, &[30, 15, 35, 10, 10]);
            for _ in 0..3 {
                let n = rng.below(8);
                let b: Vec<u8> = (0..n).map(|_| if rng.bool() { rng.byte() } else { *rng.pick(&[b'a', b'\\', 0xc3, 0xff, b'\n', b' ', 0x00]) }).collect();
                lines.push(Line { bytes: b, rel: "bytes".into() });
            }
            let canon = *rng.pick(&["regex", "glob", "escaped", "equal", "no-eol"]);
            (Spec::Raw(s), canon, rng.bool())
        }
    };
    // invalid UTF-8 and empty lines ride along
    if rng.chance(1, 4) {
        lines.push(Line { bytes: with_nl(rng, vec![b'a', 0xff, 0xc3], 50), rel: "bytes".into() });
    }
    if rng.chance(1, 6) {
        lines.push(Line { bytes: with_nl(rng, vec![], 50), rel: "empty".into() });
    }
    let aliases: Vec<&str> = KINDS.iter().filter(|(_, c)| *c == canon).map(|(a, _)| *a).collect();
    C04Case {
        spec,
        alias: rng.pick(&aliases).to_string(),
        cram,
        lines,
    }
}

impl Monitor for C04 {
    type Case = C04Case;

    fn id(&self) -> &'static str {
        "C04"
    }

    fn plan(&self, tier: Tier) -> Plan {
        let mut p = Plan::new(
            tier.pick(40_000, 1_500_000),
            "case = one expression structure (text / escape tokens / glob tokens / regex AST, <= 12 nodes) under one kind alias and one registry (default or Cram-compat) with 3-12 candidate lines (members sampled from the structure, one-edit mutants, x||w and w||x extensions, case flips, non-ASCII, the member followed by CR / CR CR, with a CR in the middle or in front, with and without final newline); non-trivial = at least one judged line is a member (or a one-edit mutant of one) of a specified expression; distinct = hash of (kind, registry, structural tags of the expression, relations and verdicts of the lines)",
        );
        p.floor_nontrivial = tier.pick(1_000, 5_000);
        p.floor_buckets = vec![
            ("kind:regex".into(), 2_000),
            ("kind:glob".into(), 800),
            ("kind:glob-cram".into(), 800),
            ("kind:escaped".into(), 800),
            ("kind:equal".into(), 300),
            ("kind:no-eol".into(), 300),
            ("kind:escaped-glob".into(), 80),
            ("verdict:accepting-line".into(), 5_000),
            ("verdict:rejecting-near-miss".into(), 5_000),
            ("lines:carriage-return".into(), 4_000),
            ("regex:alt-top".into(), 500),
            ("regex:anchor-start".into(), 150),
            ("regex:anchor-end".into(), 150),
        ];
        p.assumptions = vec![
            "glob / regex are judged on valid UTF-8 lines only (lossy decoding of invalid bytes is unspecified: no-panic clause only)".into(),
            "not generated as specified cases: unescaped literal braces, [[]], \\_ (Cram compatibility rewrites), empty groups / alternatives, escaped expressions ending in ` (no-eol)`, glob expressions ending in an escape marker, undocumented escapes (\\q), \\x0a".into(),
            "regex dialect subset: literals, ., classes, groups, alternation, * + ? {m} {m,n} {m,}, explicit ^ and $ (read as assertions inside a whole-line match); no flags, no perl classes".into(),
        ];
        p
    }

    fn gen(&self, _env: &Env, _k: u64, rng: &mut Rng) -> C04Case {
        gen_case(rng)
    }

    fn check(&self, _env: &Env, case: &C04Case) -> Checked {
        let (mut judged, mut accepted) = (0usize, 0usize);
        let outcome = drive(case, &mut judged, &mut accepted);
        match &outcome {
            Outcome::ParseError(_) | Outcome::Mismatch { .. } => {
                let min = minimise(case, outcome.class());
                let (mut a, mut b) = (0, 0);
                let min_outcome = drive(&min, &mut a, &mut b);
                let sig = signature(&min, &min_outcome);
                let detail = match &min_outcome {
                    Outcome::ParseError(e) => format!("well-formed expectation `{}` does not parse: {e}", expectation_line(&min)),
                    Outcome::Mismatch { line, got, want } => format!(
                        "`{}` ({} registry): matches(\"{}\") = {got}, documented = {want}",
                        expectation_line(&min),
                        if min.cram { "cram" } else { "default" },
                        show(&min.lines[*line].bytes)
                    ),
                    _ => "minimisation lost the violation".into(),
                };
                Checked::violated(sig, detail)
            }
            Outcome::Unspecified => Checked::held().bucket("unspecified(no-panic-only)").bucket(format!("kind:{}", kind_tag(case))),
            Outcome::Agree => {
                let tags = spec_tags(&case.spec);
                let near = case.lines.iter().any(|l| l.rel.contains("edit") || l.rel.contains("ext") || l.rel.contains("caseflip") || l.rel.contains("cr-"));
                let rels: Vec<&str> = case.lines.iter().map(|l| l.rel.as_str()).collect();
                let shape = hash_str(&format!("{}|{}|{}|{:?}|{}", kind_tag(case), case.alias, tags.join("+"), rels, accepted));
                let mut c = Checked::held().shape(judged > 0 && (accepted > 0 || near), shape).bucket(format!("kind:{}", kind_tag(case)));
                if accepted > 0 {
                    c = c.bucket("verdict:accepting-line");
                }
                if near && accepted < judged {
                    c = c.bucket("verdict:rejecting-near-miss");
                }
                if case.lines.iter().any(|l| l.rel.contains("cr-")) {
                    c = c.bucket("lines:carriage-return");
                }
                if let Spec::Regex(_) = &case.spec {
                    for t in &tags {
                        c = c.bucket(format!("regex:{t}"));
                    }
                }
                c
            }
        }
    }

    fn shrink(&self, case: &C04Case) -> Vec<C04Case> {
        // the minimal form is computed against the real code; offering it as the only candidate keeps
        // the framework's shrinking loop cheap
        let (mut a, mut b) = (0, 0);
        let class = drive(case, &mut a, &mut b).class();
        if class == 0 {
            return vec![];
        }
        let min = minimise(case, class);
        if &min == case {
            vec![]
        } else {
            vec![min]
        }
    }

    fn sample(&self, case: &C04Case) -> Value {
        json!({
            "expectation": expectation_line(case),
            "registry": if case.cram { "cram" } else { "default" },
            "specified": specified(case),
            "lines": case.lines.iter().map(|l| json!({"line": show(&l.bytes), "rel": l.rel, "documented": oracle(case, &l.bytes)})).collect::<Vec<_>>(),
        })
    }
}
