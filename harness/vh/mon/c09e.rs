//! C09 (end-to-end part): `scrut create` / `scrut update` / `--convert` write a test that
//! `scrut test` then accepts, for the very command it was generated from.

use std::time::Duration;

use serde::Deserialize;
use serde::Serialize;
use serde_json::json;

use crate::core::*;
use crate::e2e::Sandbox;
use crate::e2e::ScrutCmd;
use crate::gen::lines;
use crate::rng::hash_str;
use crate::rng::hexbytes;
use crate::rng::show;
use crate::rng::Rng;

pub struct C09e;

#[derive(Clone, Debug, Serialize, Deserialize)]
pub struct HexLine(#[serde(with = "hexbytes")] pub Vec<u8>);

#[derive(Clone, Debug, Serialize, Deserialize)]
pub struct Case {
    /// create-md | create-cram | update-md | update-cram | convert-md-cram | convert-cram-md
    pub mode: String,
    /// ascii | unicode | default
    pub escaping: String,
    pub lines: Vec<HexLine>,
    pub final_newline: bool,
    pub code: u8,
}

pub const MODES: &[&str] = &["create-md", "create-cram", "update-md", "update-cram", "convert-md-cram", "convert-cram-md"];

impl Case {
    fn payload(&self) -> Vec<u8> {
        let mut out = vec![];
        for (i, l) in self.lines.iter().enumerate() {
            out.extend_from_slice(&l.0);
            if i + 1 < self.lines.len() || self.final_newline {
                out.push(b'\n');
            }
        }
        out
    }
    fn classes(&self) -> Vec<&'static str> {
        let mut c: Vec<&'static str> = self.lines.iter().map(|l| lines::classify(&l.0)).collect();
        c.sort();
        c.dedup();
        c
    }
    fn class_sig(&self) -> String {
        let mut c: Vec<String> = self.classes().iter().map(|s| s.to_string()).collect();
        if !self.final_newline && !self.lines.is_empty() {
            c.push("noeol".into());
        }
        if self.code != 0 {
            c.push("code".into());
        }
        if c.is_empty() {
            "empty".into()
        } else {
            c.join("+")
        }
    }
}

impl Monitor for C09e {
    type Case = Case;

    fn id(&self) -> &'static str {
        "C09"
    }

    fn plan(&self, tier: Tier) -> Plan {
        let mut p = Plan::new(
            tier.pick(320, 8000),
            "e2e: a payload of 0..6 lines from 18 line classes (syntax look-alikes, control bytes, invalid UTF-8, backslashes, CR, blanks, non-ASCII), exit code, mode (create md/cram, update md/cram, convert both ways), escaping (ascii/unicode/default); the command `cat <payload>; (exit N)` is given to scrut create/update and the written document to scrut test; non-trivial = payload contains a non-plain line class; distinct = (mode, escaping, class set, code=0?, final newline)",
        );
        p.chunk = 2;
        p.case_timeout_s = 120;
        p.floor_nontrivial = tier.pick(40, 300);
        p.floor_buckets = vec![("e2e:generated".into(), tier.pick(150, 4000)), ("e2e:test-accepted".into(), tier.pick(60, 1500))];
        p.assumptions = vec!["skip code 80 is never used as exit code (C15's subject)".into()];
        p
    }

    fn gen(&self, _env: &Env, _k: u64, rng: &mut Rng) -> Case {
        let (ls, fin) = lines::payload(rng, 6);
        let code = match rng.below(4) {
            0 | 1 => 0u8,
            2 => *rng.pick(&[1u8, 2, 3, 127, 255]),
            _ => {
                let c = rng.byte();
                if c == 80 {
                    81
                } else {
                    c
                }
            }
        };
        Case {
            mode: rng.pick(MODES).to_string(),
            escaping: rng.pick(&["default", "default", "ascii", "unicode"]).to_string(),
            lines: ls.into_iter().map(HexLine).collect(),
            final_newline: fin,
            code,
        }
    }

    fn check(&self, env: &Env, case: &Case) -> Checked {
        // Markdown translates CR LF to LF, Cram keeps it: a converted test is executed under the other
        // default, so "the same output" is not what the re-execution sees. Not judged.
        if case.mode.starts_with("convert") && case.lines.iter().any(|l| l.0.ends_with(b"\r")) {
            return Checked::out_of_scope("CR LF under --convert").bucket("e2e:convert-crlf-skipped");
        }
        let sb = Sandbox::new(env, "c09e");
        let p = sb.write_payload("P", &case.payload());
        // Cram sources also write one line to stderr: Cram records the combined stream, so the written test has to
        // carry that setting along (after `--convert markdown`: in the one-line configuration behind the fence)
        let cram_source = matches!(case.mode.as_str(), "create-cram" | "update-cram" | "convert-cram-md");
        let cmd = if cram_source {
            format!("cat {}; echo on-stderr >&2; (exit {})", p.display(), case.code)
        } else {
            format!("cat {}; (exit {})", p.display(), case.code)
        };
        let wd = Duration::from_secs(60);
        let esc_args: Vec<String> = if case.escaping == "default" { vec![] } else { vec!["-e".into(), case.escaping.clone()] };
        let mut buckets = vec![format!("e2e:mode:{}", case.mode)];
        let target: String;
        // 1. generate
        let gen_run = match case.mode.as_str() {
            "create-md" | "create-cram" => {
                let (fmt, file) = if case.mode == "create-md" { ("markdown", "out.md") } else { ("cram", "out.t") };
                target = file.to_string();
                let mut c = ScrutCmd::new(&sb, &["create", "-f", fmt, "-o", file]);
                for a in &esc_args {
                    c = c.arg(a.clone());
                }
                c.arg("--").arg(cmd.clone()).watchdog(wd).run(env)
            }
            "update-md" | "convert-md-cram" => {
                sb.write_doc("doc.md", format!("# A title\n\n```scrut\n$ {cmd}\nWRONG-EXPECTATION-7f3a\n```\n").as_bytes());
                let mut c = ScrutCmd::new(&sb, &["update", "--assume-yes"]);
                if case.mode == "update-md" {
                    target = "doc.md".into();
                    c = c.arg("--replace");
                } else {
                    target = "doc.t".into();
                    c = c.arg("--convert").arg("cram");
                }
                for a in &esc_args {
                    c = c.arg(a.clone());
                }
                c.arg("doc.md").watchdog(wd).run(env)
            }
            _ => {
                sb.write_doc("doc.t", format!("A title\n\n  $ {cmd}\n  WRONG-EXPECTATION-7f3a\n").as_bytes());
                let mut c = ScrutCmd::new(&sb, &["update", "--assume-yes"]);
                if case.mode == "update-cram" {
                    target = "doc.t".into();
                    c = c.arg("--replace");
                } else {
                    target = "doc.md".into();
                    c = c.arg("--convert").arg("markdown");
                }
                for a in &esc_args {
                    c = c.arg(a.clone());
                }
                c.arg("doc.t").watchdog(wd).run(env)
            }
        };
        if gen_run.watchdog_fired {
            return Checked::inconclusive("watchdog while generating");
        }
        let target_path = sb.docs.join(&target);
        if gen_run.code != Some(0) || !target_path.exists() {
            // nothing was written: the statement speaks about the test that is written
            return Checked::out_of_scope(format!("generation refused: rc={:?} {}", gen_run.code, gen_run.stderr_str().chars().take(200).collect::<String>()))
                .bucket("e2e:generation-refused");
        }
        buckets.push("e2e:generated".into());
        let written = std::fs::read(&target_path).unwrap_or_default();
        if !String::from_utf8_lossy(&written).contains(&cmd) {
            return Checked::violated(
                format!("C09/e2e/{}/command-changed", case.mode),
                format!("the written document does not contain the command `{cmd}`:\n{}", show(&written)),
            );
        }
        // 2. run the written test
        let test_run = ScrutCmd::new(&sb, &["test", "-r", "json", &target]).watchdog(wd).run(env);
        if test_run.watchdog_fired {
            return Checked::inconclusive("watchdog while testing");
        }
        let nontrivial = case.classes().iter().any(|c| *c != "plain") || (!case.final_newline && !case.lines.is_empty());
        let shape = hash_str(&format!("{}|{}|{}|{}", case.mode, case.escaping, case.class_sig(), case.final_newline));
        match test_run.code {
            Some(0) => {
                buckets.push("e2e:test-accepted".into());
                let mut c = Checked::held().shape(nontrivial, shape);
                c.buckets = buckets;
                c
            }
            rc => {
                let how = match rc {
                    Some(50) => "fails-validation",
                    Some(1) => "unparsable-or-error",
                    _ => "other",
                };
                Checked::violated(
                    format!("C09/e2e/{}/{}//{}", case.mode, how, case.class_sig()),
                    format!(
                        "escaping={} payload={} code={} -> written document:\n{}\n`scrut test` rc={:?}: {}",
                        case.escaping,
                        show(&case.payload()),
                        case.code,
                        show(&written),
                        rc,
                        test_run.stderr_str().lines().filter(|l| !l.trim().is_empty()).take(4).collect::<Vec<_>>().join(" | ")
                    ),
                )
            }
        }
    }

    fn shrink(&self, case: &Case) -> Vec<Case> {
        let mut v = vec![];
        for i in 0..case.lines.len() {
            let mut c = case.clone();
            c.lines.remove(i);
            v.push(c);
        }
        if case.code != 0 {
            let mut c = case.clone();
            c.code = 0;
            v.push(c);
        }
        if !case.final_newline {
            let mut c = case.clone();
            c.final_newline = true;
            v.push(c);
        }
        if case.escaping != "default" {
            let mut c = case.clone();
            c.escaping = "default".into();
            v.push(c);
        }
        v
    }

    fn sample(&self, case: &Case) -> serde_json::Value {
        json!({"mode": case.mode, "escaping": case.escaping, "payload": show(&case.payload()), "code": case.code})
    }
}
