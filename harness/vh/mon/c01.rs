//! C01 — no false pass.

use scrut::diff::DiffLine;
use scrut::diff::DiffTool;
use scrut::output::ExitStatus;
use scrut::output::Output;
use scrut::testcase::TestCase;

use super::diffcommon::*;
use crate::core::*;
use crate::oracle::lang::member;
use crate::oracle::lang::split_lines;
use crate::rng::Rng;

pub struct C01;

impl Monitor for C01 {
    type Case = DiffCase;

    fn id(&self) -> &'static str {
        "C01"
    }

    fn plan(&self, tier: Tier) -> Plan {
        let mut p = Plan::new(
            tier.pick(1_000_000, 40_000_000),
            "cases = (expectation list, output bytes) from 6 families (uniform over a small overlapping alphabet, member-then-one-line-edit, long tails, degenerate, disjoint match sets, the output's own lines); a case is non-trivial if scrut reported a pass or it is a one-edit near miss of a member; distinct = hash of (quantifier vector, match matrix, final-newline flag)",
        );
        p.floor_nontrivial = tier.pick(2_000, 20_000);
        p.floor_buckets = vec![("pass".into(), tier.pick(10_000, 100_000)), ("fail-near-miss".into(), tier.pick(2_000, 20_000))];
        p.assumptions = vec![
            "the match matrix (Expectation::matches) is taken as data; C04 decides whether it is right".into(),
            "sizes: <= 8 expectations, <= 12 lines (<= 2000 lines in the long-tail family)".into(),
        ];
        p
    }

    fn gen(&self, env: &Env, k: u64, rng: &mut Rng) -> DiffCase {
        // thorough: the first SWEEP_SIZE case numbers are the complete sweep of small shapes
        if env.tier == Tier::Thorough && k < SWEEP_SIZE {
            return sweep_case(k);
        }
        gen_case(rng, false, env.tier == Tier::Thorough)
    }

    fn panic_is_violation(&self) -> bool {
        false
    }

    fn check(&self, _env: &Env, case: &DiffCase) -> Checked {
        let Some(p) = prepare(case) else {
            return Checked::out_of_scope("expectation does not parse");
        };
        let is_member = member(&p.quants, &p.matrix, p.n_lines);
        let diff = match DiffTool::new(p.exps.clone()).diff(&case.out) {
            Ok(d) => d,
            Err(e) => return Checked::out_of_scope(format!("diff error {e}")),
        };
        let pass = !diff.has_differences();
        // the same pair through TestCase::validate
        let tc = TestCase {
            title: "t".into(),
            shell_expression: "true".into(),
            expectations: p.exps.clone(),
            exit_code: None,
            line_number: 1,
            config: Default::default(),
        };
        let out = Output {
            stdout: case.out.clone().into(),
            stderr: vec![].into(),
            exit_code: ExitStatus::Code(0),
        };
        let validate_pass = tc.validate(&out).is_ok();
        let near = case.family.starts_with("near") || case.family == "disjoint-near";
        let shape = shape_hash(&p, &case.out);
        if pass && !is_member {
            return Checked::violated(
                "C01/false-pass/diff",
                format!("DiffTool reports no differences but the output is not in the language: {:?}", sample(case)),
            );
        }
        if validate_pass && !is_member {
            return Checked::violated(
                "C01/false-pass/validate",
                format!("TestCase::validate returns Ok but the output is not in the language: {:?}", sample(case)),
            );
        }
        if pass {
            // the assignment the diff reports must itself be a witness
            let lines = split_lines(&case.out);
            let mut next_line = 0usize;
            let mut last_index: Option<usize> = None;
            let mut used = vec![false; p.exps.len()];
            for d in &diff.lines {
                if let DiffLine::MatchedExpectation { index, lines: ls, .. } = d {
                    if *index >= p.exps.len() || last_index.is_some_and(|l| *index <= l) {
                        return Checked::violated("C01/pass-witness/index-order", format!("{:?}", sample(case)));
                    }
                    last_index = Some(*index);
                    used[*index] = true;
                    if ls.is_empty() || (ls.len() > 1 && !p.quants[*index].multiline) {
                        return Checked::violated("C01/pass-witness/line-count", format!("{:?}", sample(case)));
                    }
                    for (li, bytes) in ls {
                        if *li != next_line || *li >= lines.len() || lines[*li] != &bytes[..] || !p.matrix[*index][*li] {
                            return Checked::violated("C01/pass-witness/line-assignment", format!("{:?}", sample(case)));
                        }
                        next_line += 1;
                    }
                }
            }
            if next_line != lines.len() || (0..p.exps.len()).any(|i| !used[i] && !p.quants[i].optional) {
                return Checked::violated("C01/pass-witness/incomplete", format!("{:?}", sample(case)));
            }
        }
        let mut c = Checked::held();
        if pass {
            c = c.nontrivial(shape).bucket("pass");
        } else if near {
            c = c.nontrivial(shape).bucket("fail-near-miss");
        } else {
            c = c.bucket("fail-other");
        }
        c.bucket(format!("family:{}", case.family))
    }

    fn shrink(&self, case: &DiffCase) -> Vec<DiffCase> {
        shrink(case)
    }

    fn sample(&self, case: &DiffCase) -> serde_json::Value {
        sample(case)
    }
}
