//! C04 (end-to-end part): the match set of each rule kind is the same through the CLI, whatever else is part
//! of the run.
//!
//! One case = a handful of (expectation, output line) pairs taken from the in-process C04 generators / oracles
//! (`gen::exprs`, `oracle::rulematch`), written as the tests of a Markdown document `b.md` and of a Cram
//! document `a.t` (one test per pair, the command is an all-octal `printf`, so every payload is shell safe and
//! the documents stay UTF-8). `scrut test -r json` (no `--cram-compat`) is run three times — `a.t b.md`,
//! `b.md a.t`, `b.md` alone — and every test's pass / fail is judged against the harness's own oracle: the
//! documented glob dialect for `.md` (`\` is an ordinary character), the Cram dialect for `.t` (`\*`, `\?`,
//! `\\` are escapes). Never against another scrut run.

use std::collections::HashMap;
use std::time::Duration;

use serde::Deserialize;
use serde::Serialize;
use serde_json::json;
use serde_json::Value;

use super::c04::Spec;
use crate::core::*;
use crate::e2e::result_kind;
use crate::e2e::Sandbox;
use crate::e2e::ScrutCmd;
use crate::gen::exprs::*;
use crate::oracle::rulematch::*;
use crate::rng::hash_str;
use crate::rng::show;
use crate::rng::Rng;

pub struct C04e;

#[derive(Clone, Debug, PartialEq, Serialize, Deserialize)]
pub struct Pair {
    /// the expression as a structure (Equal / NoEol / Escaped / Glob / Regex of the in-process monitor);
    /// glob tokens are the reading of the text in the documented (Markdown) dialect
    pub spec: Spec,
    /// kind name written in the suffix
    pub alias: String,
    /// what the test command prints: one line, with or without its final LF
    #[serde(with = "crate::rng::hexbytes")]
    pub line: Vec<u8>,
    /// how the line was made (information only)
    pub rel: String,
}

#[derive(Clone, Debug, PartialEq, Serialize, Deserialize)]
pub struct Case {
    pub pairs: Vec<Pair>,
}

const ORDERS: &[(&str, &[&str])] = &[("md", &["b.md"]), ("md-t", &["b.md", "a.t"]), ("t-md", &["a.t", "b.md"])];
const ESC_MARKERS: &[&str] = &[" (escaped)", " \\(escaped\\)", " (esc)", " \\(esc\\)"];

fn expr_text(spec: &Spec) -> Option<String> {
    Some(match spec {
        Spec::Equal(s) | Spec::NoEol(s) => s.clone(),
        Spec::Escaped(t) => esc_render(t),
        Spec::Glob(t) => glob_render(t),
        Spec::Regex(r) => re_render(r),
        _ => return None,
    })
}

fn kind_of(spec: &Spec) -> &'static str {
    match spec {
        Spec::Equal(_) => "equal",
        Spec::NoEol(_) => "no-eol",
        Spec::Escaped(_) => "escaped",
        Spec::Glob(_) => "glob",
        Spec::Regex(_) => "regex",
        _ => "other",
    }
}

fn expectation_line(p: &Pair) -> Option<String> {
    Some(format!("{} ({})", expr_text(&p.spec)?, p.alias))
}

/// can the text be one expectation line of a Markdown scrut block and of a Cram test without being read as
/// something else (command, continuation, comment, fence, indentation) or being normalised (CR LF)
fn doc_safe(line: &str) -> bool {
    let Some(first) = line.chars().next() else { return false };
    !first.is_whitespace()
        && !matches!(first, '$' | '>' | '#' | '`')
        && !line.chars().any(|c| (c.is_control() && c != '\t') || matches!(c, '\u{2028}' | '\u{2029}' | '\u{feff}'))
}

/// is the meaning of the pair fixed by the documentation, and can it be written into both documents
fn usable(p: &Pair) -> bool {
    let Some(text) = expr_text(&p.spec) else { return false };
    let Some(line) = expectation_line(p) else { return false };
    if !doc_safe(&line) || KINDS.iter().find(|(a, _)| *a == p.alias).map(|(_, c)| *c) != Some(kind_of(&p.spec)) {
        return false;
    }
    // one non-empty output line without inner LF (a line with a CR is printed under `keep_crlf: true`)
    if p.line.is_empty() || p.line[..p.line.len() - 1].contains(&b'\n') {
        return false;
    }
    match &p.spec {
        Spec::Equal(_) | Spec::NoEol(_) => true,
        Spec::Escaped(t) => esc_decode(t).is_some_and(|b| !b.contains(&b'\n')) && !text.ends_with(" (no-eol)"),
        Spec::Glob(t) => {
            !ESC_MARKERS.iter().any(|m| text.ends_with(m))
                && !t.iter().any(|x| matches!(x, GlobTok::Lit('*') | GlobTok::Lit('?') | GlobTok::Lit('\n') | GlobTok::Esc(_)))
                && std::str::from_utf8(&p.line).is_ok()
        }
        Spec::Regex(r) => re_wellformed(r) && re_size(r) <= 40 && std::str::from_utf8(&p.line).is_ok(),
        _ => false,
    }
}

/// documented verdict of the pair in a Markdown (`cram = false`) or a Cram document
fn oracle(p: &Pair, cram: bool) -> Option<bool> {
    let content = strip_final_newline(&p.line);
    match &p.spec {
        Spec::Equal(s) => Some(p.line.len() == s.len() + 1 && &p.line[..s.len()] == s.as_bytes() && p.line[s.len()] == b'\n'),
        Spec::NoEol(s) => Some(p.line == s.as_bytes()),
        Spec::Escaped(t) => Some(content == &esc_decode(t)?[..]),
        Spec::Glob(t) => {
            let line = scalars(std::str::from_utf8(content).ok()?);
            if cram {
                Some(glob_match(&glob_parse(&glob_render(t), true), &line))
            } else {
                Some(glob_match(t, &line))
            }
        }
        Spec::Regex(r) => re_full_match(r, &scalars(std::str::from_utf8(content).ok()?)),
        _ => None,
    }
}

fn octal_printf(bytes: &[u8]) -> String {
    let mut s = String::from("printf '");
    for b in bytes {
        s.push_str(&format!("\\{:03o}", b));
    }
    s.push('\'');
    s
}

fn markdown_doc(case: &Case) -> String {
    let mut d = String::new();
    for (i, p) in case.pairs.iter().enumerate() {
        // CR LF output reaches the rules only when the test keeps it (Cram documents keep it by default)
        let config = if p.line.contains(&b'\r') { " {keep_crlf: true}" } else { "" };
        d.push_str(&format!("# T{i}\n\n```scrut{config}\n$ {}\n{}\n```\n\n", octal_printf(&p.line), expectation_line(p).unwrap_or_default()));
    }
    d
}

fn cram_doc(case: &Case) -> String {
    let mut d = String::new();
    for (i, p) in case.pairs.iter().enumerate() {
        d.push_str(&format!("T{i}\n  $ {}\n  {}\n\n", octal_printf(&p.line), expectation_line(p).unwrap_or_default()));
    }
    d
}

/// structural class of a pair for signatures
fn class_of(p: &Pair) -> String {
    let c = spec_class(p);
    if p.line.contains(&b'\r') {
        format!("{c}/line:cr")
    } else {
        c
    }
}

fn spec_class(p: &Pair) -> String {
    match &p.spec {
        Spec::Glob(t) => {
            let bs_wild = t.windows(2).any(|w| w[0] == GlobTok::Lit('\\') && matches!(w[1], GlobTok::One | GlobTok::Many | GlobTok::Lit('\\')));
            if bs_wild {
                "backslash-before-wildcard".into()
            } else if t.contains(&GlobTok::Lit('\\')) {
                "backslash".into()
            } else {
                "plain".into()
            }
        }
        // (the in-process part names the structural cause of a regex mismatch; here only the features that
        // change how the expression is wrapped)
        Spec::Regex(r) => {
            let mut tags = vec![];
            re_tags(r, true, &mut tags);
            tags.retain(|t| matches!(t.as_str(), "alt-top" | "anchor-start" | "anchor-end"));
            tags.sort();
            if tags.is_empty() {
                "plain".into()
            } else {
                tags.join("+")
            }
        }
        Spec::Escaped(t) => {
            if t.iter().any(|x| !matches!(x, EscTok::Lit(_))) {
                "escapes".into()
            } else {
                "plain".into()
            }
        }
        _ => "text".into(),
    }
}

// ---------------------------------------------------------------------------------------------
// generator
// ---------------------------------------------------------------------------------------------

const FILL: &[char] = &['a', 'b', 'U', 's', 'e', 'r', '0', '1', '-', '.', ' ', 'é', '中', '😀', '\\', '*', '?', '\t'];
const PLAIN: &[char] = &['a', 'b', 'c', 'C', 'x', 'y', '0', '1', ':', '-', '_', '.', '/', 'é', '中'];

fn with_nl(rng: &mut Rng, mut b: Vec<u8>, p: u32) -> Vec<u8> {
    if rng.chance(p, 100) || b.is_empty() {
        b.push(b'\n');
    }
    b
}

fn glob_member(rng: &mut Rng, toks: &[GlobTok], min_fill: usize) -> String {
    let mut s = String::new();
    for t in toks {
        match t {
            GlobTok::Lit(c) | GlobTok::Esc(c) => s.push(*c),
            GlobTok::One => s.push(*rng.pick(FILL)),
            GlobTok::Many => {
                for _ in 0..rng.range(min_fill, 4) {
                    s.push(*rng.pick(FILL));
                }
            }
        }
    }
    s
}

/// a glob whose verdicts can differ between the dialects: a backslash directly before a wildcard (or before
/// another backslash), e.g. `C:\*`, `a\?b`, `x\\*`
fn gen_dialect_pair(rng: &mut Rng) -> Pair {
    let mut t: Vec<GlobTok> = (0..rng.range(1, 3)).map(|_| GlobTok::Lit(*rng.pick(PLAIN))).collect();
    t.push(GlobTok::Lit('\\'));
    match rng.below(4) {
        0 => t.push(GlobTok::One),
        1 => {
            t.push(GlobTok::Lit('\\'));
            t.push(GlobTok::Many);
        }
        _ => t.push(GlobTok::Many),
    }
    for _ in 0..rng.below(3) {
        t.push(GlobTok::Lit(*rng.pick(PLAIN)));
    }
    if rng.chance(1, 4) {
        t.push(GlobTok::Many);
    }
    let text = glob_render(&t);
    let (line, rel) = match rng.below(5) {
        // a member in the documented dialect (`C:\Users\bob` for `C:\*`)
        0 | 1 => (glob_member(rng, &t, 1), "member-markdown"),
        // a member in the Cram dialect (`C:*` for `C:\*`)
        2 | 3 => (glob_member(rng, &glob_parse(&text, true), 1), "member-cram"),
        _ => {
            let m = glob_member(rng, &t, 0);
            (edit_text(rng, &m, FILL), "edit")
        }
    };
    Pair {
        spec: Spec::Glob(t),
        alias: rng.pick(&["glob", "gl"]).to_string(),
        line: with_nl(rng, line.replace('\r', "").into_bytes(), 85),
        rel: rel.into(),
    }
}

fn text_line(rng: &mut Rng, member: Option<String>) -> (Vec<u8>, &'static str) {
    let Some(m) = member else {
        return (rand_text(rng, 5, &[60, 20, 10, 10, 0]).into_bytes(), "random");
    };
    match rng.below(5) {
        0 | 1 => (m.into_bytes(), "member"),
        2 => (edit_text(rng, &m, FILL).into_bytes(), "edit"),
        3 => (format!("{m}{}", rng.pick(FILL)).into_bytes(), "ext-right"),
        _ => (format!("{}{m}", rng.pick(FILL)).into_bytes(), "ext-left"),
    }
}

/// the line ends in CR (before the newline or as unterminated last line), CR CR, or has a CR in the middle
fn with_cr(rng: &mut Rng, mut p: Pair) -> Pair {
    let nl = p.line.last() == Some(&b'\n');
    let mut content = strip_final_newline(&p.line).to_vec();
    content.retain(|b| *b != b'\r');
    let valid = std::str::from_utf8(&content).is_ok();
    let (c, rel) = match rng.below(4) {
        0 | 1 => {
            content.push(b'\r');
            (content, "cr-end")
        }
        2 => {
            content.extend_from_slice(b"\r\r");
            (content, "cr-cr")
        }
        _ => {
            let cuts: Vec<usize> = (0..=content.len()).filter(|i| !valid || std::str::from_utf8(&content[..*i]).is_ok()).collect();
            let i = *rng.pick(&cuts);
            content.insert(i, b'\r');
            (content, "cr-mid")
        }
    };
    p.line = c;
    if nl && !rng.chance(1, 3) {
        p.line.push(b'\n');
    }
    p.rel = format!("{}+{rel}", p.rel);
    p
}

fn gen_pair(rng: &mut Rng, which: usize) -> Pair {
    for _ in 0..20 {
        let p = match which {
            0 => gen_dialect_pair(rng),
            1 => {
                let t = gen_glob(rng, false);
                let m = glob_member(rng, &t, 0);
                let (line, rel) = text_line(rng, Some(m));
                Pair { spec: Spec::Glob(t), alias: rng.pick(&["glob", "gl"]).to_string(), line: with_nl(rng, line, 85), rel: rel.into() }
            }
            2 => {
                let r = gen_regex(rng);
                let m = re_sample(&r, rng, FILL);
                let (line, rel) = text_line(rng, m);
                Pair { spec: Spec::Regex(r), alias: rng.pick(&["regex", "re"]).to_string(), line: with_nl(rng, line, 85), rel: rel.into() }
            }
            3 => {
                let t = gen_esc_tokens(rng, false);
                let (line, rel) = match esc_decode(&t) {
                    Some(b) if !rng.chance(1, 3) => (b, "member"),
                    Some(mut b) => {
                        b.push(b'x');
                        (b, "ext-right")
                    }
                    None => (b"x".to_vec(), "random"),
                };
                Pair { spec: Spec::Escaped(t), alias: rng.pick(&["escaped", "esc"]).to_string(), line: with_nl(rng, line, 70), rel: rel.into() }
            }
            _ => {
                let s = rand_text(rng, 6, &[55, 20, 12, 13, 0]);
                let (line, rel) = text_line(rng, Some(s.clone()));
                if which == 4 {
                    Pair { spec: Spec::Equal(s), alias: rng.pick(&["equal", "eq"]).to_string(), line: with_nl(rng, line, 80), rel: rel.into() }
                } else {
                    Pair { spec: Spec::NoEol(s), alias: "no-eol".into(), line: with_nl(rng, line, 30), rel: rel.into() }
                }
            }
        };
        let p = if which != 0 && rng.chance(2, 5) { with_cr(rng, p) } else { p };
        if usable(&p) && p.line.len() <= 120 {
            return p;
        }
    }
    Pair { spec: Spec::Glob(vec![GlobTok::Lit('a'), GlobTok::Many]), alias: "glob".into(), line: b"ab\n".to_vec(), rel: "member".into() }
}

impl C04e {
    /// (order, document, pair index, observed pass, documented pass) of the first disagreement, or a run error
    fn drive(&self, env: &Env, case: &Case) -> Result<Option<(String, String, usize, bool, bool)>, Checked> {
        let sb = Sandbox::new(env, "c04e");
        sb.write_doc("b.md", markdown_doc(case).as_bytes());
        sb.write_doc("a.t", cram_doc(case).as_bytes());
        for (order, docs) in ORDERS {
            let mut cmd = ScrutCmd::new(&sb, &["test", "--no-color", "-r", "json"]);
            for d in *docs {
                cmd = cmd.arg(*d);
            }
            let run = cmd.watchdog(Duration::from_secs(60)).run(env);
            if run.watchdog_fired {
                return Err(Checked::inconclusive(format!("watchdog ({order})")));
            }
            let kinds: Vec<&str> = case.pairs.iter().map(|p| kind_of(&p.spec)).collect();
            let outcomes = match (run.code, run.json()) {
                (Some(0), Ok(o)) | (Some(50), Ok(o)) => o,
                (code, _) => {
                    let mut k = kinds.clone();
                    k.sort();
                    k.dedup();
                    return Err(Checked::violated(
                        format!("C04/e2e/run-error/{order}//{}", k.join("+")),
                        format!(
                            "`scrut test -r json {}` ends with status {code:?} instead of a report for well-formed expectations {:?}; stderr: {}",
                            docs.join(" "),
                            case.pairs.iter().filter_map(expectation_line).collect::<Vec<_>>(),
                            run.stderr_str().lines().take(4).collect::<Vec<_>>().join(" | ")
                        ),
                    ));
                }
            };
            let mut seen: HashMap<(String, String), bool> = HashMap::new();
            for o in &outcomes {
                let loc = o["location"].as_str().unwrap_or("?").to_string();
                let title = o["title"].as_str().or_else(|| o["testcase"]["title"].as_str()).unwrap_or("?").to_string();
                seen.insert((loc, title), result_kind(o) == "success");
            }
            if outcomes.len() != docs.len() * case.pairs.len() {
                return Err(Checked::inconclusive(format!("{order}: {} outcomes for {} tests", outcomes.len(), docs.len() * case.pairs.len())));
            }
            for d in *docs {
                let cram = d.ends_with(".t");
                for (i, p) in case.pairs.iter().enumerate() {
                    let Some(want) = oracle(p, cram) else { continue };
                    let Some(got) = seen.get(&(d.to_string(), format!("T{i}"))) else {
                        return Err(Checked::inconclusive(format!("{order}: no outcome for test T{i} of {d}")));
                    };
                    if *got != want {
                        return Ok(Some((order.to_string(), d.to_string(), i, *got, want)));
                    }
                }
            }
        }
        Ok(None)
    }
}

impl Monitor for C04e {
    type Case = Case;

    fn id(&self) -> &'static str {
        "C04"
    }

    fn plan(&self, tier: Tier) -> Plan {
        let mut p = Plan::new(
            tier.pick(220, 4000),
            "e2e: 8 (expectation, output line) pairs from the in-process generators (3 globs with a backslash directly before a wildcard, 1 general glob, regex, escaped, equal, no-eol; member / near-miss lines, two fifths of the lines with a CR at the end, CR CR or a CR in the middle, printed under `{keep_crlf: true}`; output printed by an all-octal printf) as the tests of a Markdown and of a Cram document; `scrut test -r json` on [b.md], [b.md a.t], [a.t b.md]; every test's pass / fail is compared with the harness's own oracle (documented glob dialect for .md, Cram dialect for .t); non-trivial = the case has a pair whose documented verdict differs between the two dialects, or both passing and failing tests; distinct = hash of (kinds, classes, documented verdicts)",
        );
        p.chunk = 2;
        p.case_timeout_s = 180;
        p.floor_nontrivial = tier.pick(40, 400);
        let n = tier.pick(60u64, 800);
        p.floor_buckets = vec![
            ("e2e:order:md".into(), n),
            ("e2e:order:md-t".into(), n),
            ("e2e:order:t-md".into(), n),
            ("e2e:kind:glob".into(), n),
            ("e2e:kind:regex".into(), n / 2),
            ("e2e:kind:escaped".into(), n / 2),
            ("e2e:kind:equal".into(), n / 2),
            ("e2e:kind:no-eol".into(), n / 2),
            ("e2e:dialects-differ".into(), n / 2),
            ("e2e:verdict:pass".into(), n),
            ("e2e:lines:carriage-return".into(), n),
            ("e2e:lines:crlf".into(), n / 2),
            ("e2e:verdict:fail".into(), n),
        ];
        p.assumptions = vec![
            "one expectation and one output line per test, exit code 0: the test passes iff the expectation matches the line".into(),
            "expectation lines are restricted to text that both document formats take verbatim (no leading blank, `$`, `>`, `#`, backtick; no control characters except TAB)".into(),
        ];
        p
    }

    fn gen(&self, _env: &Env, _k: u64, rng: &mut Rng) -> Case {
        let mut order = vec![0usize, 0, 0, 1, 2, 3, 4, 5];
        rng.shuffle(&mut order);
        Case { pairs: order.into_iter().map(|w| gen_pair(rng, w)).collect() }
    }

    fn check(&self, env: &Env, case: &Case) -> Checked {
        if case.pairs.is_empty() || !case.pairs.iter().all(usable) {
            return Checked::out_of_scope("a pair cannot be written into both documents or has no documented verdict");
        }
        match self.drive(env, case) {
            Err(c) => c,
            Ok(Some((order, doc, i, got, want))) => {
                let p = &case.pairs[i];
                Checked::violated(
                    format!("C04/e2e/{}/verdict-differs/{order}//{}", kind_of(&p.spec), class_of(p)),
                    format!(
                        "`scrut test {}`: test T{i} of {doc} (`{}` against the output \"{}\") {}, documented: {} ({} dialect)",
                        ORDERS.iter().find(|(o, _)| *o == order).map(|(_, d)| d.join(" ")).unwrap_or_default(),
                        expectation_line(p).unwrap_or_default(),
                        show(&p.line),
                        if got { "passes" } else { "fails" },
                        if want { "pass" } else { "fail" },
                        if doc.ends_with(".t") { "Cram" } else { "Markdown" }
                    ),
                )
            }
            Ok(None) => {
                let verdicts: Vec<(Option<bool>, Option<bool>)> = case.pairs.iter().map(|p| (oracle(p, false), oracle(p, true))).collect();
                let differ = verdicts.iter().any(|(a, b)| a != b);
                let any_pass = verdicts.iter().any(|(a, _)| *a == Some(true));
                let any_fail = verdicts.iter().any(|(a, _)| *a == Some(false));
                let shape = hash_str(&format!(
                    "{:?}|{verdicts:?}",
                    case.pairs.iter().map(|p| format!("{}:{}", kind_of(&p.spec), class_of(p))).collect::<Vec<_>>()
                ));
                let mut c = Checked::held().shape(differ || (any_pass && any_fail), shape);
                for (o, _) in ORDERS {
                    c = c.bucket(format!("e2e:order:{o}"));
                }
                let mut kinds: Vec<&str> = case.pairs.iter().map(|p| kind_of(&p.spec)).collect();
                kinds.sort();
                kinds.dedup();
                for k in kinds {
                    c = c.bucket(format!("e2e:kind:{k}"));
                }
                if differ {
                    c = c.bucket("e2e:dialects-differ");
                }
                if any_pass {
                    c = c.bucket("e2e:verdict:pass");
                }
                if case.pairs.iter().any(|p| p.line.contains(&b'\r')) {
                    c = c.bucket("e2e:lines:carriage-return");
                }
                if case.pairs.iter().any(|p| p.line.ends_with(b"\r\n")) {
                    c = c.bucket("e2e:lines:crlf");
                }
                if any_fail {
                    c = c.bucket("e2e:verdict:fail").bucket("near-miss");
                }
                c
            }
        }
    }

    fn shrink(&self, case: &Case) -> Vec<Case> {
        let mut v = vec![];
        let n = case.pairs.len();
        if n > 2 {
            v.push(Case { pairs: case.pairs[..n / 2].to_vec() });
            v.push(Case { pairs: case.pairs[n / 2..].to_vec() });
        }
        if n > 1 {
            for i in 0..n {
                let mut c = case.clone();
                c.pairs.remove(i);
                v.push(c);
            }
        }
        v
    }

    fn sample(&self, case: &Case) -> Value {
        json!({
            "pairs": case.pairs.iter().map(|p| json!({
                "expectation": expectation_line(p),
                "output": show(&p.line),
                "rel": p.rel,
                "documented": {"markdown": oracle(p, false), "cram": oracle(p, true)},
            })).collect::<Vec<_>>(),
            "runs": ORDERS.iter().map(|(_, d)| format!("scrut test -r json {}", d.join(" "))).collect::<Vec<_>>(),
        })
    }
}
