//! C20 — every test case runs once, in order (prepend ++ own ++ append); one result per test case
//! that is not detached; exit status 0 / 50 / 1.
//!
//! Boundary observations only: marker log written by the test commands, `-r json` report, exit
//! status, summary line of the pretty renderer (second run, tolerant). The trace is used for one
//! cross-check (execution indices per document are 0,1,2,...), a disagreement is inconclusive.

use std::time::Duration;

use serde::Deserialize;
use serde::Serialize;
use serde_json::json;

use super::seqcommon::*;
use crate::core::*;
use crate::e2e::Sandbox;
use crate::e2e::ScrutCmd;
use crate::oracle::seqmodel::*;
use crate::rng::Rng;

pub struct C20;

#[derive(Clone, Debug, Serialize, Deserialize)]
pub struct Case {
    pub run: RunSpec,
    /// also run the pretty renderer and compare the summary line
    pub summary: bool,
}

fn ext(f: Format) -> &'static str {
    match f {
        Format::Markdown => "md",
        Format::Cram => "t",
    }
}

fn gen_test(rng: &mut Rng, id: String, fmt: Format, allow_special: bool, calm: bool) -> TestSpec {
    let mut t = TestSpec::pass(&id);
    // pass, wrong output, wrong code, expected code met, skip, timeout, detached
    let md = fmt == Format::Markdown;
    let fail = if calm { 0 } else { 3 };
    let w = [8, fail, fail, 2, if allow_special { 1 } else { 0 }, if allow_special && md && !calm { 1 } else { 0 }, if allow_special && md { 1 } else { 0 }];
    match rng.weighted(&w) {
        0 => {}
        1 => t.output_ok = false,
        2 => {
            t.exit = *rng.pick(&[1, 2, 3, 9, 127]);
            t.expect_code = match rng.below(3) {
                0 => None,
                1 => Some(0),
                _ => Some(t.exit + 1),
            };
            t.hard_exit = md && rng.bool();
        }
        3 => {
            t.exit = *rng.pick(&[1, 3, 42]);
            t.expect_code = Some(t.exit);
            t.hard_exit = md && rng.bool();
        }
        4 => {
            t.exit = DEFAULT_SKIP_CODE;
            t.hard_exit = rng.bool();
            if rng.bool() {
                t.expect_code = Some(DEFAULT_SKIP_CODE);
            }
        }
        5 => {
            t.timeout_ms = Some(300);
            t.sleep_ms = 8000;
        }
        _ => t.detached = true,
    }
    t
}

fn gen_run(rng: &mut Rng) -> RunSpec {
    let n_docs = 1 + rng.weighted(&[3, 4, 3, 1, 1]);
    // a quarter of the runs contain nothing that fails (exit status 0)
    let calm = rng.chance(1, 4);
    // "suite" runs: documents without test cases of their own (front-matter / prose only) whose
    // whole content comes from prepend / append
    let suite = rng.chance(1, 6);
    let cli_pre = rng.chance(if suite { 2 } else { 1 }, 4);
    let cli_app = rng.chance(if suite { 2 } else { 1 }, 4);
    // one document whose budget is used up by a `wait` between two test cases (sleeps 2 s)
    let wait_doc: Option<usize> = if !calm && rng.chance(1, 12) { Some(rng.below(n_docs)) } else { None };
    let uniform: Option<Format> = if cli_pre || cli_app {
        Some(if rng.chance(2, 3) { Format::Markdown } else { Format::Cram })
    } else {
        None
    };
    let mut aux: Vec<DocSpec> = vec![];
    let mk_aux = move |rng: &mut Rng, tag: &str, fmt: Format, aux: &mut Vec<DocSpec>| -> String {
        let k = aux.len();
        let name = format!("aux/{tag}{k}.{}", ext(fmt));
        let n = 1 + rng.below(2);
        let tests = (0..n).map(|j| gen_test(rng, format!("{tag}{k}t{j}"), fmt, false, calm)).collect();
        aux.push(DocSpec::new(&name, fmt, tests));
        name
    };
    let mut cli_prepend = vec![];
    let mut cli_append = vec![];
    if cli_pre {
        for _ in 0..1 + rng.below(2) {
            cli_prepend.push(mk_aux(rng, "P", uniform.unwrap(), &mut aux));
        }
    }
    if cli_app {
        for _ in 0..1 + rng.below(2) {
            cli_append.push(mk_aux(rng, "A", uniform.unwrap(), &mut aux));
        }
    }
    // the last documents may live in a directory that is given as one argument
    // a quarter of the runs reach some documents through symbolic links: 1 = a linked single
    // document, 2 = the directory argument is a link, 3 = a linked sub-directory below the
    // directory argument
    let link_kind = if rng.chance(1, 4) { 1 + rng.below(3) } else { 0 };
    let in_dir = if n_docs >= 2 && rng.chance(1, 3) { 1 + rng.below(n_docs.min(3)) } else { 0 };
    let in_dir = if link_kind >= 2 { in_dir.max(1) } else { in_dir };
    let mut docs = vec![];
    for d in 0..n_docs {
        let waiting = wait_doc == Some(d) && uniform != Some(Format::Cram);
        let fmt = if waiting { Format::Markdown } else { uniform.unwrap_or(if rng.chance(3, 5) { Format::Markdown } else { Format::Cram }) };
        let dir = if d >= n_docs - in_dir { "sub/" } else { "" };
        let name = format!("{dir}d{d}.{}", ext(fmt));
        let zero = suite && !waiting && rng.bool();
        let n = if zero { 0 } else { 1 + rng.weighted(&[2, 3, 3, 2]) };
        let mut tests: Vec<TestSpec> = (0..n).map(|j| gen_test(rng, format!("d{d}t{j}"), fmt, !waiting, calm)).collect();
        if waiting {
            // ... plain test cases, the waiting one, at least one plain test case after it
            let at = rng.below(n);
            let mut w = TestSpec::pass(&format!("d{d}w"));
            w.wait_ms = Some(2000);
            tests.insert(at, w);
            if at + 1 == tests.len() {
                tests.push(TestSpec::pass(&format!("d{d}z")));
            }
        }
        let mut doc = DocSpec::new(&name, fmt, tests);
        if waiting {
            doc.total_timeout_ms = Some(1000);
        }
        if fmt == Format::Markdown {
            let force = zero && !cli_pre && !cli_app;
            if rng.chance(if zero { 2 } else { 1 }, 4) || force {
                for _ in 0..1 + rng.below(2) {
                    let n = mk_aux(rng, "p", Format::Markdown, &mut aux);
                    doc.prepend.push(n);
                }
            }
            if rng.chance(if zero { 2 } else { 1 }, 4) {
                for _ in 0..1 + rng.below(2) {
                    let n = mk_aux(rng, "a", Format::Markdown, &mut aux);
                    doc.append.push(n);
                }
            }
        }
        docs.push(doc);
    }
    // scrut could not do its job
    if !calm && rng.chance(1, 7) {
        let d = rng.below(docs.len());
        let md = docs[d].format == Format::Markdown;
        match rng.below(5) {
            0 => docs[d].defect = Defect::Missing,
            1 => docs[d].defect = Defect::NotUtf8,
            2 if md => docs[d].defect = Defect::BadFrontMatter,
            3 if md => docs[d].defect = Defect::MissingShell,
            _ => {
                if !md && !docs[d].tests.is_empty() {
                    let j = rng.below(docs[d].tests.len());
                    let t = &mut docs[d].tests[j];
                    *t = TestSpec::pass(&t.id.clone());
                    t.exit = *rng.pick(&[0, 3]);
                    t.hard_exit = true;
                    t.expect_code = Some(t.exit);
                } else if let Some(a) = aux.iter_mut().find(|a| a.name.starts_with("aux/p") || a.name.starts_with("aux/a")) {
                    a.defect = if rng.bool() { Defect::Missing } else { Defect::BadFrontMatter };
                }
            }
        }
    }
    // symbolic links: only documents without front-matter includes and without a defect (see the
    // model); the stores are never given on the command line and never point upwards
    let linkable = |d: &DocSpec| d.defect == Defect::None && d.prepend.is_empty() && d.append.is_empty();
    match link_kind {
        1 => {
            let cands: Vec<usize> = (0..docs.len()).filter(|i| !docs[*i].name.contains('/') && linkable(&docs[*i])).collect();
            if !cands.is_empty() {
                let i = *rng.pick(&cands);
                let target = format!("store/{}", docs[i].name);
                docs[i].stored_at = Some(target.clone());
                docs[i].link = Some((docs[i].name.clone(), target));
            }
        }
        2 => {
            if docs.iter().filter(|d| d.name.starts_with("sub/")).all(linkable) {
                for d in docs.iter_mut().filter(|d| d.name.starts_with("sub/")) {
                    d.stored_at = Some(d.name.replacen("sub/", "realsub/", 1));
                    d.link = Some(("sub".to_string(), "realsub".to_string()));
                }
            }
        }
        3 => {
            let cands: Vec<usize> = (0..docs.len()).filter(|i| docs[*i].name.starts_with("sub/") && linkable(&docs[*i])).collect();
            if !cands.is_empty() {
                let i = *rng.pick(&cands);
                let base = docs[i].name.replacen("sub/", "", 1);
                docs[i].name = format!("sub/inner/{base}");
                docs[i].stored_at = Some(format!("store/inner/{base}"));
                docs[i].link = Some(("sub/inner".to_string(), "store/inner".to_string()));
            }
        }
        _ => {}
    }
    let mut args: Vec<String> = vec![];
    for d in &docs {
        if d.name.starts_with("sub/") {
            if !args.contains(&"sub".to_string()) {
                args.push("sub".into());
            }
        } else {
            args.push(d.name.clone());
        }
    }
    // a missing document inside a directory is simply not there: name it explicitly instead
    if docs.iter().any(|d| d.defect == Defect::Missing && d.name.starts_with("sub/")) {
        args.retain(|a| a != "sub");
        for d in &docs {
            if d.name.starts_with("sub/") {
                args.push(d.name.clone());
            }
        }
    }
    RunSpec {
        docs,
        aux,
        args,
        cli_prepend,
        cli_append,
        cli_timeout_s: None,
            cram_compat: false,
    }
}

/// summary line of the pretty renderer against the JSON report of the same documents
pub fn summary_findings(env: &Env, run: &RunSpec, results: &[(String, String, String)], name: &str) -> (Vec<Finding>, Vec<String>) {
    let sb = Sandbox::new(env, name);
    write_docs(&sb, run);
    let args: Vec<String> = argv(run).into_iter().filter(|a| a != "-r" && a != "json").collect();
    let argrefs: Vec<&str> = args.iter().map(|s| s.as_str()).collect();
    let p = ScrutCmd::new(&sb, &argrefs).run(env);
    let mut out = vec![];
    let mut buckets = vec![];
    if p.watchdog_fired {
        return (out, vec!["summary:watchdog".into()]);
    }
    let Some((d, t, a, b, c)) = parse_summary(&p.stdout_str()) else {
        return (out, vec!["summary:unparsed".into()]);
    };
    buckets.push("summary:read".to_string());
    let count = |cl: Class| results.iter().filter(|r| Class::of_kind(&r.2) == cl).count() as u64;
    let (ja, jc) = (count(Class::Pass), count(Class::Skipped));
    let jb = count(Class::Fail) + count(Class::Timeout);
    let mut locs: Vec<&String> = results.iter().map(|r| &r.0).collect();
    locs.sort();
    locs.dedup();
    if t != a + b + c {
        out.push(Finding {
            clause: "summary".into(),
            cause: "does-not-add-up".into(),
            detail: format!("summary says {t} testcase(s) but {a} succeeded + {b} failed + {c} skipped"),
        });
    } else if (a, b, c) != (ja, jb, jc) {
        let which = if a != ja {
            "succeeded"
        } else if b != jb {
            "failed"
        } else {
            "skipped"
        };
        out.push(Finding {
            clause: "summary".into(),
            cause: format!("differs-from-report/{which}"),
            detail: format!("summary: {a} succeeded, {b} failed, {c} skipped; JSON report of the same documents: {ja}, {jb}, {jc}"),
        });
    } else if d != locs.len() as u64 {
        buckets.push("summary:document-count-differs".into());
    }
    (out, buckets)
}

/// execution indices of every document (segment between two `env_new`) must be 0,1,2,...
pub fn trace_indices_ok(trace: &[serde_json::Value]) -> Result<usize, String> {
    let mut expect = 0u64;
    let mut n = 0usize;
    for e in trace {
        match e["kind"].as_str() {
            Some("env_new") => expect = 0,
            Some("exec_begin") => {
                let i = e["data"]["index"].as_u64().unwrap_or(u64::MAX);
                if i != expect {
                    return Err(format!("exec_begin index {i} where {expect} was expected"));
                }
                expect += 1;
                n += 1;
            }
            _ => {}
        }
    }
    Ok(n)
}

impl Monitor for C20 {
    type Case = Case;

    fn id(&self) -> &'static str {
        "C20"
    }

    fn plan(&self, tier: Tier) -> Plan {
        let mut p = Plan::new(
            tier.pick(300, 6000),
            "runs of 1-5 generated documents (Markdown/Cram, files and a directory, front-matter and CLI prepend/append) whose test cases pass / fail on output / fail on code / skip / time out (300 ms vs sleep 8) / detach / wait 2 s under a 1 s document limit, documents reached through symbolic links (a linked document, a linked directory argument, a linked sub-directory of the directory argument; no cycles), documents without own test cases (front-matter or prose only) that consist of includes, plus runs scrut cannot do (missing, non-UTF-8, unparsable document or include, missing shell, Cram script ended by exit); judged on marker log, -r json, exit status, summary line; non-trivial = at least two test cases executed and (more than one document, or includes, or a behaviour other than pass); distinct = hash of (format, document end, role/detached/result classes per test case) over the run",
        );
        p.chunk = tier.pick(2, 4);
        p.case_timeout_s = 120;
        p.floor_nontrivial = tier.pick(50, 800);
        p.floor_buckets = vec![
            ("doc:markdown:completed".into(), tier.pick(55, 800)),
            ("doc:cram:completed".into(), tier.pick(34, 500)),
            ("exit:0".into(), tier.pick(18, 270)),
            ("exit:50".into(), tier.pick(33, 500)),
            ("exit:1".into(), tier.pick(4, 60)),
            ("includes".into(), tier.pick(40, 600)),
            ("markers-read".into(), tier.pick(60, 1200)),
            ("zero-own-tests:with-includes".into(), tier.pick(8, 150)),
            ("wait:budget-exhausted".into(), tier.pick(1, 25)),
            ("links:any".into(), tier.pick(7, 140)),
        ];
        p.assumptions = vec![
            "not claimed: execution of test cases after a skipping or timed-out one, marker of the timed-out test case, anything but the exit status when the run is aborted, order of documents inside a directory argument, order of results in the report".into(),
            "included documents have the format of the including document and no configuration of their own".into(),
        ];
        p
    }

    fn gen(&self, _env: &Env, _k: u64, rng: &mut Rng) -> Case {
        // regenerate until the model decides the run (bounded)
        for _ in 0..20 {
            let run = gen_run(rng);
            if model_run(&run).is_ok() {
                return Case {
                    run,
                    summary: rng.chance(1, 3),
                };
            }
        }
        Case {
            run: RunSpec {
                docs: vec![DocSpec::new("d0.md", Format::Markdown, vec![TestSpec::pass("d0t0")])],
                aux: vec![],
                args: vec!["d0.md".into()],
                cli_prepend: vec![],
                cli_append: vec![],
                cli_timeout_s: None,
            cram_compat: false,
            },
            summary: false,
        }
    }

    fn check(&self, env: &Env, case: &Case) -> Checked {
        let model = match model_run(&case.run) {
            Ok(m) => m,
            Err(e) => return Checked::out_of_scope(e),
        };
        let sb = Sandbox::new(env, "c20");
        let awaited = awaited_detached(&model);
        let obs = drive(env, &sb, &case.run, Duration::from_secs(60), Duration::from_secs(5), &|m: &[String]| {
            awaited.iter().any(|id| !m.contains(id))
        });
        let j = judge(
            &case.run,
            &model,
            &obs,
            Clauses {
                markers: true,
                results: true,
                exit: true,
            },
        );
        if let Some(r) = j.inconclusive {
            return Checked::inconclusive(r);
        }
        let mut buckets = j.buckets.clone();
        buckets.push("markers-read".into());
        if !case.run.aux.is_empty() {
            buckets.push("includes".into());
        }
        if case.run.args.iter().any(|a| a == "sub") {
            buckets.push("dir-arg".into());
        }
        if let Some(w) = model.aborted {
            buckets.push(format!("abort:{w}"));
        }
        for (spec, d) in case.run.docs.iter().zip(model.docs.iter()) {
            if spec.tests.is_empty() && spec.defect == Defect::None {
                buckets.push(if d.seq.is_empty() { "zero-own-tests:nothing-included" } else { "zero-own-tests:with-includes" }.into());
            }
            if let Some((l, _)) = &spec.link {
                buckets.push(format!("links:{}", if *l == spec.name { "single-document" } else if l == "sub" { "directory-argument" } else { "sub-directory" }));
                buckets.push("links:any".into());
            }
            if matches!(d.end, DocEnd::TimedOut { or_next: true, .. }) {
                buckets.push("wait:budget-exhausted".into());
            }
        }
        let mut findings = j.findings;
        let timing = model.docs.iter().any(|d| matches!(d.end, DocEnd::TimedOut { .. }) || d.seq.iter().any(|t| t.detached));
        if findings.is_empty() && case.summary && !timing && model.aborted.is_none() {
            if let Some(rs) = &obs.results {
                let (f, b) = summary_findings(env, &case.run, rs, "c20s");
                findings.extend(f);
                buckets.extend(b);
            }
        }
        let executed: usize = obs.markers.len();
        let interesting = case.run.docs.len() > 1
            || !case.run.aux.is_empty()
            || model.docs.iter().any(|d| d.end != DocEnd::Completed || d.fails || d.seq.iter().any(|t| t.detached));
        let mut c = if let Some(f) = first_by(&findings, &["executed-more-than-once", "not-executed", "marker-unknown", "execution-order"]) {
            Checked::violated(f.sig("C20"), f.detail.clone())
        } else {
            // secondary evidence
            match trace_indices_ok(&obs.trace) {
                Ok(n) => {
                    buckets.push(if n > 0 { "trace:exec-indices-checked".to_string() } else { "trace:no-exec-events".to_string() });
                    Checked::held()
                }
                Err(e) => return Checked::inconclusive(format!("trace cross-check: {e}")),
            }
        };
        c = c.shape(executed >= 2 && interesting, shape_of(&j.docs) ^ (case.run.args.len() as u64));
        for b in buckets {
            c = c.bucket(b);
        }
        if model.docs.iter().any(|d| d.end != DocEnd::Completed) {
            c = c.bucket("near-miss:stopped-document");
        }
        c
    }

    fn shrink(&self, case: &Case) -> Vec<Case> {
        shrink_run(&case.run)
            .into_iter()
            .map(|run| Case {
                run,
                summary: case.summary,
            })
            .collect()
    }

    fn sample(&self, case: &Case) -> serde_json::Value {
        let mut v = sample_run(&case.run);
        v["summary_run"] = json!(case.summary);
        if let Ok(m) = model_run(&case.run) {
            v["model"] = json!(format!("{} -> exit {}", describe(&m.docs), m.exit));
        }
        v
    }
}
