//! C12 — shell state carries from one test case to the next as if run in one shell.
//!
//! World A (scrut): `StatefulExecutor` + `BashRunner`, one bash process per test case,
//! tests alternate *snippet* / *probe*.  World B (reference): ONE `/bin/bash` reading
//! `shopt -s expand_aliases; snippet1; probe; snippet2; probe; ...` from stdin, started
//! with the same environment variables in a fresh directory of the same shape.
//! The probe is the same text in both worlds, runs in a sub-shell (leaves nothing
//! behind) and prints one section per observed item; after replacing the two root
//! directories by `<ROOT>` every section of every probe must be byte-identical.
//!
//! A diverging history is minimised *inside* `check` (the signature is a function of
//! the 1-minimal op list, so it has to be known before the framework compares
//! signatures while shrinking); the minimal history is handed to the framework's
//! shrinker through a process-local cache.

use std::cell::RefCell;
use std::collections::BTreeMap;
use std::collections::BTreeSet;
use std::io::Write;
use std::process::Command;
use std::process::Stdio;
use std::time::Duration;
use std::time::Instant;

use scrut::config::TestCaseConfig;
use scrut::config::TestCaseWait;
use scrut::output::ExitStatus;
use serde::Deserialize;
use serde::Serialize;
use serde_json::json;
use serde_json::Value;

use super::execcommon::*;
use crate::core::*;
use crate::rng::hash_str;
use crate::rng::Rng;

pub struct C12;

// ---------------------------------------------------------------- case

#[derive(Clone, Debug, PartialEq, Serialize, Deserialize)]
#[serde(tag = "op", rename_all = "kebab-case")]
pub enum Op {
    Set { name: String, val: String },
    Export { name: String, val: Option<String> },
    Unexport { name: String },
    Unset { name: String },
    /// declare -i / -l / -u
    Attr { name: String, attr: String, val: String },
    Readonly { name: String, val: String },
    /// IFS=<value> (digits, empty, newline, ...): shell state like any other variable, and
    /// hostile to every unquoted expansion of the carrier
    Ifs { val: String },
    ArrSet { name: String, elems: Vec<(u32, String)> },
    ArrElem { name: String, idx: u32, val: String },
    ArrAppend { name: String, val: String },
    ArrUnsetElem { name: String, idx: u32 },
    AssocSet { name: String, pairs: Vec<(String, String)> },
    AssocElem { name: String, key: String, val: String },
    AssocUnsetElem { name: String, key: String },
    FnDef { name: String, body: String },
    FnUnset { name: String },
    /// `NAME() { builtin NAME "$@" && echo "shadow-NAME"; }` for a command name
    Shadow { name: String },
    AliasDef { name: String, val: String },
    Unalias { name: String },
    SetO { opt: String, on: bool },
    Shopt { opt: String, on: bool },
    Mkcd { dir: String },
    CdUp,
    CdBack,
    Pushd { dir: String },
    Popd,
    /// enter a fresh, empty directory of its own and remove it: the working directory is gone
    RmCwd,
    /// remove the carrier's state directory while the test runs. Written so that it is a no-op
    /// wherever `__SCRUT_TEMP_STATE_PATH` is not a `.../tmp/.state.*` path (the reference shell)
    WipeState,
    /// the user's own `trap .. EXIT`: it replaces the carrier's (known finding R56)
    TrapExit,
    /// `unset HOME`: a variable that every process starts with (known finding R57)
    UnsetInherited { name: String },
    /// `export -n HOME`: a variable that every process starts with as exported loses the attribute, keeps its value (R64)
    UnexportInherited { name: String },
    /// `PATH=/vh-nonexistent`: no external command is found anymore, also not by the carrier
    BreakPath,
}

#[derive(Clone, Debug, PartialEq, Serialize, Deserialize)]
pub struct Step {
    pub ops: Vec<Op>,
    #[serde(default)]
    pub detached: bool,
}

#[derive(Clone, Debug, PartialEq, Serialize, Deserialize)]
pub struct History {
    pub steps: Vec<Step>,
    /// LC_ALL=C.UTF-8 instead of scrut's default C (as a document could configure)
    #[serde(default)]
    pub utf8: bool,
    /// which of several diverging sections is reported (rotation, so that one
    /// pervasive divergence cannot mask the others over a run)
    #[serde(default)]
    pub pick: u32,
    /// set on shrunk witnesses: the section whose divergence is reported
    #[serde(default)]
    pub focus: Option<String>,
}

// ---------------------------------------------------------------- pools

const SCALARS: &[&str] = &["V0", "V1", "V2", "V3"];
const PREFIXED: &[&str] = &["UIDX", "LINENO2", "BASH_FOO", "PPID_", "EUID2", "SHELLOPTS_X", "_V", "v0"];
/// everyday names that a carrier written in bash is tempted to use for its own locals
/// (`__scrut_persist_state` has `local code=$?`): the user's variables of that name must carry too
const TEMPLATE_LIKE: &[&str] = &["code", "line", "name", "status", "i", "REPLY"];
const INTS: &[&str] = &["I0", "I1"];
const LOWERS: &[&str] = &["L0"];
const UPPERS: &[&str] = &["U0"];
const READONLYS: &[&str] = &["R0", "R1"];
const ARRAYS: &[&str] = &["A0", "A1"];
const ASSOCS: &[&str] = &["M0", "M1"];
const FUNCS: &[&str] = &["f0", "f1", "f2", "my-func", "g.h"];
/// user functions that shadow the commands the carrier's own restore lines use
const SHADOW_DIR: &[&str] = &["cd", "pushd", "popd"];
const SHADOW_BUILTIN: &[&str] = &["declare", "alias", "shopt", "set", "export", "unset", "source", "trap", "eval", "exit", "test", "printf", "echo"];
/// .. and the external commands of the persisting side (`grep() { command grep --color "$@"; }` is an everyday function)
const SHADOW_EXTERNAL: &[&str] = &["grep", "sed", "tail", "mkdir"];
/// .. and `builtin` / `command` themselves, which is how the carrier reaches the real commands (known finding R47)
const SHADOW_WRAPPER: &[&str] = &["builtin", "command"];
/// aliases with the names of commands the restore lines use: `alias cd='echo alias-cd; cd'`
const SHADOW_ALIAS: &[&str] = &["cd", "pushd", "declare", "set", "shopt", "alias", "unset", "trap", "test", "exit"];
const ALIASES: &[&str] = &["a0", "a1", "ll"];
const SET_OPTS: &[&str] = &["allexport", "errexit", "nounset", "noclobber", "noglob", "pipefail", "posix"];
const SHOPT_OPTS: &[&str] = &[
    "extglob",
    "nullglob",
    "dotglob",
    "globstar",
    "nocasematch",
    "nocaseglob",
    "lastpipe",
    "inherit_errexit",
    // the carrier itself runs `shopt -s expand_aliases` (as does the reference shell, first thing):
    // a user's `shopt -u expand_aliases` has to survive that
    "expand_aliases",
];
const DIRS: &[&str] = &["d1", "d 2", "sub dir", "x", "ü"];

fn var_names() -> Vec<&'static str> {
    let mut v = vec![];
    for p in [SCALARS, PREFIXED, TEMPLATE_LIKE, INTS, LOWERS, UPPERS, READONLYS, ARRAYS, ASSOCS] {
        v.extend_from_slice(p);
    }
    // a variable of the sealed process environment that both worlds start with
    v.push("HOME");
    v
}

const VALUES: &[(&str, &str)] = &[
    ("plain", "abc"),
    ("plain", "x1"),
    ("space", "a b  c"),
    ("space", " lead and trail "),
    ("squote", "it's"),
    ("dquote", "say \"hi\""),
    ("dollar", "$HOME ${x} $(id) `id`"),
    ("backslash", "a\\b\\\\c"),
    ("backslash", "trail\\"),
    ("nl", "l1\nl2"),
    ("nl", "trailing\n"),
    ("nl", "\n\nlead"),
    ("nonascii", "grüße €"),
    ("nonascii", "日本 😊"),
    ("dash", "-n"),
    ("dash", "-e x"),
    ("empty", ""),
    ("glob", "* ? [a-z]*"),
    ("punct", "a;b #c &d |e (f) <g> !h"),
    ("punct", "k=v"),
    ("ctl", "t\tab"),
    ("ctl", "c\rr"),
    ("mixed", "a 'b' \"c\" $d \\e\n-f ü"),
];

const INT_VALUES: &[&str] = &["7*6", "5+3", "-4", "010", "0x1F", "2**10"];
const CASE_VALUES: &[&str] = &["MiXed", "Ab Cd", "x-Y_z"];

/// function bodies: (class, text with NAME as the function's name)
const BODIES: &[(&str, &str)] = &[
    ("simple", "NAME() { echo \"a  b\"; }"),
    ("simple", "NAME() { return 3; }"),
    ("keyword", "function NAME { local x=1; echo \"$x\"; }"),
    ("quotes", "NAME() { printf '%s\\n' \"it's\" 'say \"hi\"' $'tab\\there' \"\\$x \\\\\"; }"),
    ("heredoc", "NAME() {\ncat <<EOF\n here $1 'q' \"d\"\n  indented\nEOF\n}"),
    ("heredoc", "NAME() {\ncat <<'EOF'\n$literal \\n `x`\nEOF\necho after\n}"),
    ("subshell", "NAME() ( cd /; pwd )"),
    ("case", "NAME() { case \"$1\" in a|b) echo ab;; *) echo other;; esac; }"),
    ("redir", "NAME() { echo x >/dev/null 2>&1; }"),
    ("multi", "NAME() {\n  if [ \"$#\" -gt 0 ]; then\n    for i in \"$@\"; do echo \"$i\"; done\n  fi\n  [[ $1 == a* ]] && echo y\n}"),
    ("nonascii", "NAME() { echo \"grüße €\"; }"),
    ("arith", "NAME() { (( x = 1 + 2 )); echo $(( x * 2 )) ${x:-d} ${#x}; }"),
    ("alias-call", "NAME() { ll -a; a0; }"),
    // needs `extglob` at parse time: the option has to be restored before the function is (the generator
    // never switches extglob off again once such a body exists)
    ("extglob", "shopt -s extglob\nNAME() { case \"$1\" in +(a|b)) echo ext;; !(c)) echo notc;; *) echo other;; esac; }"),
];

const ALIAS_VALUES: &[(&str, &str)] = &[
    ("plain", "ls"),
    ("space", "ls -l"),
    ("dquote", "echo \"x y\""),
    ("squote", "echo 'it'\\''s'"),
    ("squote", "printf '%s\\n'"),
    ("dollar", "echo $HOME"),
    ("backslash", "echo a\\\\b"),
    ("trailsp", "sudo "),
    ("nonascii", "echo ü"),
    // values of more than one line: every line of them is alias text, whatever it looks like
    ("multiline", "printf '%s\\n' \"hello\nworld\""),
    ("multiline", "for i in 1 2\ndo\necho $i\ndone"),
    ("multiline", "echo first\nalias zz=1"),
];

fn value_class(v: &str) -> String {
    let mut cls: BTreeSet<&str> = BTreeSet::new();
    if v.is_empty() {
        cls.insert("empty");
    }
    for c in v.chars() {
        match c {
            '\n' => cls.insert("nl"),
            '\t' | '\r' => cls.insert("ctl"),
            ' ' => cls.insert("space"),
            '\'' => cls.insert("squote"),
            '"' => cls.insert("dquote"),
            '$' | '`' => cls.insert("dollar"),
            '\\' => cls.insert("backslash"),
            '*' | '?' | '[' | ']' => cls.insert("glob"),
            c if !c.is_ascii() => cls.insert("nonascii"),
            c if c.is_ascii_alphanumeric() || c == '_' => false,
            '-' if v.starts_with('-') => cls.insert("dash"),
            _ => cls.insert("punct"),
        };
    }
    cls.into_iter().collect::<Vec<_>>().join("+")
}

fn name_class(n: &str) -> &'static str {
    if PREFIXED.contains(&n) {
        "pfx"
    } else if TEMPLATE_LIKE.contains(&n) {
        "tmpl"
    } else if n.contains('-') || n.contains('.') {
        "dashed"
    } else {
        ""
    }
}

fn body_class(body: &str) -> &'static str {
    BODIES.iter().find(|(_, b)| *b == body).map(|(c, _)| *c).unwrap_or("custom")
}

fn decorate(base: &str, name: &str, val: Option<&str>) -> String {
    let mut t = base.to_string();
    let nc = name_class(name);
    if !nc.is_empty() {
        t.push_str(&format!("[{nc}]"));
    }
    if let Some(v) = val {
        let vc = value_class(v);
        if !vc.is_empty() {
            t.push_str(&format!("({vc})"));
        }
    }
    t
}

impl Op {
    /// structural tag: op class, name class, value class (never the content)
    pub fn tag(&self) -> String {
        match self {
            Op::Set { name, val } => decorate("var.set", name, Some(val)),
            Op::Export { name, val } => decorate("var.export", name, val.as_deref()),
            Op::Unexport { name } => decorate("var.unexport", name, None),
            Op::Unset { name } => decorate("var.unset", name, None),
            Op::Attr { name, attr, .. } => decorate(&format!("var.attr.{attr}"), name, None),
            Op::Readonly { name, val } => decorate("var.readonly", name, Some(val)),
            Op::Ifs { val } => format!(
                "var.ifs({})",
                if val.is_empty() {
                    "empty"
                } else if val.chars().any(|c| c.is_ascii_digit()) {
                    "digit"
                } else {
                    "other"
                }
            ),
            Op::ArrSet { elems, .. } => {
                let sparse = elems.iter().enumerate().any(|(i, (k, _))| *k as usize != i);
                let vc = elems.iter().map(|(_, v)| value_class(v)).filter(|c| !c.is_empty()).collect::<BTreeSet<_>>();
                let mut t = String::from("var.arr.set");
                if sparse {
                    t.push_str("[sparse]");
                }
                if !vc.is_empty() {
                    t.push_str(&format!("({})", vc.into_iter().collect::<Vec<_>>().join("+")));
                }
                t
            }
            Op::ArrElem { val, .. } => decorate("var.arr.elem", "", Some(val)),
            Op::ArrAppend { val, .. } => decorate("var.arr.append", "", Some(val)),
            Op::ArrUnsetElem { .. } => "var.arr.unset-elem".into(),
            Op::AssocSet { pairs, .. } => {
                let kc = pairs.iter().map(|(k, _)| value_class(k)).filter(|c| !c.is_empty()).collect::<BTreeSet<_>>();
                let vc = pairs.iter().map(|(_, v)| value_class(v)).filter(|c| !c.is_empty()).collect::<BTreeSet<_>>();
                let mut t = String::from("var.assoc.set");
                if !kc.is_empty() {
                    t.push_str(&format!("[key:{}]", kc.into_iter().collect::<Vec<_>>().join("+")));
                }
                if !vc.is_empty() {
                    t.push_str(&format!("({})", vc.into_iter().collect::<Vec<_>>().join("+")));
                }
                t
            }
            Op::AssocElem { key, val, .. } => {
                let kc = value_class(key);
                let mut t = String::from("var.assoc.elem");
                if !kc.is_empty() {
                    t.push_str(&format!("[key:{kc}]"));
                }
                let vc = value_class(val);
                if !vc.is_empty() {
                    t.push_str(&format!("({vc})"));
                }
                t
            }
            Op::AssocUnsetElem { .. } => "var.assoc.unset-elem".into(),
            Op::FnDef { name, body } => {
                let mut t = decorate("fn.def", name, None);
                let bc = body_class(body);
                if bc != "simple" {
                    t.push_str(&format!("({bc})"));
                }
                t
            }
            Op::FnUnset { name } => decorate("fn.unset", name, None),
            Op::Shadow { name } => format!("fn.shadow.{name}"),
            Op::AliasDef { name, .. } if SHADOW_ALIAS.contains(&name.as_str()) => format!("alias.shadow.{name}"),
            Op::AliasDef { val, .. } => decorate("alias.def", "", Some(val)),
            Op::Unalias { .. } => "alias.unset".into(),
            Op::SetO { opt, on } => format!("opt.set.{opt}.{}", if *on { "on" } else { "off" }),
            Op::Shopt { opt, on } => format!("shopt.{opt}.{}", if *on { "on" } else { "off" }),
            Op::Mkcd { dir } => decorate("dir.cd", "", Some(dir)),
            Op::CdUp => "dir.cd-up".into(),
            Op::CdBack => "dir.cd-back".into(),
            Op::Pushd { dir } => decorate("dir.pushd", "", Some(dir)),
            Op::Popd => "dir.popd".into(),
            Op::RmCwd => "dir.rm-cwd".into(),
            Op::WipeState => "carrier.wipe-state-dir".into(),
            Op::TrapExit => "trap.exit".into(),
            Op::UnsetInherited { .. } => "var.unset-inherited".into(),
            Op::UnexportInherited { .. } => "var.unexport-inherited".into(),
            Op::BreakPath => "var.path-broken".into(),
        }
    }

    /// coverage class (bucket `probed:<class>`)
    pub fn class(&self) -> &'static str {
        match self {
            Op::Set { name, .. } if name_class(name) == "pfx" => "var.pfx",
            Op::Set { name, .. } if name_class(name) == "tmpl" => "var.tmpl",
            Op::Set { .. } => "var.scalar",
            Op::Export { .. } | Op::Unexport { .. } => "var.export",
            Op::Unset { .. } => "var.unset",
            Op::Attr { .. } => "var.attr",
            Op::Readonly { .. } => "var.readonly",
            Op::Ifs { .. } => "var.ifs",
            Op::ArrSet { .. } | Op::ArrElem { .. } | Op::ArrAppend { .. } | Op::ArrUnsetElem { .. } => "var.array",
            Op::AssocSet { .. } | Op::AssocElem { .. } | Op::AssocUnsetElem { .. } => "var.assoc",
            Op::FnDef { name, .. } if name_class(name) == "dashed" => "fn.dashed",
            Op::FnDef { .. } | Op::FnUnset { .. } => "fn",
            Op::Shadow { name } if SHADOW_DIR.contains(&name.as_str()) => "fn.shadow-dir",
            Op::Shadow { name } if SHADOW_EXTERNAL.contains(&name.as_str()) => "fn.shadow-external",
            Op::Shadow { name } if SHADOW_WRAPPER.contains(&name.as_str()) => "fn.shadow-wrapper",
            Op::Shadow { .. } => "fn.shadow-builtin",
            Op::AliasDef { name, .. } if SHADOW_ALIAS.contains(&name.as_str()) => "alias.shadow",
            Op::AliasDef { .. } | Op::Unalias { .. } => "alias",
            Op::SetO { .. } => "opt",
            Op::Shopt { .. } => "shopt",
            Op::Mkcd { .. } | Op::CdUp | Op::CdBack => "dir.cd",
            Op::Pushd { .. } | Op::Popd => "dir.stack",
            Op::RmCwd => "dir.rm-cwd",
            Op::WipeState => "carrier.wipe",
            Op::TrapExit => "trap.exit",
            Op::UnsetInherited { .. } => "var.unset-inherited",
            Op::UnexportInherited { .. } => "var.unexport-inherited",
            Op::BreakPath => "var.path-broken",
        }
    }

    fn major(&self) -> &'static str {
        let c = self.class();
        c.split('.').next().unwrap_or(c)
    }

    /// the shell text of the op; never fails, never exits, never reads stdin
    pub fn render(&self) -> String {
        match self {
            Op::Set { name, val } => format!("{name}={}", sh_quote(val)),
            Op::Export { name, val: Some(v) } => format!("export {name}={}", sh_quote(v)),
            Op::Export { name, val: None } => format!("export {name}"),
            Op::Unexport { name } => format!("export -n {name}"),
            Op::Unset { name } => format!("unset -v {name}"),
            Op::Attr { name, attr, val } => format!("declare -{attr} {name}={}", sh_quote(val)),
            Op::Readonly { name, val } => format!("readonly {name}={}", sh_quote(val)),
            Op::Ifs { val } => format!("IFS={}", if val.is_empty() { "''".to_string() } else { sh_quote(val) }),
            Op::ArrSet { name, elems } => {
                let body: Vec<String> = elems.iter().map(|(i, v)| format!("[{i}]={}", sh_quote(v))).collect();
                format!("{name}=({})", body.join(" "))
            }
            Op::ArrElem { name, idx, val } => format!("{name}[{idx}]={}", sh_quote(val)),
            Op::ArrAppend { name, val } => format!("{name}+=({})", sh_quote(val)),
            Op::ArrUnsetElem { name, idx } => format!("unset -v '{name}[{idx}]'"),
            Op::AssocSet { name, pairs } => {
                let body: Vec<String> = pairs.iter().map(|(k, v)| format!("[{}]={}", sh_quote(k), sh_quote(v))).collect();
                format!("unset -v {name}; declare -A {name}=({})", body.join(" "))
            }
            Op::AssocElem { name, key, val } => format!("declare -A {name}; {name}[{}]={}", sh_quote(key), sh_quote(val)),
            Op::AssocUnsetElem { name, key } => format!("declare -A {name}; unset -v {}", sq_quote(&format!("{name}[{key}]"))),
            Op::FnDef { name, body } => body.replace("NAME", name),
            Op::FnUnset { name } => format!("unset -f {name}"),
            Op::Shadow { name } if name == "builtin" => "builtin() { command builtin \"$@\" && command echo \"shadow-builtin\"; }".to_string(),
            Op::Shadow { name } if name == "command" => "command() { builtin command \"$@\" && builtin echo \"shadow-command\"; }".to_string(),
            Op::Shadow { name } if SHADOW_EXTERNAL.contains(&name.as_str()) => {
                format!("{name}() {{ command {name} \"$@\" && builtin echo \"shadow-{name}\"; }}")
            }
            Op::Shadow { name } => format!("{name}() {{ builtin {name} \"$@\" && builtin echo \"shadow-{name}\"; }}"),
            Op::AliasDef { name, val } => format!("alias {name}={}", sq_quote(val)),
            Op::Unalias { name } => format!("unalias {name} 2>/dev/null || true"),
            Op::SetO { opt, on } => format!("set {}o {opt}", if *on { "-" } else { "+" }),
            Op::Shopt { opt, on } => format!("shopt -{} {opt}", if *on { "s" } else { "u" }),
            Op::Mkcd { dir } => format!("mkdir -p {0} && cd {0}", sh_quote(dir)),
            Op::CdUp => "cd ..".into(),
            Op::CdBack => "cd - >/dev/null 2>&1 || true".into(),
            Op::Pushd { dir } => format!("mkdir -p {0} && pushd {0} >/dev/null", sh_quote(dir)),
            Op::Popd => "popd >/dev/null 2>&1 || true".into(),
            Op::RmCwd => "command mkdir -p vh-gone && cd vh-gone && { command rmdir \"$PWD\" || true; }".into(),
            Op::TrapExit => "trap 'true' EXIT".into(),
            Op::UnsetInherited { name } => format!("unset {name}"),
            Op::UnexportInherited { name } => format!("export -n {name}"),
            Op::BreakPath => "PATH=/vh-nonexistent".into(),
            Op::WipeState => "case \"${__SCRUT_TEMP_STATE_PATH:-}\" in */tmp/.state.*) command rm -rf -- \"$__SCRUT_TEMP_STATE_PATH\" ;; esac".into(),
        }
    }

    /// simpler variants of the same op, simplest first
    fn simplifications(&self) -> Vec<Op> {
        // "x", then one representative per value class the value belongs to
        let simpler_values = |v: &str| -> Vec<String> {
            let vc = value_class(v);
            if vc.is_empty() {
                return vec![];
            }
            let mut out = vec!["x".to_string()];
            if vc.contains('+') {
                for c in vc.split('+') {
                    if let Some((_, rep)) = VALUES.iter().find(|(cls, rep)| *cls == c && value_class(rep) == c) {
                        out.push(rep.to_string());
                    }
                }
            }
            out
        };
        let mut v = vec![];
        match self {
            Op::Set { name, val } => v.extend(simpler_values(val).into_iter().map(|x| Op::Set { name: name.clone(), val: x })),
            Op::Export { name, val: Some(val) } => {
                v.extend(simpler_values(val).into_iter().map(|x| Op::Export { name: name.clone(), val: Some(x) }))
            }
            Op::Readonly { name, val } => v.extend(simpler_values(val).into_iter().map(|x| Op::Readonly { name: name.clone(), val: x })),
            Op::ArrSet { name, elems } => {
                if elems.len() > 1 {
                    for i in 0..elems.len() {
                        let mut e = elems.clone();
                        e.remove(i);
                        v.push(Op::ArrSet { name: name.clone(), elems: e });
                    }
                }
                for i in 0..elems.len() {
                    for x in simpler_values(&elems[i].1) {
                        let mut e = elems.clone();
                        e[i].1 = x;
                        v.push(Op::ArrSet { name: name.clone(), elems: e });
                    }
                }
                if elems.iter().enumerate().any(|(i, (k, _))| *k as usize != i) {
                    let e = elems.iter().enumerate().map(|(i, (_, x))| (i as u32, x.clone())).collect();
                    v.push(Op::ArrSet { name: name.clone(), elems: e });
                }
            }
            Op::ArrElem { name, idx, val } => v.extend(simpler_values(val).into_iter().map(|x| Op::ArrElem { name: name.clone(), idx: *idx, val: x })),
            Op::ArrAppend { name, val } => v.extend(simpler_values(val).into_iter().map(|x| Op::ArrAppend { name: name.clone(), val: x })),
            Op::AssocSet { name, pairs } => {
                if pairs.len() > 1 {
                    for i in 0..pairs.len() {
                        let mut e = pairs.clone();
                        e.remove(i);
                        v.push(Op::AssocSet { name: name.clone(), pairs: e });
                    }
                }
                for i in 0..pairs.len() {
                    for x in simpler_values(&pairs[i].1) {
                        let mut e = pairs.clone();
                        e[i].1 = x;
                        v.push(Op::AssocSet { name: name.clone(), pairs: e });
                    }
                    if !value_class(&pairs[i].0).is_empty() && !pairs.iter().any(|(k, _)| k == "k") {
                        let mut e = pairs.clone();
                        e[i].0 = "k".into();
                        v.push(Op::AssocSet { name: name.clone(), pairs: e });
                    }
                }
            }
            Op::AssocElem { name, key, val } => {
                v.extend(simpler_values(val).into_iter().map(|x| Op::AssocElem { name: name.clone(), key: key.clone(), val: x }));
                if !value_class(key).is_empty() {
                    v.push(Op::AssocElem { name: name.clone(), key: "k".into(), val: val.clone() });
                }
            }
            Op::FnDef { name, body } if body != BODIES[0].1 => v.push(Op::FnDef { name: name.clone(), body: BODIES[0].1.into() }),
            Op::AliasDef { name, .. } if SHADOW_ALIAS.contains(&name.as_str()) => {}
            Op::AliasDef { name, val } if !value_class(val).is_empty() => v.push(Op::AliasDef { name: name.clone(), val: "ls".into() }),
            Op::Mkcd { dir } if !value_class(dir).is_empty() => v.push(Op::Mkcd { dir: "d1".into() }),
            Op::Pushd { dir } if !value_class(dir).is_empty() => v.push(Op::Pushd { dir: "d1".into() }),
            _ => {}
        }
        v
    }
}

impl Step {
    pub fn render(&self) -> String {
        if self.ops.is_empty() {
            return ":".to_string();
        }
        self.ops.iter().map(|o| o.render()).collect::<Vec<_>>().join("\n")
    }
}

impl History {
    fn tags(&self) -> Vec<String> {
        let mut t: Vec<String> = self.steps.iter().flat_map(|s| s.ops.iter().map(|o| o.tag())).collect();
        if self.steps.iter().any(|s| s.detached) {
            t.push("step.detached".into());
        }
        t
    }
    fn n_ops(&self) -> usize {
        self.steps.iter().map(|s| s.ops.len()).sum()
    }
}

// ---------------------------------------------------------------- probe

/// The probe: identical text in both worlds; a sub-shell, so it leaves nothing behind.
/// `set +o` / `shopt -p` are printed before the sub-shell relaxes its own options.
fn probe_text() -> String {
    let vars = var_names().join(" ");
    let funcs = FUNCS.iter().chain(SHADOW_DIR).chain(SHADOW_BUILTIN).chain(SHADOW_EXTERNAL).chain(SHADOW_WRAPPER).copied().collect::<Vec<_>>().join(" ");
    let aliases = ALIASES.iter().chain(SHADOW_ALIAS).copied().collect::<Vec<_>>().join(" ");
    format!(
        r#"(
echo "@@opts"; builtin set +o
echo "@@shopt"; builtin shopt -p
echo "@@var:IFS"; builtin declare -p IFS 2>/dev/null || echo "<unset>"
IFS=$' \t\n'
builtin set +a +e +u +f +C; builtin set +o posix; builtin set +o pipefail; builtin shopt -u nullglob failglob nocasematch
env -0 | {{
builtin declare -A __vhE
while IFS= read -r -d '' __vhkv; do __vhE["${{__vhkv%%=*}}"]="${{__vhkv#*=}}"; done
for __vhn in {vars}; do
  echo "@@var:$__vhn"
  builtin declare -p "$__vhn" 2>/dev/null || echo "<unset>"
  if [ -n "${{__vhE[$__vhn]+x}}" ]; then printf 'env:%q\n' "${{__vhE[$__vhn]}}"; else echo "env:<none>"; fi
done
}}
for __vhn in {funcs}; do echo "@@fn:$__vhn"; builtin declare -f "$__vhn" 2>/dev/null || echo "<nofn>"; done
for __vhn in {aliases}; do echo "@@alias:$__vhn"; builtin alias "$__vhn" 2>/dev/null || echo "<noalias>"; done
echo "@@pwd"; pwd
echo "@@dirs"; dirs -l -p
echo "@@oldpwd"; echo "${{OLDPWD-<unset>}}"
echo "@@end"
) 2>/dev/null || true"#
    )
}

const SEP: &str = "@@@VH-SEP@@@";
const SNIP: &str = "@@@VH-SNIPPET-END@@@";

type Sections = BTreeMap<String, Vec<u8>>;

/// splits a probe's output into sections; `opts` and `shopt` are split further into one
/// entry per option; None if the probe did not run to its end
fn parse_probe(out: &[u8]) -> Option<Sections> {
    let mut m: Sections = BTreeMap::new();
    // text before the first marker / after the end marker is output the probe did not write:
    // it gets its own sections, so that anything the carrier itself prints is noticed
    m.insert("leading".into(), vec![]);
    m.insert("trailing".into(), vec![]);
    let mut cur: Option<String> = Some("leading".into());
    let mut ended = false;
    for line in out.split_inclusive(|b| *b == b'\n') {
        if line.starts_with(b"@@") && !line.starts_with(b"@@@") {
            let key = String::from_utf8_lossy(&line[2..]).trim_end().to_string();
            if key == "end" {
                ended = true;
                cur = Some("trailing".into());
            } else {
                m.entry(key.clone()).or_default();
                cur = Some(key);
            }
            continue;
        }
        if let Some(k) = &cur {
            m.get_mut(k).unwrap().extend_from_slice(line);
        }
    }
    if !ended {
        return None;
    }
    for (sect, kind) in [("opts", "opt"), ("shopt", "shopt")] {
        if let Some(body) = m.remove(sect) {
            for line in String::from_utf8_lossy(&body).lines() {
                let w: Vec<&str> = line.split_whitespace().collect();
                if w.len() == 3 {
                    m.insert(format!("{kind}:{}", w[2]), w[1].as_bytes().to_vec());
                } else {
                    m.entry(format!("{kind}:?")).or_default().extend_from_slice(line.as_bytes());
                }
            }
        }
    }
    Some(m)
}

// ---------------------------------------------------------------- the two worlds

struct Worlds {
    /// per step: parsed probe of scrut's world (None: the probe produced no complete output)
    scrut: Vec<Option<Sections>>,
    reference: Vec<Sections>,
    /// diagnostics: exit status of scrut's snippet / probe tests that were not `0`
    notes: Vec<String>,
}

enum RunError {
    /// the reference shell did not get through the script: the case is not a valid input
    ReferenceInvalid(String),
    Harness(String),
    ScrutError(String),
}

fn run_scrut_world(env: &Env, h: &History, probe: &str) -> Result<(Vec<Option<Sections>>, Vec<String>), RunError> {
    let dirs = Dirs::new(env, "c12S").map_err(|e| RunError::Harness(format!("mkdir: {e}")))?;
    let ctx = dirs.context("c12.md");
    let environment = test_environment(&dirs, "c12.md", h.utf8);
    let mut tests = vec![];
    for s in &h.steps {
        tests.push(testcase(
            &s.render(),
            TestCaseConfig {
                detached: if s.detached { Some(true) } else { None },
                environment: environment.clone(),
                ..Default::default()
            },
        ));
        tests.push(testcase(
            probe,
            TestCaseConfig {
                environment: environment.clone(),
                keep_crlf: Some(true),
                // give a detached shell the time to end before the next test starts: whatever it
                // (wrongly) leaves behind is then seen by the probe instead of being overwritten
                wait: if s.detached { Some(TestCaseWait { timeout: Duration::from_millis(300), path: None }) } else { None },
                ..Default::default()
            },
        ));
    }
    let outputs = run_markdown(&tests, &ctx).map_err(|e| RunError::ScrutError(describe_error(&e)))?;
    if outputs.len() != tests.len() {
        return Err(RunError::ScrutError(format!("{} outputs for {} tests", outputs.len(), tests.len())));
    }
    let root = dirs.root.to_string_lossy().to_string();
    let mut probes = vec![];
    let mut notes = vec![];
    for (i, o) in outputs.iter().enumerate() {
        let ok = matches!(o.exit_code, ExitStatus::Code(0)) || (h.steps[i / 2].detached && i % 2 == 0);
        if !ok {
            let err: &[u8] = (&o.stderr).into();
            notes.push(format!(
                "scrut test {i} ({}) ended {}: {}",
                if i % 2 == 0 { "snippet" } else { "probe" },
                o.exit_code,
                crate::rng::show(&err[..err.len().min(200)])
            ));
        }
        if i % 2 == 1 {
            let out: &[u8] = (&o.stdout).into();
            probes.push(parse_probe(&replace_bytes(out, root.as_bytes(), b"<ROOT>")));
        }
    }
    // detached shells may still be starting: they only touch their own state
    dirs.remove();
    Ok((probes, notes))
}

fn run_reference_world(env: &Env, h: &History, probe: &str) -> Result<Vec<Sections>, RunError> {
    let dirs = Dirs::new(env, "c12R").map_err(|e| RunError::Harness(format!("mkdir: {e}")))?;
    let mut script = String::from("shopt -s expand_aliases\n");
    for s in &h.steps {
        if !s.detached {
            script.push_str(&s.render());
            script.push('\n');
        }
        // what the snippet itself printed is not probe output
        script.push_str(&format!("builtin echo '{SNIP}'\n"));
        script.push_str(probe);
        script.push('\n');
        script.push_str(&format!("builtin echo '{SEP}'\n"));
    }
    let mut environment = test_environment(&dirs, "c12.md", h.utf8);
    // what scrut adds on top of the test's configured environment
    environment.insert("SHELL".into(), BASH.into());
    environment.insert("SCRUT_TEST".into(), "c12.md:0".into());
    let mut cmd = Command::new(BASH);
    cmd.env_clear();
    for (k, v) in SEALED_ENV {
        cmd.env(k, v);
    }
    cmd.envs(&environment)
        .current_dir(&dirs.work)
        .stdin(Stdio::piped())
        .stdout(Stdio::piped())
        .stderr(Stdio::piped());
    let mut child = cmd.spawn().map_err(|e| RunError::Harness(format!("spawn reference bash: {e}")))?;
    let mut stdin = child.stdin.take().unwrap();
    let writer = std::thread::spawn(move || {
        let _ = stdin.write_all(script.as_bytes());
    });
    let out = child.wait_with_output().map_err(|e| RunError::Harness(format!("reference bash: {e}")))?;
    let _ = writer.join();
    let root = dirs.root.to_string_lossy().to_string();
    let norm = replace_bytes(&out.stdout, root.as_bytes(), b"<ROOT>");
    dirs.remove();
    let sep = format!("{SEP}\n");
    let mut probes = vec![];
    let mut rest: &[u8] = &norm;
    while let Some(i) = find_bytes(rest, sep.as_bytes()) {
        let snip = format!("{SNIP}\n");
        let from = find_bytes(&rest[..i], snip.as_bytes()).map(|j| j + snip.len()).unwrap_or(0);
        match parse_probe(&rest[from..i]) {
            Some(s) => probes.push(s),
            None => return Err(RunError::ReferenceInvalid(format!("reference probe {} incomplete", probes.len()))),
        }
        rest = &rest[i + sep.len()..];
    }
    if probes.len() != h.steps.len() {
        return Err(RunError::ReferenceInvalid(format!(
            "reference shell ended after {} of {} probes (status {:?}): {}",
            probes.len(),
            h.steps.len(),
            out.status.code(),
            crate::rng::show(&out.stderr[..out.stderr.len().min(300)])
        )));
    }
    Ok(probes)
}

fn run_worlds(env: &Env, h: &History) -> Result<Worlds, RunError> {
    seal_env();
    let probe = probe_text();
    let reference = run_reference_world(env, h, &probe)?;
    let (scrut, notes) = run_scrut_world(env, h, &probe)?;
    Ok(Worlds { scrut, reference, notes })
}

/// (probe index, section key) of every diverging section
fn divergences(w: &Worlds) -> Vec<(usize, String)> {
    let mut d = vec![];
    for (i, r) in w.reference.iter().enumerate() {
        match w.scrut.get(i).and_then(|s| s.as_ref()) {
            None => d.push((i, "no-output".to_string())),
            Some(s) => {
                let keys: BTreeSet<&String> = r.keys().chain(s.keys()).collect();
                for k in keys {
                    if r.get(k) != s.get(k) {
                        d.push((i, k.clone()));
                    }
                }
            }
        }
    }
    d
}

fn kind_of(key: &str) -> &str {
    key.split(':').next().unwrap_or(key)
}

// ---------------------------------------------------------------- minimisation

struct Minimiser<'a> {
    env: &'a Env,
    key: String,
    runs: usize,
    started: Instant,
}

impl Minimiser<'_> {
    fn budget_left(&self) -> bool {
        self.runs < 160 && self.started.elapsed().as_secs() < 90
    }

    /// first probe at which the key diverges
    fn diverges_at(&mut self, h: &History) -> Option<usize> {
        if h.steps.is_empty() {
            return None;
        }
        self.runs += 1;
        match run_worlds(self.env, h) {
            Ok(w) => divergences(&w).into_iter().filter(|(_, k)| *k == self.key).map(|(i, _)| i).min(),
            Err(_) => None,
        }
    }

    fn minimise(&mut self, mut h: History, first_at: usize) -> History {
        h.steps.truncate(first_at + 1);
        loop {
            let mut changed = false;
            // whole steps, latest first
            let mut j = h.steps.len();
            while j > 0 && self.budget_left() {
                j -= 1;
                if h.steps.len() < 2 {
                    break;
                }
                let mut c = h.clone();
                c.steps.remove(j);
                if let Some(at) = self.diverges_at(&c) {
                    c.steps.truncate(at + 1);
                    h = c;
                    j = j.min(h.steps.len());
                    changed = true;
                }
            }
            // single ops
            let mut si = h.steps.len();
            while si > 0 && self.budget_left() {
                si -= 1;
                let mut oi = h.steps[si].ops.len();
                while oi > 0 && self.budget_left() {
                    oi -= 1;
                    let mut c = h.clone();
                    c.steps[si].ops.remove(oi);
                    if let Some(at) = self.diverges_at(&c) {
                        c.steps.truncate(at + 1);
                        h = c;
                        changed = true;
                        if si >= h.steps.len() {
                            break;
                        }
                        oi = oi.min(h.steps[si].ops.len());
                    }
                }
                si = si.min(h.steps.len());
            }
            // flags
            for si in 0..h.steps.len() {
                if h.steps[si].detached && self.budget_left() {
                    let mut c = h.clone();
                    c.steps[si].detached = false;
                    if self.diverges_at(&c).is_some() {
                        h = c;
                        changed = true;
                    }
                }
            }
            if h.utf8 && self.budget_left() {
                let mut c = h.clone();
                c.utf8 = false;
                if self.diverges_at(&c).is_some() {
                    h = c;
                    changed = true;
                }
            }
            // values
            for si in 0..h.steps.len() {
                for oi in 0..h.steps[si].ops.len() {
                    if !self.budget_left() {
                        break;
                    }
                    for simpler in h.steps[si].ops[oi].simplifications() {
                        if !self.budget_left() {
                            break;
                        }
                        let mut c = h.clone();
                        c.steps[si].ops[oi] = simpler;
                        if self.diverges_at(&c).is_some() {
                            h = c;
                            changed = true;
                            break;
                        }
                    }
                }
            }
            if !changed || !self.budget_left() {
                return h;
            }
        }
    }
}

fn signature(key: &str, h: &History) -> String {
    let tags: BTreeSet<String> = h.tags().into_iter().collect();
    // a divergence that needs no op at all is named after the section it shows in
    let at = if tags.is_empty() && key != kind_of(key) { format!("@{key}") } else { String::new() };
    format!("C12/{}/{{{}}}{at}", kind_of(key), tags.into_iter().collect::<Vec<_>>().join(","))
}

thread_local! {
    /// hash(case) -> minimal history found by `check` (consumed by `shrink`)
    static MINIMAL: RefCell<BTreeMap<u64, History>> = const { RefCell::new(BTreeMap::new()) };
}

fn case_hash(h: &History) -> u64 {
    hash_str(&serde_json::to_string(h).unwrap_or_default())
}

// ---------------------------------------------------------------- generator

struct Model {
    /// a function body with extended glob syntax exists: extglob stays on
    extglob_locked: bool,
    posix: bool,
    /// a user function `declare` exists: `declare` in a snippet would only make function locals
    declare_shadowed: bool,
    /// the working directory was removed: nothing can be created below it until a `cd ..`
    cwd_gone: bool,
    readonly_used: BTreeSet<&'static str>,
    ups: usize,
}

fn pick_value(rng: &mut Rng) -> String {
    // plain values are frequent so that value classes do not dominate every history
    if rng.chance(1, 4) {
        return (*rng.pick(&["abc", "x1", "v"])).to_string();
    }
    rng.pick(VALUES).1.to_string()
}

fn gen_op(rng: &mut Rng, m: &mut Model, risky: &Risky) -> Op {
    loop {
        let w = rng.weighted(&[
            14, // scalar set
            6,  // export
            3,  // unexport
            5,  // unset
            5,  // attr
            5,  // prefixed names
            8,  // arrays
            8,  // assoc
            8,  // functions
            3,  // fn unset
            6,  // alias
            2,  // unalias
            9,  // set -o
            8,  // shopt
            7,  // cd
            5,  // pushd/popd
            3,  // IFS
            if risky.readonly { 4 } else { 0 },
        ]);
        let op = match w {
            0 => Op::Set { name: rng.pick(SCALARS).to_string(), val: pick_value(rng) },
            1 => {
                let name = rng.pick(SCALARS).to_string();
                if rng.chance(1, 3) {
                    Op::Export { name, val: None }
                } else {
                    Op::Export { name, val: Some(pick_value(rng)) }
                }
            }
            2 => Op::Unexport { name: rng.pick(SCALARS).to_string() },
            3 => {
                let pools: &[&[&str]] = &[SCALARS, SCALARS, PREFIXED, TEMPLATE_LIKE, INTS, ARRAYS, ASSOCS, LOWERS];
                let pool = *rng.pick(pools);
                Op::Unset { name: rng.pick(pool).to_string() }
            }
            4 => match rng.below(4) {
                0 => Op::Attr { name: rng.pick(INTS).to_string(), attr: "i".into(), val: rng.pick(INT_VALUES).to_string() },
                1 => Op::Set { name: rng.pick(INTS).to_string(), val: rng.pick(INT_VALUES).to_string() },
                2 => Op::Attr { name: LOWERS[0].into(), attr: "l".into(), val: rng.pick(CASE_VALUES).to_string() },
                _ => Op::Attr { name: UPPERS[0].into(), attr: "u".into(), val: rng.pick(CASE_VALUES).to_string() },
            },
            5 => {
                let pool = if rng.chance(2, 5) { TEMPLATE_LIKE } else { PREFIXED };
                Op::Set { name: rng.pick(pool).to_string(), val: pick_value(rng) }
            }
            6 => {
                let name = rng.pick(ARRAYS).to_string();
                match rng.below(5) {
                    0 | 1 => {
                        let n = rng.range(1, 4);
                        let sparse = rng.bool();
                        let mut idx = 0u32;
                        let mut elems = vec![];
                        for _ in 0..n {
                            if sparse {
                                idx += rng.below(4) as u32;
                            }
                            elems.push((idx, pick_value(rng)));
                            idx += 1;
                        }
                        Op::ArrSet { name, elems }
                    }
                    2 => Op::ArrElem { name, idx: rng.below(12) as u32, val: pick_value(rng) },
                    3 => Op::ArrAppend { name, val: pick_value(rng) },
                    _ => Op::ArrUnsetElem { name, idx: rng.below(4) as u32 },
                }
            }
            7 => {
                let name = rng.pick(ASSOCS).to_string();
                let keys = ["k", "key 1", "a b  c", "ü", "x'y", "1", "k\"q", "-n"];
                match rng.below(4) {
                    0 | 1 => {
                        let n = rng.range(1, 3);
                        let mut pairs: Vec<(String, String)> = vec![];
                        for _ in 0..n {
                            let k = rng.pick(&keys).to_string();
                            if !pairs.iter().any(|(kk, _)| *kk == k) {
                                pairs.push((k, pick_value(rng)));
                            }
                        }
                        Op::AssocSet { name, pairs }
                    }
                    2 => Op::AssocElem { name, key: rng.pick(&keys).to_string(), val: pick_value(rng) },
                    _ => Op::AssocUnsetElem { name, key: rng.pick(&["k", "key 1", "a b  c", "ü", "1", "-n"]).to_string() },
                }
            }
            8 => {
                let mut name = *rng.pick(FUNCS);
                if name_class(name) == "dashed" && (m.posix || !risky.dashed) {
                    name = "f0";
                }
                let body = if rng.chance(1, 3) { BODIES[rng.below(2)].1 } else { rng.pick(BODIES).1 };
                if body_class(body) == "extglob" {
                    m.extglob_locked = true;
                }
                Op::FnDef { name: name.to_string(), body: body.to_string() }
            }
            9 => {
                let name = *rng.pick(FUNCS);
                // `unset -f my-func` is rejected in posix mode
                if name_class(name) == "dashed" && m.posix {
                    continue;
                }
                Op::FnUnset { name: name.to_string() }
            }
            10 => Op::AliasDef { name: rng.pick(ALIASES).to_string(), val: rng.pick(ALIAS_VALUES).1.to_string() },
            11 => Op::Unalias { name: rng.pick(ALIASES).to_string() },
            12 => {
                let opt = *rng.pick(SET_OPTS);
                let on = rng.chance(2, 3);
                if opt == "allexport" && on && !risky.allexport {
                    continue;
                }
                if opt == "posix" && on && !risky.posix {
                    continue;
                }
                if opt == "posix" {
                    m.posix = on;
                }
                Op::SetO { opt: opt.to_string(), on }
            }
            13 => {
                let opt = rng.pick(SHOPT_OPTS).to_string();
                let on = rng.chance(2, 3) || (opt == "extglob" && m.extglob_locked);
                Op::Shopt { opt, on }
            }
            14 => match rng.below(4) {
                0 | 1 => {
                    if m.cwd_gone {
                        continue;
                    }
                    Op::Mkcd { dir: rng.pick(DIRS).to_string() }
                }
                2 => {
                    if m.ups >= 6 {
                        continue;
                    }
                    m.ups += 1;
                    m.cwd_gone = false;
                    Op::CdUp
                }
                _ => Op::CdBack,
            },
            15 => {
                if m.cwd_gone {
                    continue;
                }
                if rng.chance(3, 5) {
                    Op::Pushd { dir: rng.pick(DIRS).to_string() }
                } else {
                    Op::Popd
                }
            }
            16 => Op::Ifs { val: rng.pick(&["0", "1", "01", "0123456789", "", "\n", ":", "x y", "-", " \t\n"]).to_string() },
            _ => {
                let free: Vec<&'static str> = READONLYS.iter().copied().filter(|n| !m.readonly_used.contains(n)).collect();
                if free.is_empty() {
                    continue;
                }
                let name = *rng.pick(&free);
                m.readonly_used.insert(name);
                Op::Readonly { name: name.to_string(), val: pick_value(rng) }
            }
        };
        // through a user function `declare`, these would only create locals of that function and
        // the element assignments that follow would fail
        if m.declare_shadowed
            && matches!(op, Op::Attr { .. } | Op::AssocSet { .. } | Op::AssocElem { .. } | Op::AssocUnsetElem { .. })
        {
            continue;
        }
        return op;
    }
}

/// op classes whose carrying is a known limitation (DESIGN §7): they are generated in a
/// minority of the histories so that the other histories stay free of their effects
struct Risky {
    readonly: bool,
    allexport: bool,
    posix: bool,
    dashed: bool,
    shadow_dir: bool,
    shadow_builtin: bool,
    shadow_external: bool,
    shadow_alias: bool,
    shadow_wrapper: bool,
    rm_cwd: bool,
    wipe_state: bool,
    trap_exit: bool,
    unset_inherited: bool,
    break_path: bool,
}

fn gen_history(rng: &mut Rng) -> History {
    let risky = Risky {
        readonly: rng.chance(1, 8),
        allexport: rng.chance(1, 8),
        posix: rng.chance(1, 6),
        dashed: rng.chance(1, 5),
        shadow_dir: rng.chance(1, 6),
        shadow_builtin: rng.chance(1, 8),
        shadow_external: rng.chance(1, 10),
        shadow_alias: rng.chance(1, 8),
        shadow_wrapper: rng.chance(1, 30),
        rm_cwd: rng.chance(1, 14),
        wipe_state: rng.chance(1, 10),
        trap_exit: rng.chance(1, 25),
        unset_inherited: rng.chance(2, 25),
        break_path: rng.chance(1, 25),
    };
    let n_steps = rng.range(2, 8);
    // a history that may contain a risky class does contain it: forced at a random step
    let slot = |rng: &mut Rng, on: bool, last: usize| if on { Some(rng.below(last.max(1))) } else { None };
    let force_readonly = slot(rng, risky.readonly, n_steps);
    let force_allexport = slot(rng, risky.allexport, n_steps - 1);
    let force_dashed = slot(rng, risky.dashed, n_steps - 1);
    let force_posix = slot(rng, risky.posix, n_steps);
    let force_shadow_dir = slot(rng, risky.shadow_dir, n_steps - 1);
    let force_shadow_builtin = slot(rng, risky.shadow_builtin, n_steps - 1);
    let force_shadow_external = slot(rng, risky.shadow_external, n_steps - 1);
    let force_shadow_alias = slot(rng, risky.shadow_alias, n_steps - 1);
    let force_shadow_wrapper = slot(rng, risky.shadow_wrapper, n_steps - 1);
    let force_rm_cwd = slot(rng, risky.rm_cwd, n_steps - 1);
    let force_wipe = slot(rng, risky.wipe_state, n_steps - 1);
    let force_trap_exit = slot(rng, risky.trap_exit, n_steps - 1);
    let force_unset_inherited = slot(rng, risky.unset_inherited, n_steps - 1);
    let force_break_path = slot(rng, risky.break_path, n_steps - 1);
    let mut m = Model { extglob_locked: false, posix: false, declare_shadowed: false, cwd_gone: false, readonly_used: BTreeSet::new(), ups: 0 };
    let mut steps = vec![];
    for si in 0..n_steps {
        let n_ops = rng.range(1, 4);
        let forced_here = [force_readonly, force_allexport, force_dashed, force_posix, force_shadow_dir, force_shadow_builtin, force_shadow_external, force_shadow_alias, force_shadow_wrapper, force_rm_cwd, force_wipe, force_trap_exit, force_unset_inherited, force_break_path].iter().any(|f| *f == Some(si));
        let detached = !forced_here && rng.chance(1, 12);
        let mut ops = vec![];
        let posix_before = m.posix;
        for _ in 0..n_ops {
            ops.push(gen_op(rng, &mut m, &risky));
        }
        if force_shadow_dir == Some(si) && !m.posix {
            ops.push(Op::Shadow { name: rng.pick(SHADOW_DIR).to_string() });
        }
        if force_shadow_builtin == Some(si) && !m.posix {
            let name = *rng.pick(SHADOW_BUILTIN);
            if name == "declare" {
                m.declare_shadowed = true;
            }
            ops.push(Op::Shadow { name: name.to_string() });
        }
        if force_shadow_external == Some(si) && !m.posix {
            ops.push(Op::Shadow { name: rng.pick(SHADOW_EXTERNAL).to_string() });
        }
        if force_shadow_wrapper == Some(si) && !m.posix {
            ops.push(Op::Shadow { name: rng.pick(SHADOW_WRAPPER).to_string() });
        }
        if force_shadow_alias == Some(si) {
            let name = *rng.pick(SHADOW_ALIAS);
            ops.push(Op::AliasDef { name: name.to_string(), val: format!("echo alias-{name}; {name}") });
        }
        if force_dashed == Some(si) && !m.posix {
            let name = *rng.pick(&["my-func", "g.h"]);
            ops.push(Op::FnDef { name: name.into(), body: rng.pick(&BODIES[..BODIES.len() - 1]).1.to_string() });
        }
        if force_readonly == Some(si) && !m.readonly_used.contains("R0") {
            m.readonly_used.insert("R0");
            ops.push(Op::Readonly { name: "R0".into(), val: pick_value(rng) });
        }
        if force_wipe == Some(si) {
            ops.push(Op::WipeState);
        }
        if force_trap_exit == Some(si) {
            ops.push(Op::TrapExit);
        }
        if force_unset_inherited == Some(si) {
            if rng.bool() {
                ops.push(Op::UnsetInherited { name: "HOME".into() });
            } else {
                ops.push(Op::UnexportInherited { name: "HOME".into() });
            }
        }
        if force_break_path == Some(si) {
            ops.push(Op::BreakPath);
        }
        if force_rm_cwd == Some(si) && !m.cwd_gone {
            m.cwd_gone = true;
            ops.push(Op::RmCwd);
        }
        if force_allexport == Some(si) {
            ops.push(Op::SetO { opt: "allexport".into(), on: true });
        }
        if force_posix == Some(si) {
            m.posix = true;
            ops.push(Op::SetO { opt: "posix".into(), on: true });
        }
        if detached {
            // a detached step leaves nothing: the model is not advanced by it
            m.posix = posix_before;
        }
        steps.push(Step { ops, detached });
    }
    History { steps, utf8: rng.chance(1, 4), pick: rng.below(1 << 16) as u32, focus: None }
}

// ---------------------------------------------------------------- monitor

fn sample_of(h: &History) -> Value {
    let steps: Vec<Value> = h
        .steps
        .iter()
        .map(|s| {
            if s.detached {
                json!({"detached": true, "snippet": s.render()})
            } else {
                json!(s.render())
            }
        })
        .collect();
    json!({"locale": if h.utf8 { "C.UTF-8" } else { "C" }, "steps": steps, "then": "probe after every step", "focus": h.focus})
}

impl Monitor for C12 {
    type Case = History;

    fn id(&self) -> &'static str {
        "C12"
    }

    fn plan(&self, tier: Tier) -> Plan {
        let mut p = Plan::new(
            tier.pick(240, 5000),
            "histories of 2-8 steps x 1-4 state ops, a probe test after every step; non-trivial = >= 2 steps touching >= 2 state classes (var, fn, alias, opt, shopt, dir); distinct = hash of the ordered op tags (op class, name class, value class)",
        );
        p.chunk = 4;
        // minimising a diverging history inside `check` takes up to ~160 runs of both worlds
        p.case_timeout_s = 600;
        p.floor_nontrivial = tier.pick(30, 600);
        let f = |q: u64, t: u64| tier.pick(q, t);
        p.floor_buckets = vec![
            ("probe".into(), f(150, 2250)),
            ("sections-compared".into(), f(150, 2250)),
            ("probed:var.scalar".into(), f(100, 1500)),
            ("probed:var.export".into(), f(80, 1200)),
            ("probed:var.unset".into(), f(50, 750)),
            ("probed:var.attr".into(), f(40, 600)),
            ("probed:var.pfx".into(), f(50, 750)),
            ("probed:var.tmpl".into(), f(20, 300)),
            ("probed:var.ifs".into(), f(10, 150)),
            ("probed:var.array".into(), f(70, 1050)),
            ("probed:var.assoc".into(), f(70, 1050)),
            ("probed:fn".into(), f(80, 1200)),
            ("probed:fn.shadow-dir".into(), f(15, 225)),
            ("probed:fn.shadow-builtin".into(), f(6, 90)),
            ("probed:fn.shadow-external".into(), f(5, 75)),
            ("probed:alias.shadow".into(), f(6, 90)),
            ("probed:fn.shadow-wrapper".into(), f(1, 15)),
            ("probed:dir.rm-cwd".into(), f(4, 60)),
            ("probed:carrier.wipe".into(), f(10, 150)),
            ("probed:trap.exit".into(), f(2, 30)),
            ("probed:var.unset-inherited".into(), f(2, 30)),
            ("probed:var.unexport-inherited".into(), f(2, 30)),
            ("probed:var.path-broken".into(), f(2, 30)),
            ("probed:fn.dashed".into(), f(15, 225)),
            ("probed:alias".into(), f(70, 1050)),
            ("probed:opt".into(), f(70, 1050)),
            ("probed:shopt".into(), f(70, 1050)),
            ("probed:dir.cd".into(), f(60, 900)),
            ("probed:dir.stack".into(), f(50, 750)),
            ("probed:detached".into(), f(35, 525)),
        ];
        p.assumptions = vec![
            "reference = /bin/bash 5.2.15 of this image reading the concatenated snippets and probes from stdin".into(),
            "both worlds get the variables `scrut test` sets (TESTDIR, TMPDIR, LANG=C, ...) + SHELL + SCRUT_TEST over a sealed process environment (PATH, HOME)".into(),
            "only the state classes of the statement are probed; TESTDIR-class variables are never modified (O-1)".into(),
            "snippets never fail, exit or read stdin; a reference shell that does not reach every probe makes the case out of scope".into(),
        ];
        p
    }

    fn gen(&self, _env: &Env, _k: u64, rng: &mut Rng) -> History {
        gen_history(rng)
    }

    fn check(&self, env: &Env, h: &History) -> Checked {
        if h.steps.is_empty() {
            return Checked::out_of_scope("empty history");
        }
        let w = match run_worlds(env, h) {
            Ok(w) => w,
            Err(RunError::ReferenceInvalid(r)) => return Checked::out_of_scope(format!("invalid history: {r}")).bucket("invalid-history"),
            Err(RunError::Harness(r)) => return Checked::inconclusive(r),
            Err(RunError::ScrutError(r)) => return Checked::inconclusive(format!("executor error: {r}")),
        };
        // evidence
        let tags = h.tags();
        let majors: BTreeSet<&str> = h.steps.iter().flat_map(|s| s.ops.iter().map(|o| o.major())).collect();
        let nontrivial = h.steps.len() >= 2 && majors.len() >= 2;
        let shape = hash_str(&tags.join("|"));
        let mut buckets: Vec<String> = vec![];
        let mut seen: BTreeSet<&'static str> = BTreeSet::new();
        for (i, s) in h.steps.iter().enumerate() {
            if s.detached {
                seen.insert("detached");
            } else {
                for o in &s.ops {
                    seen.insert(o.class());
                }
            }
            buckets.push("probe".into());
            if w.scrut.get(i).is_some_and(|p| p.is_some()) {
                buckets.push("sections-compared".into());
            }
            for c in &seen {
                buckets.push(format!("probed:{c}"));
            }
        }

        let div = divergences(&w);
        if div.is_empty() {
            let mut c = Checked::held().shape(nontrivial, shape).bucket("verdict:agree");
            // classes that are known to be delicate for the carrier (DESIGN §7) and agreed here
            let delicate = h.steps.iter().filter(|s| !s.detached).flat_map(|s| s.ops.iter()).any(|o| {
                matches!(o, Op::CdBack | Op::Readonly { .. })
                    || matches!(o, Op::SetO { opt, on: true } if opt == "noclobber" || opt == "posix" || opt == "allexport")
                    || matches!(o, Op::FnDef { name, .. } if name_class(name) == "dashed")
            });
            if delicate {
                c = c.bucket("near-miss:delicate-class-agrees");
            }
            c.buckets.extend(buckets);
            return c;
        }

        // choose the section to report
        let keys: Vec<String> = div.iter().map(|(_, k)| k.clone()).collect::<BTreeSet<_>>().into_iter().collect();
        let key = match &h.focus {
            Some(f) if keys.contains(f) => f.clone(),
            _ => keys[h.pick as usize % keys.len()].clone(),
        };
        let first_at = div.iter().filter(|(_, k)| *k == key).map(|(i, _)| *i).min().unwrap_or(0);

        let mut mz = Minimiser { env, key: key.clone(), runs: 0, started: Instant::now() };
        let mut minimal = mz.minimise(h.clone(), first_at);
        minimal.focus = Some(key.clone());
        minimal.pick = 0;
        let sig = signature(&key, &minimal);

        // detail from the original run
        let r = w.reference.get(first_at).and_then(|s| s.get(&key));
        let s = w.scrut.get(first_at).and_then(|s| s.as_ref()).and_then(|s| s.get(&key));
        let show = |v: Option<&Vec<u8>>| v.map(|b| crate::rng::show(&b[..b.len().min(300)])).unwrap_or_else(|| "<section missing>".into());
        let detail = format!(
            "section {key} of probe {first_at}: one shell has [{}], scrut has [{}]; other diverging sections: {:?}; minimal history ({} ops, {} runs): {}; notes: {:?}",
            show(r),
            show(s),
            keys.iter().filter(|k| **k != key).take(8).collect::<Vec<_>>(),
            minimal.n_ops(),
            mz.runs,
            sample_of(&minimal),
            w.notes.iter().take(3).collect::<Vec<_>>()
        );
        if minimal != *h {
            MINIMAL.with(|m| {
                let mut m = m.borrow_mut();
                if m.len() > 64 {
                    m.clear();
                }
                m.insert(case_hash(h), minimal);
            });
        }
        let mut c = Checked::violated(sig, detail);
        c.shape = shape;
        c.buckets = buckets;
        c.bucket(format!("verdict:diverge:{}", kind_of(&key)))
    }

    fn shrink(&self, h: &History) -> Vec<History> {
        MINIMAL.with(|m| m.borrow().get(&case_hash(h)).cloned()).into_iter().collect()
    }

    fn sample(&self, h: &History) -> Value {
        sample_of(h)
    }
}
