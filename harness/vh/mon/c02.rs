//! C02 — every line and every expectation accounted for exactly once; terminates; no crash.

use scrut::diff::DiffLine;
use scrut::diff::DiffTool;

use super::diffcommon::*;
use crate::core::*;
use crate::oracle::lang::split_lines;
use crate::rng::hash_bytes;
use crate::rng::Rng;

pub struct C02;

impl Monitor for C02 {
    type Case = DiffCase;

    fn id(&self) -> &'static str {
        "C02"
    }

    fn plan(&self, tier: Tier) -> Plan {
        let mut p = Plan::new(
            tier.pick(1_000_000, 40_000_000),
            "cases as C01 plus hostile bytes in lines (NUL, CR, invalid UTF-8); non-trivial = the Diff contains >= 2 different DiffLine variants or a multiline run of >= 2 lines; distinct = hash of the sequence of variants and run lengths",
        );
        p.floor_nontrivial = tier.pick(1_000, 5_000);
        p.floor_buckets = vec![
            ("has:matched".into(), 1000),
            ("has:unmatched".into(), 1000),
            ("has:unexpected".into(), 1000),
            ("has:run>=2".into(), 500),
        ];
        p.assumptions = vec![
            "termination is observed as 'returned before the watchdog'; a hang is inconclusive".into(),
            "sizes: <= 8 expectations, <= 12 lines (<= 2000 lines in the long-tail family)".into(),
        ];
        p
    }

    fn gen(&self, env: &Env, k: u64, rng: &mut Rng) -> DiffCase {
        // thorough: the first SWEEP_SIZE case numbers are the complete sweep of small shapes
        if env.tier == Tier::Thorough && k < SWEEP_SIZE {
            return sweep_case(k);
        }
        gen_case(rng, true, env.tier == Tier::Thorough)
    }

    fn check(&self, _env: &Env, case: &DiffCase) -> Checked {
        let Some(p) = prepare(case) else {
            return Checked::out_of_scope("expectation does not parse");
        };
        let diff = match DiffTool::new(p.exps.clone()).diff(&case.out) {
            Ok(d) => d,
            Err(e) => return Checked::violated("C02/diff-error", format!("diff returned Err({e}) for {:?}", sample(case))),
        };
        let lines = split_lines(&case.out);
        let mut next_line = 0usize;
        let mut last_index: Option<usize> = None;
        let mut mentioned = vec![0u32; p.exps.len()];
        let mut shape: Vec<u8> = vec![];
        let (mut has_m, mut has_u, mut has_x, mut has_run) = (false, false, false, false);
        let (mut cm, mut cu, mut co) = (0usize, 0usize, 0usize);
        let mut concat: Vec<u8> = vec![];
        let bad = |clause: &str, what: String| Checked::violated(format!("C02/{clause}"), format!("{what}; case {:?}", sample(case)));
        for d in &diff.lines {
            match d {
                DiffLine::MatchedExpectation { index, expectation, lines: ls } => {
                    has_m = true;
                    cm += 1;
                    if *index >= p.exps.len() {
                        return bad("index-out-of-range", format!("index {index}"));
                    }
                    if last_index.is_some_and(|l| *index <= l) {
                        return bad("expectation-order", format!("index {index} after {last_index:?}"));
                    }
                    last_index = Some(*index);
                    mentioned[*index] += 1;
                    if *expectation != p.exps[*index] {
                        return bad("expectation-identity", format!("entry for index {index} carries another expectation"));
                    }
                    if ls.is_empty() {
                        return bad("matched-without-lines", format!("index {index}"));
                    }
                    if ls.len() > 1 {
                        has_run = true;
                        if !p.quants[*index].multiline {
                            return bad("multi-lines-on-single", format!("index {index} got {} lines", ls.len()));
                        }
                    }
                    shape.push(1);
                    shape.push(ls.len().min(4) as u8);
                    for (li, bytes) in ls {
                        co += 1;
                        if *li != next_line {
                            return bad("line-order", format!("line {li} where {next_line} was due"));
                        }
                        if *li >= lines.len() || lines[*li] != &bytes[..] {
                            return bad("line-bytes", format!("line {li} bytes differ"));
                        }
                        if !p.matrix[*index][*li] {
                            return bad("matched-but-no-match", format!("expectation {index} does not match line {li}"));
                        }
                        concat.extend_from_slice(bytes);
                        next_line += 1;
                    }
                }
                DiffLine::UnmatchedExpectation { index, expectation } => {
                    has_u = true;
                    cu += 1;
                    if *index >= p.exps.len() {
                        return bad("index-out-of-range", format!("index {index}"));
                    }
                    if last_index.is_some_and(|l| *index <= l) {
                        return bad("expectation-order", format!("index {index} after {last_index:?}"));
                    }
                    last_index = Some(*index);
                    mentioned[*index] += 1;
                    if *expectation != p.exps[*index] {
                        return bad("expectation-identity", format!("entry for index {index} carries another expectation"));
                    }
                    shape.push(2);
                }
                DiffLine::UnexpectedLines { lines: ls } => {
                    has_x = true;
                    if ls.is_empty() {
                        return bad("empty-unexpected", "UnexpectedLines without lines".into());
                    }
                    shape.push(3);
                    shape.push(ls.len().min(4) as u8);
                    for (li, bytes) in ls {
                        co += 1;
                        if *li != next_line {
                            return bad("line-order", format!("line {li} where {next_line} was due"));
                        }
                        if *li >= lines.len() || lines[*li] != &bytes[..] {
                            return bad("line-bytes", format!("line {li} bytes differ"));
                        }
                        concat.extend_from_slice(bytes);
                        next_line += 1;
                    }
                }
            }
        }
        if next_line != lines.len() {
            return bad("line-lost", format!("{} of {} lines mentioned", next_line, lines.len()));
        }
        if concat != case.out {
            return bad("concat", "mentioned lines do not concatenate to the output".into());
        }
        for (i, n) in mentioned.iter().enumerate() {
            if *n > 1 {
                return bad("expectation-duplicated", format!("expectation {i} mentioned {n} times"));
            }
            if *n == 0 && !p.quants[i].optional {
                return bad("expectation-lost", format!("non-optional expectation {i} not mentioned"));
            }
        }
        if diff.count_matched != cm || diff.count_unmatched != cu || diff.count_output_lines != co {
            return bad("counters", format!("count fields {}/{}/{} vs {cm}/{cu}/{co}", diff.count_matched, diff.count_unmatched, diff.count_output_lines));
        }
        let variants = has_m as u8 + has_u as u8 + has_x as u8;
        let mut c = Checked::held().shape(variants >= 2 || has_run, hash_bytes(&shape));
        if has_m {
            c = c.bucket("has:matched");
        }
        if has_u {
            c = c.bucket("has:unmatched");
        }
        if has_x {
            c = c.bucket("has:unexpected");
        }
        if has_run {
            c = c.bucket("has:run>=2");
        }
        if case.family.starts_with("near") {
            c = c.bucket("near-miss");
        }
        c.bucket(format!("family:{}", case.family))
    }

    fn sidecar(&self, env: &Env) -> Vec<SidecarReport> {
        if env.tier == Tier::Thorough {
            vec![crate::miri::run_miri("C02", "diff", 16, 60)]
        } else {
            vec![]
        }
    }

    fn shrink(&self, case: &DiffCase) -> Vec<DiffCase> {
        shrink(case)
    }

    fn sample(&self, case: &DiffCase) -> serde_json::Value {
        sample(case)
    }
}
