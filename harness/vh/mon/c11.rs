//! C11 — escaping is lossless and produces printable text.
//!
//! For a line (content bytes without LF + optional final LF) and a mode: `t = escaped_expectation(line)`;
//! printable clause on `t` (ASCII: U+0020..U+007E; Unicode: no Cc / Cf / Cn per the committed CPython table);
//! lossless clause by reading `t` back (`t` marked ` (escaped)` -> escaped reading, `t` == the line itself ->
//! equal reading through the documented ` (equal)` forcing) and probing the original and near-miss mutants.

use std::cell::RefCell;

use scrut::escaping::Escaper;
use scrut::output::OutputStream;
use serde::Deserialize;
use serde::Serialize;
use serde_json::json;
use serde_json::Value;

use super::expcommon::*;
use crate::core::*;
use crate::oracle::unicode_tables as ut;
use crate::rng::hash_bytes;
use crate::rng::show;
use crate::rng::Rng;

pub struct C11;

#[derive(Clone, Debug, PartialEq, Serialize, Deserialize)]
pub struct Item {
    #[serde(with = "crate::rng::hexbytes")]
    pub content: Vec<u8>,
    pub nl: bool,
}

#[derive(Clone, Debug, PartialEq, Serialize, Deserialize)]
pub struct C11Case {
    /// "ascii" | "unicode"
    pub mode: String,
    pub items: Vec<Item>,
    #[serde(default)]
    pub family: String,
    /// observation: "" = `Escaper::escaped_expectation`; "generator" = the expectation line the generators
    /// write for the output line (`OutputStream::to_output_string`, incl. ` (no-eol)` / ` (equal)` decorations
    /// and the forced-escape rendering of lines that look like a command)
    #[serde(default)]
    pub via: String,
}

const BATCH: u64 = 64;

fn escaper(mode: &str) -> Escaper {
    if mode == "ascii" {
        Escaper::Ascii
    } else {
        Escaper::Unicode
    }
}

fn classes(content: &[u8]) -> String {
    content_classes(content).join("+")
}

/// lines with different content that the ambiguities of the escape syntax could confuse with `c`
fn mutants(c: &[u8], t_expr: &[u8]) -> Vec<Vec<u8>> {
    fn replace_first(c: &[u8], from: &[u8], to: &[u8]) -> Option<Vec<u8>> {
        let i = c.windows(from.len()).position(|w| w == from)?;
        let mut v = c[..i].to_vec();
        v.extend_from_slice(to);
        v.extend_from_slice(&c[i + from.len()..]);
        Some(v)
    }
    let mut out: Vec<Vec<u8>> = vec![];
    let named: &[(u8, u8)] = &[(b't', 9), (b'r', 13), (b'a', 7), (b'b', 8), (b'e', 0x1b), (b'f', 12), (b'v', 11), (b'n', 10)];
    for (name, byte) in named {
        out.extend(replace_first(c, &[*byte], &[b'\\', *name]));
        out.extend(replace_first(c, &[b'\\', *name], &[*byte]));
    }
    out.extend(replace_first(c, b"\\", b"\\\\"));
    out.extend(replace_first(c, b"\\\\", b"\\"));
    // raw byte <-> its hex spelling
    if let Some(i) = c.iter().position(|b| !(0x20..=0x7e).contains(b)) {
        for spelled in [format!("\\x{:02x}", c[i]), format!("\\x{:02X}", c[i]), format!("\\0{:02o}", c[i] & 63)] {
            let mut v = c[..i].to_vec();
            v.extend_from_slice(spelled.as_bytes());
            v.extend_from_slice(&c[i + 1..]);
            out.push(v);
        }
    }
    if let Some(i) = c.windows(2).position(|w| w == b"\\x") {
        if let Some(h) = c.get(i + 2..i + 4).and_then(|h| std::str::from_utf8(h).ok()).and_then(|h| u8::from_str_radix(h, 16).ok()) {
            let mut v = c[..i].to_vec();
            v.push(h);
            v.extend_from_slice(&c[i + 4..]);
            out.push(v);
        }
    }
    // dropped / added byte
    if !c.is_empty() {
        out.push(c[1..].to_vec());
        out.push(c[..c.len() - 1].to_vec());
    }
    for extra in [&b"x"[..], b" ", b"\\", b"\t", b" (escaped)"] {
        let mut v = c.to_vec();
        v.extend_from_slice(extra);
        out.push(v);
    }
    if let Some(t) = paren_tail(c).and_then(|_| c.iter().rposition(|b| *b == b'(')) {
        out.push(c[..t - 1].to_vec());
    }
    // the spelling itself, and the lossy text of invalid bytes
    out.push(t_expr.to_vec());
    out.push(String::from_utf8_lossy(c).as_bytes().to_vec());
    out.retain(|m| m != c && !m.contains(&b'\n'));
    out.sort();
    out.dedup();
    out
}

#[derive(Clone, Debug, PartialEq)]
struct Fail {
    /// "unprintable" | "lossless"
    group: &'static str,
    /// reading ("escaped" / "equal" / "-") and clause
    clause: String,
    detail: String,
}

struct Seen {
    reading: &'static str,
    skew: bool,
    raw_kept: bool,
}

fn check_item_escaper(mode: &str, item: &Item) -> Result<Seen, Fail> {
    let esc = escaper(mode);
    let mut line = item.content.clone();
    if item.nl {
        line.push(b'\n');
    }
    let t = esc.escaped_expectation(&line);
    let mut skew = false;
    // printable
    for c in t.chars() {
        let bad = if mode == "ascii" {
            if (' '..='~').contains(&c) {
                None
            } else {
                Some(scalar_class(c))
            }
        } else if ut::is_cc(c) {
            Some("cc")
        } else if ut::is_cf(c) {
            if ut::is_cf_after_7_0(c) {
                skew = true;
                None
            } else {
                Some("cf")
            }
        } else if ut::is_cn(c) {
            Some("cn")
        } else {
            None
        };
        if let Some(class) = bad {
            return Err(Fail {
                group: "unprintable",
                clause: class.to_string(),
                detail: format!("{mode} mode writes U+{:04X} ({class}) for the line \"{}\": `{}`", c as u32, show(&line), show(t.as_bytes())),
            });
        }
    }
    // which reading
    let (reading, parsed_from) = if t.as_bytes() == &item.content[..] {
        ("equal", format!("{t} (equal)"))
    } else if t.ends_with(" (escaped)") {
        ("escaped", t.clone())
    } else {
        return Err(Fail {
            group: "lossless",
            clause: "-/shape".into(),
            detail: format!("{mode} mode: the text `{}` for the line \"{}\" is neither the line itself nor marked (escaped)", show(t.as_bytes()), show(&line)),
        });
    };
    let fail = |clause: &str, what: String| Fail {
        group: "lossless",
        clause: format!("{reading}/{clause}"),
        detail: format!("{mode} mode, line \"{}\" written as `{}`: {what}", show(&line), show(t.as_bytes())),
    };
    let e = match parse_with(false, &parsed_from) {
        Ok(e) => e,
        Err(err) => return Err(fail("parse-error", format!("does not parse back: {err}"))),
    };
    let (kind, expression, optional, multiline) = e.unmake();
    if kind != reading || optional || multiline {
        return Err(fail("kind", format!("read back as {kind} optional={optional} multiline={multiline}")));
    }
    let t_expr: Vec<u8> = if reading == "escaped" { t.as_bytes()[..t.len() - " (escaped)".len()].to_vec() } else { t.as_bytes().to_vec() };
    if reading == "escaped" {
        if expression != item.content {
            return Err(fail("decode-differs", format!("decodes to \"{}\"", show(&expression))));
        }
        if !e.matches(&line) {
            return Err(fail("no-match", "does not match the original line".into()));
        }
    } else {
        let mut with_nl = item.content.clone();
        with_nl.push(b'\n');
        if !e.matches(&with_nl) {
            return Err(fail("no-match", "does not match the original line".into()));
        }
    }
    for m in mutants(&item.content, &t_expr) {
        let mut m_nl = m.clone();
        m_nl.push(b'\n');
        if e.matches(&m) || e.matches(&m_nl) {
            return Err(fail("mutant-match", format!("also matches the different content \"{}\"", show(&m))));
        }
    }
    Ok(Seen {
        reading,
        skew,
        raw_kept: reading == "equal",
    })
}

/// printable clause on one character of the written text; Ok(true) = version-skew character (counted only)
fn printable_char(mode: &str, c: char) -> Result<bool, &'static str> {
    if mode == "ascii" {
        if (' '..='~').contains(&c) {
            Ok(false)
        } else {
            Err(scalar_class(c))
        }
    } else if ut::is_cc(c) {
        Err("cc")
    } else if ut::is_cf(c) {
        if ut::is_cf_after_7_0(c) {
            Ok(true)
        } else {
            Err("cf")
        }
    } else if ut::is_cn(c) {
        Err("cn")
    } else {
        Ok(false)
    }
}

/// second observation: the line the generators write (`OutputStream::to_output_string`), parsed back as it is
fn check_item_generator(mode: &str, item: &Item) -> Result<Seen, Fail> {
    let esc = escaper(mode);
    let mut line = item.content.clone();
    if item.nl {
        line.push(b'\n');
    }
    if line.is_empty() {
        // no output, no line
        return Ok(Seen { reading: "none", skew: false, raw_kept: false });
    }
    let out = OutputStream::from(line.clone()).to_output_string(None, &esc);
    let shape = |what: &str| Fail {
        group: "lossless",
        clause: "generator:-/shape".into(),
        detail: format!("{mode} mode: the generators write \"{}\" for the line \"{}\": {what}", show(out.as_bytes()), show(&line)),
    };
    let Some(r) = out.strip_suffix('\n') else {
        return Err(shape("not terminated"));
    };
    if r.contains('\n') {
        return Err(shape("more than one line"));
    }
    let mut skew = false;
    for c in r.chars() {
        match printable_char(mode, c) {
            Ok(s) => skew |= s,
            Err(class) => {
                return Err(Fail {
                    group: "unprintable",
                    // unassigned code points: the same cause (and signature) as on the escaped_expectation path
                    clause: if class == "cn" { "cn".to_string() } else { format!("{class}/generator-path") },
                    detail: format!("{mode} mode: the generators write U+{:04X} ({class}) for the line \"{}\": `{}`", c as u32, show(&line), show(r.as_bytes())),
                });
            }
        }
    }
    let fail = |reading: &str, clause: &str, what: String| Fail {
        group: "lossless",
        clause: format!("generator:{reading}/{clause}"),
        detail: format!("{mode} mode, line \"{}\" written by the generators as `{}`: {what}", show(&line), show(r.as_bytes())),
    };
    let e = match parse_with(false, r) {
        Ok(e) => e,
        Err(err) => return Err(fail("-", "parse-error", format!("does not parse back: {err}"))),
    };
    let (kind, expression, optional, multiline) = e.unmake();
    let reading: &'static str = match kind.as_str() {
        "equal" => "equal",
        "no-eol" => "no-eol",
        "escaped" => "escaped",
        _ => "other",
    };
    if reading == "other" || optional || multiline {
        return Err(fail(reading, "kind", format!("read back as {kind} optional={optional} multiline={multiline}")));
    }
    if expression != item.content {
        return Err(fail(reading, "decode-differs", format!("stands for \"{}\"", show(&expression))));
    }
    // the original line, with its own newline state, under the kind it was written as
    if !e.matches(&line) {
        return Err(fail(reading, "no-match", "does not match the original line".into()));
    }
    let t_expr: Vec<u8> = match crate::oracle::rulematch::scan_line(r) {
        crate::oracle::rulematch::Scan::Modifier { expr, .. } => expr.into_bytes(),
        _ => r.as_bytes().to_vec(),
    };
    for m in mutants(&item.content, &t_expr) {
        let mut m_nl = m.clone();
        m_nl.push(b'\n');
        if e.matches(&m) || e.matches(&m_nl) {
            return Err(fail(reading, "mutant-match", format!("also matches the different content \"{}\"", show(&m))));
        }
    }
    Ok(Seen {
        reading: if reading == "escaped" { "escaped" } else { "equal" },
        skew,
        raw_kept: reading != "escaped",
    })
}

fn check_item(via: &str, mode: &str, item: &Item) -> Result<Seen, Fail> {
    if via == "generator" {
        check_item_generator(mode, item)
    } else {
        check_item_escaper(mode, item)
    }
}

/// smallest content with the same failure (group + clause), for a stable signature
fn minimal_content(via: &str, mode: &str, item: &Item, f: &Fail) -> Vec<u8> {
    minimise_seq(
        &item.content,
        |c| matches!(check_item(via, mode, &Item { content: c.to_vec(), nl: item.nl }), Err(g) if g.group == f.group && g.clause == f.clause),
        300,
    )
}

/// lossless failures first, then control / format characters written raw, unassigned code points last
fn fail_rank(f: &Fail) -> u8 {
    match (f.group, f.clause.as_str()) {
        ("lossless", _) => 0,
        (_, "cn") => 2,
        _ => 1,
    }
}

fn signature(mode: &str, f: &Fail, min: &[u8]) -> String {
    if f.group == "unprintable" {
        format!("C11/unprintable/{mode}/{}", f.clause)
    } else {
        format!("C11/lossless/{mode}/{}/{}", f.clause, classes(min))
    }
}

// ---------------------------------------------------------------------------------------------
// sweeps
// ---------------------------------------------------------------------------------------------

thread_local! {
    static LAST_MIN: RefCell<Option<(C11Case, C11Case)>> = const { RefCell::new(None) };
    static QUICK_SCALARS: RefCell<Option<(u64, Vec<u32>)>> = const { RefCell::new(None) };
}

fn is_scalar(cp: u32) -> bool {
    cp < 0x110000 && !(0xD800..=0xDFFF).contains(&cp)
}

/// quick tier: U+0000..U+30FF completely, every boundary of the category tables (+-1), and a seeded stride
fn with_quick_scalars<T>(seed: u64, f: impl FnOnce(&[u32]) -> T) -> T {
    QUICK_SCALARS.with(|q| {
        let stale = !matches!(&*q.borrow(), Some((s, _)) if *s == seed);
        if stale {
            let mut v: Vec<u32> = (0..0x3100u32).collect();
            for table in [ut::CC, ut::CF, ut::CN, ut::CO, ut::CF_AFTER_7_0] {
                for (a, b) in table {
                    for cp in [a.wrapping_sub(1), *a, a + 1, b.wrapping_sub(1), *b, b + 1] {
                        v.push(cp);
                    }
                }
            }
            const STRIDE: u64 = 61;
            let mut cp = seed % STRIDE;
            while cp < 0x110000 {
                v.push(cp as u32);
                cp += STRIDE;
            }
            v.retain(|c| is_scalar(*c));
            v.sort();
            v.dedup();
            *q.borrow_mut() = Some((seed, v));
        }
        f(&q.borrow().as_ref().unwrap().1)
    })
}

struct Layout {
    singles: u64,
    pairs: u64,
    scalars: u64,
    /// generator path: `$ <scalar>` / `> <scalar>`, 2 modes
    gen_scalars: u64,
    /// content tails `<blank>(<group>)` with blanks other than U+0020: 2 observations x 2 modes
    blank_tails: u64,
    n_scalars: u64,
    pair_stride: u64,
}

fn layout(tier: Tier, seed: u64) -> Layout {
    let n_scalars = match tier {
        Tier::Quick => with_quick_scalars(seed, |v| v.len() as u64),
        Tier::Thorough => 0x110000 - 0x800,
    };
    let pair_stride = tier.pick(4, 1);
    Layout {
        // 256 bytes x 2 modes x 2 (with / without LF)
        singles: (256 * 4u64).div_ceil(BATCH),
        pairs: (65536u64 / pair_stride * 2).div_ceil(BATCH),
        // scalar alone and between two backslashes, 2 modes
        scalars: (n_scalars * 4).div_ceil(BATCH),
        gen_scalars: (n_scalars * 2).div_ceil(BATCH),
        blank_tails: blank_tail_count().div_ceil(BATCH) * 4,
        n_scalars,
        pair_stride,
    }
}

fn nth_scalar(tier: Tier, seed: u64, i: u64) -> Option<char> {
    match tier {
        Tier::Quick => with_quick_scalars(seed, |v| v.get(i as usize).and_then(|c| char::from_u32(*c))),
        Tier::Thorough => {
            let cp = if i < 0xD800 { i } else { i + 0x800 };
            char::from_u32(cp as u32)
        }
    }
}

fn sweep_case(tier: Tier, seed: u64, k: u64) -> Option<C11Case> {
    let l = layout(tier, seed);
    let mut items = vec![];
    if k < l.singles {
        let mode = if k % 2 == 0 { "ascii" } else { "unicode" };
        let base = (k / 2) * BATCH;
        for j in base..(base + BATCH).min(512) {
            let b = (j / 2) as u8;
            let nl = j % 2 == 0;
            if b == b'\n' {
                // the single byte LF is the empty line
                items.push(Item { content: vec![], nl: true });
            } else {
                items.push(Item { content: vec![b], nl });
            }
        }
        return Some(C11Case { mode: mode.into(), items, family: "sweep-byte".into(), via: String::new() });
    }
    let k = k - l.singles;
    if k < l.pairs {
        let mode = if k % 2 == 0 { "ascii" } else { "unicode" };
        let base = (k / 2) * BATCH;
        let n_pairs = 65536 / l.pair_stride;
        for j in base..(base + BATCH).min(n_pairs) {
            let p = j * l.pair_stride + (seed.wrapping_add(j / 64) % l.pair_stride);
            let (a, b) = ((p >> 8) as u8, (p & 0xff) as u8);
            if a == b'\n' {
                continue; // LF inside: not a line
            }
            if b == b'\n' {
                items.push(Item { content: vec![a], nl: true });
            } else {
                items.push(Item { content: vec![a, b], nl: j % 2 == 0 });
            }
        }
        return Some(C11Case { mode: mode.into(), items, family: "sweep-pair".into(), via: String::new() });
    }
    let k = k - l.pairs;
    if k < l.scalars {
        let mode = if k % 2 == 0 { "ascii" } else { "unicode" };
        let base = (k / 2) * BATCH;
        for j in base..(base + BATCH).min(l.n_scalars * 2) {
            let Some(c) = nth_scalar(tier, seed, j / 2) else { continue };
            if c == '\n' {
                continue;
            }
            let s = if j % 2 == 0 { c.to_string() } else { format!("\\{c}\\") };
            items.push(Item { content: s.into_bytes(), nl: (j / 2) % 2 == 0 });
        }
        return Some(C11Case { mode: mode.into(), items, family: "sweep-scalar".into(), via: String::new() });
    }
    let k = k - l.scalars;
    if k < l.gen_scalars {
        // what the generators write for an output line that looks like a command and carries the scalar
        let mode = if k % 2 == 0 { "ascii" } else { "unicode" };
        let base = (k / 2) * BATCH;
        for j in base..(base + BATCH).min(l.n_scalars) {
            let Some(c) = nth_scalar(tier, seed, j) else { continue };
            if c == '\n' {
                continue;
            }
            let s = match j % 4 {
                0 => format!("$ {c}"),
                1 => format!("> {c}"),
                2 => format!("$ left{c}right"),
                _ => format!("> {c} (no-eol)"),
            };
            items.push(Item { content: s.into_bytes(), nl: (j / 4) % 3 != 0 });
        }
        return Some(C11Case { mode: mode.into(), items, family: "gen-sweep-scalar".into(), via: "generator".into() });
    }
    let k = k - l.gen_scalars;
    if k < l.blank_tails {
        // every (head, blank, group, newline) combination, under both modes and both observations
        let mode = if k % 2 == 0 { "ascii" } else { "unicode" };
        let via = if (k / 2) % 2 == 0 { "" } else { "generator" };
        let base = (k / 4) * BATCH;
        for j in base..(base + BATCH).min(blank_tail_count()) {
            items.push(blank_tail_item(j));
        }
        return Some(C11Case { mode: mode.into(), items, family: "sweep-blank-tail".into(), via: via.into() });
    }
    None
}

/// white space other than U+0020 (what `\\s` / `char::is_whitespace` accept), LF excluded
const BLANKS: &[char] = &[
    '\u{a0}', '\u{1680}', '\u{2000}', '\u{2001}', '\u{2002}', '\u{2003}', '\u{2004}', '\u{2005}', '\u{2006}', '\u{2007}', '\u{2008}', '\u{2009}',
    '\u{200a}', '\u{2028}', '\u{2029}', '\u{202f}', '\u{205f}', '\u{3000}', '\t', '\u{b}', '\u{c}', '\r', '\u{85}',
];
const TAIL_GROUPS: &[&str] = &["no-eol", "no-eol", "escaped", "esc", "equal", "eq", "glob", "re", "?", "", "no-eol+", "foo"];
const TAIL_HEADS: &[&str] = &["\u{1b}", "a", "", "é\t", "$ \u{7}", "\\\u{0}", "> x", "\u{200b}"];

fn blank_tail_count() -> u64 {
    (BLANKS.len() * TAIL_GROUPS.len() * TAIL_HEADS.len() * 2) as u64
}

/// item j of the complete sweep of `<head><blank>(<group>)`, terminated / unterminated
fn blank_tail_item(j: u64) -> Item {
    let mut j = j as usize;
    let nl = j % 2 == 0;
    j /= 2;
    let head = TAIL_HEADS[j % TAIL_HEADS.len()];
    j /= TAIL_HEADS.len();
    let group = TAIL_GROUPS[j % TAIL_GROUPS.len()];
    j /= TAIL_GROUPS.len();
    let blank = BLANKS[j % BLANKS.len()];
    Item { content: format!("{head}{blank}({group})").into_bytes(), nl }
}

const PIECES: &[&[u8]] = &[
    b"\\", b"\\", b"\\\\", b"\t", b"\x00", b"\x1b", b"\x08", b"\x7f", b"\r", b"\x0b", b"\x0c", b"\x07", b"a", b"b", b"t", b"x", b"n", b"0", b"41", b"1b",
    b" ", b"\\t", b"\\x41", b"\\x1b", b"\\033", b"\\n", b"\\e", "é".as_bytes(), "中".as_bytes(), "😀".as_bytes(), "\u{200b}".as_bytes(),
    "\u{ad}".as_bytes(), "\u{feff}".as_bytes(), "\u{378}".as_bytes(), "\u{e000}".as_bytes(), "\u{85}".as_bytes(), "\u{8e2}".as_bytes(),
    "\u{10ffff}".as_bytes(), "\u{a0}".as_bytes(), b"\xc3", b"\xe4\xb8", b"\xf0\x9f\x98", b"\xc0\x80", b"\xe0\x80\x80", b"\x80", b"\xbf", b"\xff",
    b"\xfe", b"\xed\xa0\x80", b" (escaped)", b" (no-eol)", b" (glob)", b" (equal)", b" (esc)", b" ()", b" (?)", b"C:\\temp", b"  ",
];

fn random_item(rng: &mut Rng) -> Item {
    let n = rng.below(7);
    let mut c = vec![];
    for _ in 0..n {
        if rng.chance(1, 8) {
            let b = rng.byte();
            c.push(if b == b'\n' { b'\\' } else { b });
        } else {
            c.extend_from_slice(*rng.pick(PIECES));
        }
    }
    // a tail that reads like a modifier group behind a blank other than U+0020
    if rng.chance(1, 5) {
        let blank = *rng.pick(BLANKS);
        c.extend_from_slice(format!("{blank}({})", rng.pick(TAIL_GROUPS)).as_bytes());
    }
    Item { content: c, nl: !rng.chance(1, 4) }
}

impl Monitor for C11 {
    type Case = C11Case;

    fn id(&self) -> &'static str {
        "C11"
    }

    fn plan(&self, tier: Tier) -> Plan {
        // the sweep part does not depend on the seed in size except through the quick scalar slice (+-61 entries)
        let l = layout(tier, 1);
        let sweeps = l.singles + l.pairs + l.scalars + l.gen_scalars + l.blank_tails + 4;
        let mut p = Plan::new(
            sweeps + tier.pick(12_000, 600_000),
            "case = batch of up to 64 lines under one escaping mode; sweeps: all 256 single bytes, byte pairs (all in thorough, a seeded quarter in quick), Unicode scalars as a one-character line and between two backslashes (all in thorough; quick: U+0000..U+30FF, every boundary of the Cc/Cf/Cn/Co tables, a seeded stride of 61); then (generator path: what OutputStream::to_output_string writes, parsed back as it is) `$ ` / `> ` followed by every scalar of the same slice and a third of the random batches prefixed with `$ `, `> `, `$`, `>`; random strings biased to backslash-adjacent control bytes, spelled escapes, truncated / overlong UTF-8, lone continuation bytes, syntax look-alike tails (behind U+0020, and behind every other white-space blank: complete sweep of <head><blank>(<group>) under both modes and both observations, and a fifth of the random lines); non-trivial = a batch with at least one line that was written escaped; distinct = hash of the batch content",
        );
        p.floor_nontrivial = tier.pick(2_000, 20_000);
        p.floor_buckets = vec![
            ("reading:escaped".into(), 2_000),
            ("reading:equal".into(), 2_000),
            ("mode:ascii".into(), 1_000),
            ("mode:unicode".into(), 800),
            ("family:sweep-byte".into(), 4),
            ("family:sweep-pair".into(), 100),
            ("family:sweep-scalar".into(), 250),
            ("family:random".into(), 1_500),
            ("family:gen-sweep-scalar".into(), 120),
            ("family:gen-random".into(), 600),
            ("family:sweep-blank-tail".into(), 30),
            ("tail:other-blank".into(), 400),
            ("generator:forced-escape".into(), 600),
        ];
        p.assumptions = vec![
            format!("general categories Cc/Cf/Cn from CPython unicodedata {} (committed table vh/oracle/unicode_tables.rs), not from the unicode_categories crate", ut::UNIDATA_VERSION),
            "version skew: Cf code points assigned after Unicode 7.0 are counted (bucket skew:cf-after-7.0), not judged; the Cn clause is raised only for code points that are unassigned in the committed table".into(),
            "a line is a byte string without LF plus an optional final LF".into(),
            "Miri sidecar of DESIGN.md §5 not built (left out on request)".into(),
        ];
        p
    }

    fn gen(&self, env: &Env, k: u64, rng: &mut Rng) -> C11Case {
        if let Some(c) = sweep_case(env.tier, env.seed, k) {
            return c;
        }
        let mode = if rng.bool() { "ascii" } else { "unicode" };
        if rng.chance(1, 3) {
            // generator path: lines that look like a command (`$ `) or its continuation (`> `), also `$` / `>`
            // alone and unterminated, followed by the hostile content classes
            let items = (0..8)
                .map(|_| {
                    let mut it = random_item(rng);
                    let prefix: &[u8] = *rng.pick(&[&b"$ "[..], b"> ", b"$ ", b"> ", b"$", b">", b"$  ", b""]);
                    let mut c = prefix.to_vec();
                    if !rng.chance(1, 6) {
                        c.extend_from_slice(&it.content);
                    }
                    it.content = c;
                    it.nl = !rng.chance(1, 3);
                    it
                })
                .collect();
            return C11Case { mode: mode.into(), items, family: "gen-random".into(), via: "generator".into() };
        }
        C11Case {
            mode: mode.into(),
            items: (0..8).map(|_| random_item(rng)).collect(),
            family: "random".into(),
            via: String::new(),
        }
    }

    fn check(&self, _env: &Env, case: &C11Case) -> Checked {
        let mut escaped = 0usize;
        let mut equal = 0usize;
        let mut skew = 0usize;
        let mut raw = 0usize;
        // every line of the batch is judged; if several fail, the one reported is chosen by clause so that
        // the (expected, frequent) unassigned-code-point case never hides a different failure in the same batch
        let mut worst: Option<(u8, &Item, Fail)> = None;
        for item in &case.items {
            if item.content.contains(&b'\n') {
                continue;
            }
            match check_item(&case.via, &case.mode, item) {
                Ok(seen) => {
                    if seen.reading == "escaped" {
                        escaped += 1;
                    } else {
                        equal += 1;
                    }
                    skew += seen.skew as usize;
                    raw += seen.raw_kept as usize;
                }
                Err(f) => {
                    let rank = fail_rank(&f);
                    if worst.as_ref().map_or(true, |(r, _, _)| rank < *r) {
                        worst = Some((rank, item, f));
                    }
                }
            }
        }
        if let Some((_, item, f)) = worst {
            let min = minimal_content(&case.via, &case.mode, item, &f);
            let cand = C11Case { mode: case.mode.clone(), items: vec![Item { content: min.clone(), nl: item.nl }], family: case.family.clone(), via: case.via.clone() };
            LAST_MIN.with(|l| *l.borrow_mut() = Some((case.clone(), cand)));
            let f_min = check_item(&case.via, &case.mode, &Item { content: min.clone(), nl: item.nl }).err().unwrap_or(f.clone());
            return Checked::violated(signature(&case.mode, &f, &min), f_min.detail);
        }
        let mut h: Vec<u8> = case.mode.as_bytes().to_vec();
        for i in &case.items {
            h.extend_from_slice(&i.content);
            h.push(if i.nl { 10 } else { 0 });
        }
        let mut c = Checked::held().shape(escaped > 0, hash_bytes(&h)).bucket(format!("mode:{}", case.mode)).bucket(format!("family:{}", case.family));
        if escaped > 0 {
            c = c.bucket("reading:escaped");
        }
        if equal > 0 {
            c = c.bucket("reading:equal");
        }
        if skew > 0 {
            c = c.bucket("skew:cf-after-7.0");
        }
        if case.items.iter().any(|i| paren_tail(&i.content).is_some_and(|t| t.starts_with("ub"))) {
            c = c.bucket("tail:other-blank");
        }
        if case.via == "generator" {
            c = c.bucket("via:generator");
            let esc = escaper(&case.mode);
            let forced = case.items.iter().any(|i| {
                let mut l = i.content.clone();
                if i.nl {
                    l.push(b'\n');
                }
                !l.is_empty() && OutputStream::from(l).to_output_string(None, &esc).starts_with("\\x")
            });
            if forced {
                c = c.bucket("generator:forced-escape");
            }
        }
        if raw > 0 && escaped > 0 {
            c = c.bucket("near:marker-decision-both-ways");
        }
        c
    }

    fn sidecar(&self, env: &Env) -> Vec<SidecarReport> {
        // thorough: escape -> EscapedRule::make -> matches on 16 x 300 byte strings, interpreted by Miri
        if env.tier == Tier::Thorough {
            vec![crate::miri::run_miri("C11", "escape", 16, 300)]
        } else {
            vec![]
        }
    }

    fn shrink(&self, case: &C11Case) -> Vec<C11Case> {
        // the failing line that `check` reports, reduced to its minimal content (left behind by `check`)
        if let Some(m) = LAST_MIN.with(|l| l.borrow().as_ref().filter(|(c, _)| c == case).map(|(_, m)| m.clone())) {
            return if &m == case { vec![] } else { vec![m] };
        }
        let mut worst: Option<(u8, &Item, Fail)> = None;
        for item in &case.items {
            if item.content.contains(&b'\n') {
                continue;
            }
            if let Err(f) = check_item(&case.via, &case.mode, item) {
                let rank = fail_rank(&f);
                if worst.as_ref().map_or(true, |(r, _, _)| rank < *r) {
                    worst = Some((rank, item, f));
                }
            }
        }
        let Some((_, item, f)) = worst else { return vec![] };
        let min = minimal_content(&case.via, &case.mode, item, &f);
        let cand = C11Case {
            mode: case.mode.clone(),
            items: vec![Item { content: min, nl: item.nl }],
            family: case.family.clone(),
            via: case.via.clone(),
        };
        if &cand == case {
            vec![]
        } else {
            vec![cand]
        }
    }

    fn sample(&self, case: &C11Case) -> Value {
        let esc = escaper(&case.mode);
        json!({
            "mode": case.mode,
            "family": case.family,
            "via": if case.via.is_empty() { "Escaper::escaped_expectation" } else { "OutputStream::to_output_string" },
            "lines": case.items.iter().take(6).map(|i| {
                let mut l = i.content.clone();
                if i.nl { l.push(b'\n'); }
                let written = if case.via == "generator" { OutputStream::from(l.clone()).to_output_string(None, &esc) } else { esc.escaped_expectation(&l) };
                json!({"line": show(&l), "written": written})
            }).collect::<Vec<_>>(),
            "n_lines": case.items.len(),
        })
    }
}
