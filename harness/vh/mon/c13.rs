//! C13 — commands run verbatim; output bytes and exit codes captured exactly, per test.
//!
//! Oracle by construction: every test command writes prepared payload files with `cat`
//! (arbitrary bytes without shell quoting), or a single-quoted / here-document literal,
//! in a known order to fd 1 / fd 2 and ends with a chosen exit code.  The expected
//! streams are computed by the harness (own CRLF and CSI transforms, own splitting).
//! Both executors are driven through the library API; `replace_crlf` and
//! `TestCase::render_output` are also called directly.
//!
//! Signatures are derived from the *first differing byte* (class of the expected and
//! of the recorded byte, or the marker/placeholder token the position lies in), so
//! they do not change while a witness is shrunk.

use scrut::config::OutputStreamControl;
use scrut::config::TestCaseConfig;
use scrut::executors::error::ExecutionError;
use scrut::output::ExitStatus;
use scrut::output::Output;
use serde::Deserialize;
use serde::Serialize;
use serde_json::json;
use serde_json::Value;

use super::execcommon::*;
use crate::core::*;
use crate::rng::hash_str;
use crate::rng::hexbytes;
use crate::rng::show;
use crate::rng::Rng;

pub struct C13;

const DIVIDER: &str = "~~~~~~~~EXECDIVIDER::";

/// texts that scrut's own machinery treats specially somewhere
const TOKENS: &[(&str, &str)] = &[
    ("persist_state", "{persist_state}"),
    ("name", "{name}"),
    ("state_directory", "{state_directory}"),
    ("shell_expression", "{shell_expression}"),
    ("excluded_variables", "{excluded_variables}"),
    ("divider", DIVIDER),
    ("status", "$?"),
    ("state-path-var", "$__SCRUT_TEMP_STATE_PATH"),
];

// ---------------------------------------------------------------- case

/// `unit` repeated `n` times
#[derive(Clone, Debug, PartialEq, Serialize, Deserialize)]
pub struct Part {
    #[serde(with = "hexbytes")]
    pub unit: Vec<u8>,
    pub n: u32,
}

#[derive(Clone, Debug, PartialEq, Serialize, Deserialize, Default)]
pub struct Payload(pub Vec<Part>);

impl Payload {
    fn lit(b: &[u8]) -> Payload {
        Payload(vec![Part { unit: b.to_vec(), n: 1 }])
    }
    fn push(&mut self, b: &[u8], n: u32) {
        self.0.push(Part { unit: b.to_vec(), n });
    }
    fn len(&self) -> usize {
        self.0.iter().map(|p| p.unit.len() * p.n as usize).sum()
    }
    fn bytes(&self) -> Vec<u8> {
        let mut v = Vec::with_capacity(self.len());
        for p in &self.0 {
            for _ in 0..p.n {
                v.extend_from_slice(&p.unit);
            }
        }
        v
    }
    fn describe(&self) -> String {
        let parts: Vec<String> = self
            .0
            .iter()
            .map(|p| {
                let u = show(&p.unit[..p.unit.len().min(60)]);
                let more = if p.unit.len() > 60 { format!("..({} bytes)", p.unit.len()) } else { String::new() };
                if p.n == 1 {
                    format!("\"{u}{more}\"")
                } else {
                    format!("\"{u}{more}\"x{}", p.n)
                }
            })
            .collect();
        format!("[{}]", parts.join(" "))
    }
}

#[derive(Clone, Debug, PartialEq, Serialize, Deserialize)]
pub struct Chunk {
    /// 1 or 2
    pub fd: u8,
    pub data: Payload,
}

#[derive(Clone, Debug, PartialEq, Serialize, Deserialize)]
#[serde(tag = "cmd", rename_all = "kebab-case")]
pub enum Cmd {
    /// `cat f0; cat f1 >&2; ...` one writer at a time, in this order
    Chunks { chunks: Vec<Chunk> },
    /// `printf '%s\n' '<text>'` (form printf), `cat <<'VHEOF'` (form heredoc),
    /// `echo <text>` with an unquoted brace word (form bare; text must be one safe word)
    Literal { form: String, text: String },
    /// `(exit k); echo "s=$?"`
    Status { k: u8 },
    /// two background loops writing tagged lines to fd 1 and fd 2 at the same time
    Concurrent { out_lines: u32, err_lines: u32 },
    /// `cat a & cat b >&2 & wait` (judged per stream; not generated for `combined`)
    Both { out: Payload, err: Payload },
    /// Cram only: prints look-alike divider lines for itself and every later test, then `exit`
    Forge { exit_with: u8 },
    /// Markdown only. on: `<chunks>; set -x|-v` then `exit N`; off: `set +x|+v; <chunks>`.
    /// The trace of the user's own `exit N` / `set +x` is part of what the command wrote.
    Trace { flag: String, on: bool, chunks: Vec<Chunk> },
    /// the last line of the command ends in a backslash (one of `BACKSLASH_FORMS`); nothing is
    /// appended, the exit code is the command's own
    Backslash { form: String },
}

#[derive(Clone, Debug, PartialEq, Serialize, Deserialize)]
pub struct T {
    #[serde(flatten)]
    pub cmd: Cmd,
    pub code: u8,
    /// `IFS=<value>` is the first line of the command (IFS is shell state: it stays set for the
    /// rest of the document in both execution modes)
    #[serde(default)]
    pub ifs: Option<String>,
    /// Markdown only: a `set ...` line in front of the command (`set -e`, `set -eu`,
    /// `set -o pipefail`, `set +e`, ...); options are shell state and stay in effect
    #[serde(default)]
    pub pre: Option<String>,
    /// end with the failing last command `(exit N)` instead of `exit N`
    #[serde(default)]
    pub fail_last: bool,
}

#[derive(Clone, Debug, PartialEq, Serialize, Deserialize)]
pub struct Case {
    pub family: String,
    /// markdown | cram | render | crlf
    pub mode: String,
    /// none | stdout | stderr | combined
    pub stream: String,
    pub keep_crlf: Option<bool>,
    pub strip: Option<bool>,
    pub tests: Vec<T>,
}

// ---------------------------------------------------------------- own transforms

fn crlf_to_lf(b: &[u8]) -> Vec<u8> {
    let mut out = Vec::with_capacity(b.len());
    let mut i = 0;
    while i < b.len() {
        if b[i] == b'\r' && i + 1 < b.len() && b[i + 1] == b'\n' {
            i += 1;
            continue;
        }
        out.push(b[i]);
        i += 1;
    }
    out
}

/// length of the well-formed ECMA-48 escape sequence that starts at `b[0] == ESC`, if any:
///   CSI  ESC [ params(0x30-0x3F)* intermediates(0x20-0x2F)* final(0x40-0x7E)
///   OSC  ESC ] text(no C0)* terminated by BEL or ST (ESC \)
///   nF   ESC intermediates(0x20-0x2F)+ final(0x30-0x7E)
///   two-byte sequences ESC final(0x30-0x7E), except the string openers P X ^ _ (not generated)
fn escape_sequence_len(b: &[u8]) -> Option<usize> {
    if b.len() < 2 || b[0] != 0x1b {
        return None;
    }
    match b[1] {
        b'[' => {
            let mut j = 2;
            while j < b.len() && (0x30..=0x3f).contains(&b[j]) {
                j += 1;
            }
            while j < b.len() && (0x20..=0x2f).contains(&b[j]) {
                j += 1;
            }
            if j < b.len() && (0x40..=0x7e).contains(&b[j]) {
                Some(j + 1)
            } else {
                None
            }
        }
        b']' => {
            let mut j = 2;
            while j < b.len() {
                match b[j] {
                    0x07 => return Some(j + 1),
                    0x1b if b.get(j + 1) == Some(&b'\\') => return Some(j + 2),
                    c if c < 0x20 || c == 0x7f => return None,
                    _ => j += 1,
                }
            }
            None
        }
        0x20..=0x2f => {
            let mut j = 2;
            while j < b.len() && (0x20..=0x2f).contains(&b[j]) {
                j += 1;
            }
            if j < b.len() && (0x30..=0x7e).contains(&b[j]) {
                Some(j + 1)
            } else {
                None
            }
        }
        b'P' | b'X' | b'^' | b'_' => None,
        0x30..=0x7e => Some(2),
        _ => None,
    }
}

/// removes every well-formed escape sequence; every other byte stays
fn strip_csi(b: &[u8]) -> Vec<u8> {
    let mut out = Vec::with_capacity(b.len());
    let mut i = 0;
    while i < b.len() {
        if b[i] == 0x1b {
            if let Some(n) = escape_sequence_len(&b[i..]) {
                i += n;
                continue;
            }
        }
        out.push(b[i]);
        i += 1;
    }
    out
}

/// With `strip_ansi_escaping` the statement promises: ANSI escape sequences go, nothing else does.
/// A payload is judged exactly if it is valid UTF-8 without C1 controls in which every ESC starts a
/// well-formed sequence; TAB, CR and the other C0 controls outside sequences must survive.
fn strip_judgeable(raw: &[u8], keep: bool) -> bool {
    let b = if keep { raw.to_vec() } else { crlf_to_lf(raw) };
    // no ESC at all: there is no escape sequence, whatever the bytes are (0x9b, 0x90, 0x9d ... are
    // ordinary UTF-8 continuation bytes); only properly encoded C1 controls (c2 80 .. c2 9f) stay
    // out of scope
    if !b.contains(&0x1b) {
        return !b.windows(2).any(|w| w[0] == 0xc2 && (0x80..0xa0).contains(&w[1]));
    }
    let Ok(text) = std::str::from_utf8(&b) else {
        return false;
    };
    if text.chars().any(|c| (0x80..0xa0).contains(&(c as u32))) {
        return false;
    }
    !strip_csi(&b).contains(&0x1b)
}

/// strip_ansi_escaping on input with truncated / malformed sequences: judged only by a clause that
/// does not depend on how much of a malformed sequence goes (valid UTF-8 without C1 required)
fn strip_line_judgeable(raw: &[u8], keep: bool) -> bool {
    let b = if keep { raw.to_vec() } else { crlf_to_lf(raw) };
    match std::str::from_utf8(&b) {
        Ok(t) => !t.chars().any(|c| (0x80..0xa0).contains(&(c as u32))),
        Err(_) => false,
    }
}

/// every LF of the input survives, and every line (and unterminated tail) that contains no ESC at
/// all is byte-identical in the output, at the same line number
fn strip_line_check(raw: &[u8], keep: bool, got: &[u8]) -> Result<(), (String, String)> {
    let a = if keep { raw.to_vec() } else { crlf_to_lf(raw) };
    let lf = |b: &[u8]| b.iter().filter(|c| **c == b'\n').count();
    if lf(&a) != lf(got) {
        return Err((
            if lf(got) < lf(&a) { "line-break-lost".into() } else { "line-break-added".into() },
            format!("{} line breaks written, {} recorded", lf(&a), lf(got)),
        ));
    }
    let il: Vec<&[u8]> = a.split(|c| *c == b'\n').collect();
    let ol: Vec<&[u8]> = got.split(|c| *c == b'\n').collect();
    for (i, (x, y)) in il.iter().zip(ol.iter()).enumerate() {
        if !x.contains(&0x1b) && x != y {
            return Err(("clean-line-changed".into(), format!("line {i} has no ESC and was written as [{}] but recorded as [{}]", show(&x[..x.len().min(60)]), show(&y[..y.len().min(60)]))));
        }
    }
    Ok(())
}

fn transform(raw: &[u8], keep: bool, strip: bool) -> Vec<u8> {
    let a = if keep { raw.to_vec() } else { crlf_to_lf(raw) };
    if strip {
        strip_csi(&a)
    } else {
        a
    }
}

// ---------------------------------------------------------------- classification

fn byte_class(b: Option<&u8>) -> &'static str {
    match b {
        None => "end",
        Some(b'\r') => "cr",
        Some(b'\n') => "lf",
        Some(0x1b) => "esc",
        Some(0) => "nul",
        Some(b'\t') => "tab",
        Some(b) if *b < 0x20 || *b == 0x7f => "ctl",
        Some(b) if *b >= 0x80 => "high",
        Some(_) => "print",
    }
}

/// structural cause of `expected != got`: the token the first difference lies in, else
/// what happened at the first differing byte (a transform trigger lost / spuriously kept,
/// truncation, extra bytes, or a changed byte class). `raw` is what the command wrote.
fn diff_cause(raw: &[u8], expected: &[u8], got: &[u8], keep: bool, strip: bool) -> (usize, String) {
    let p = expected.iter().zip(got.iter()).take_while(|(a, b)| a == b).count();
    for (name, tok) in TOKENS {
        let t = tok.as_bytes();
        let from = p.saturating_sub(t.len() - 1);
        let to = (p + 1).min(expected.len());
        if from < to {
            for s in from..to {
                if expected[s..].starts_with(t) {
                    return (p, format!("token:{name}"));
                }
            }
        }
    }
    let e = byte_class(expected.get(p));
    let g = byte_class(got.get(p));
    let trigger = |x: &str| x == "cr" || x == "esc" || (strip && matches!(x, "tab" | "ctl" | "nul"));
    let mut c = if trigger(e) {
        format!("lost:{e}")
    } else if trigger(g) {
        format!("spurious:{g}")
    } else if g == "end" {
        "truncated".to_string()
    } else if e == "end" {
        "extra".to_string()
    } else {
        format!("changed:{e}->{g}")
    };
    // which documented transform was active on this very stream
    if !keep && crlf_to_lf(raw) != raw {
        c.push_str("[crlf->lf]");
    }
    if keep && find_bytes(raw, b"\r\n").is_some() {
        c.push_str("[keep_crlf]");
    }
    if strip {
        c.push_str("[strip]");
    }
    (p, c)
}

fn classes_of(b: &[u8]) -> Vec<&'static str> {
    let mut c = vec![];
    if b.is_empty() {
        c.push("empty");
        return c;
    }
    if *b.last().unwrap() != b'\n' {
        c.push("no-final-nl");
    }
    let mut crlf = false;
    let mut lone_cr = false;
    let mut esc = false;
    let mut nul = false;
    let mut high = false;
    let mut ctl = false;
    for (i, x) in b.iter().enumerate() {
        match *x {
            b'\r' => {
                if b.get(i + 1) == Some(&b'\n') {
                    crlf = true
                } else {
                    lone_cr = true
                }
            }
            0x1b => esc = true,
            0 => nul = true,
            x if x >= 0x80 => high = true,
            x if x < 0x20 && x != b'\n' && x != b'\t' => ctl = true,
            _ => {}
        }
    }
    for (f, n) in [(crlf, "crlf"), (lone_cr, "lone-cr"), (esc, "esc"), (nul, "nul"), (high, "high"), (ctl, "ctl")] {
        if f {
            c.push(n);
        }
    }
    if high && std::str::from_utf8(b).is_err() {
        c.push("invalid-utf8");
    }
    if find_bytes(b, DIVIDER.as_bytes()).is_some() {
        c.push("divider");
    }
    if TOKENS.iter().any(|(n, t)| *n != "divider" && find_bytes(b, t.as_bytes()).is_some()) {
        c.push("placeholder");
    }
    if b.len() > 64 * 1024 {
        c.push("big");
    }
    c
}

fn is_trigger(c: &str) -> bool {
    matches!(c, "crlf" | "esc" | "divider" | "placeholder" | "big")
}

// ---------------------------------------------------------------- generator

fn text_line(rng: &mut Rng) -> Vec<u8> {
    let words = ["alpha", "beta", "x", "1 2 3", "foo bar", "  indented", "tail  ", "a=b", "#c", "$ cmd", "> cont", "(glob)", "[1]"];
    let mut l = rng.pick(&words).as_bytes().to_vec();
    if rng.chance(1, 3) {
        l.push(b' ');
        l.extend_from_slice(rng.pick(&words).as_bytes());
    }
    l
}

const CSI: &[&[u8]] = &[b"\x1b[31m", b"\x1b[0m", b"\x1b[1;32m", b"\x1b[2K", b"\x1b[10;20H", b"\x1b[m", b"\x1b[38;5;196m", b"\x1b[?25l"];

/// a payload made of pieces of the listed kinds; `strip_safe`: only what `strip_judgeable` accepts
fn gen_payload(rng: &mut Rng, strip_safe: bool, keep: bool, allow_divider: bool) -> Payload {
    let mut p = Payload::default();
    if rng.chance(1, 14) {
        return p; // empty
    }
    let n = rng.range(1, 5);
    for _ in 0..n {
        let kind = if strip_safe { rng.weighted(&[6, 0, 0, 0, 0, if keep { 0 } else { 3 }, 5, 0, 0, 0, 2, 2, 1, 0, 0]) } else { rng.weighted(&[6, 2, 2, 2, 2, 4, 3, 2, 2, 2, 2, 2, 1, 2, 1]) };
        match kind {
            0 => {
                let mut l = text_line(rng);
                l.push(b'\n');
                p.push(&l, 1);
            }
            1 => p.push(&(0u8..=255).collect::<Vec<u8>>(), 1),
            2 => p.push(*rng.pick(&[&b"\xff\xfe\n"[..], b"\xc3\x28\n", b"ok \xf0\x9f\n", b"\x80"]), 1),
            3 => p.push(*rng.pick(&[&b"a\rb\n"[..], b"\r", b"progress\r100%\n"]), 1),
            4 => p.push(*rng.pick(&[&b"x\r\r\ny\n"[..], b"\r\r\n", b"\n\r\n\r"]), 1),
            5 => {
                let mut l = text_line(rng);
                l.extend_from_slice(b"\r\n");
                p.push(&l, *rng.pick(&[1u32, 1, 2, 3, 50, 700]));
            }
            6 => {
                let mut l = rng.pick(CSI).to_vec();
                l.extend_from_slice(&text_line(rng));
                l.extend_from_slice(*rng.pick(CSI));
                if rng.bool() {
                    l.push(b'\n');
                }
                p.push(&l, 1);
            }
            7 => p.push(*rng.pick(&[&b"\x1b]0;title\x07\n"[..], b"\x1b", b"\x1b(B", b"\x9b31m\n"]), 1),
            8 => p.push(b"a\0b\0\n", 1),
            9 => {
                if allow_divider {
                    let i = rng.below(3);
                    let c = rng.below(3);
                    let forms = [
                        format!("{DIVIDER}x::{i}::{c}\n"),
                        format!("text {DIVIDER}x::{i}::{c}\n"),
                        format!("{DIVIDER}\n"),
                        format!("{DIVIDER}x::{i}::{c}"),
                    ];
                    p.push(rng.pick(&forms).as_bytes(), 1);
                } else {
                    p.push(b"~~~~~~~~EXECDIVIDE\n", 1);
                }
            }
            10 => p.push("grüße € 😊\n".as_bytes(), 1),
            11 => p.push(*rng.pick(&[&b"\n"[..], b"\n\n\n", b"  \n", b"a  \n"]), 1),
            12 => p.push(b"{persist_state} {excluded_variables} {name}\n", 1),
            13 => {
                p.push(b"x", *rng.pick(&[4095u32, 4096, 4097, 65536, 70000]));
                p.push(b"\n", 1);
            }
            _ => p.push(b"\t\x01\x7f\x08\n", 1),
        }
    }
    if rng.chance(1, 5) {
        // unterminated last line
        let l = if strip_safe { b"tail".to_vec() } else { rng.pick(&[&b"tail"[..], b"tail\r", b"t\xff", b"{name}"]).to_vec() };
        p.push(&l, 1);
    }
    p
}

fn gen_code(rng: &mut Rng) -> u8 {
    loop {
        let c = match rng.below(6) {
            0 | 1 | 2 => 0u8,
            3 => *rng.pick(&[1u8, 2, 42, 79, 81, 126, 127, 128, 130, 137, 255]),
            _ => rng.byte(),
        };
        if c != 80 {
            return c;
        }
    }
}

const IFS_VALUES: &[&str] = &["0", "1", "01", "0123456789", "", "\n", ":", "x y", "-", "5 ", " \t\n"];

const LITERAL_WORDS: &[&str] = &[
    "{persist_state}",
    "{name}",
    "{state_directory}",
    "{shell_expression}",
    "{excluded_variables}",
    "$?",
    "$__SCRUT_TEMP_STATE_PATH",
    "it's",
    "\"dq\"",
    "back\\slash",
    "\\n",
    "grüße",
    "%s",
    "{}",
    "$(id)",
    "`id`",
    "plain",
    "#x",
    "*",
    "!!",
    "a;b",
    "{persist_state}{persist_state}",
];

fn gen_literal(rng: &mut Rng, cram: bool) -> Cmd {
    match rng.below(10) {
        0 => Cmd::Status { k: rng.pick(&[0u8, 1, 7, 255]).to_owned() },
        1 => Cmd::Literal { form: "bare".into(), text: rng.pick(&["{persist_state}", "{name}", "{excluded_variables}", "{state_directory}", "{shell_expression}"]).to_string() },
        f => {
            let lines = rng.range(1, 3);
            let mut text = String::new();
            for li in 0..lines {
                if li > 0 {
                    text.push('\n');
                }
                for wi in 0..rng.range(1, 4) {
                    if wi > 0 {
                        text.push(' ');
                    }
                    text.push_str(*rng.pick(LITERAL_WORDS));
                }
            }
            if !cram && rng.chance(1, 8) || cram && rng.chance(1, 6) {
                text.push_str(&format!(" {DIVIDER}x::0::0"));
            }
            Cmd::Literal { form: if f < 7 { "printf".into() } else { "heredoc".into() }, text }
        }
    }
}

fn gen_chunks(rng: &mut Rng, case: &Case) -> Cmd {
    let strip = case.strip == Some(true);
    let keep = case.keep_crlf == Some(true);
    let cram = case.mode == "cram";
    // marker-like payloads in cram mode end the sequence in an (accepted) error: keep them rare
    let allow_div = !cram || rng.chance(1, 10);
    let n = match rng.below(6) {
        0 => 1,
        1 | 2 => 2,
        _ => rng.range(2, 5),
    };
    let mut chunks = vec![];
    for i in 0..n {
        let fd = if n == 2 { (i + 1) as u8 } else { 1 + rng.below(2) as u8 };
        chunks.push(Chunk { fd, data: gen_payload(rng, strip, keep, allow_div) });
    }
    Cmd::Chunks { chunks }
}

fn big_payload(rng: &mut Rng, bytes: usize, tag: &str) -> Payload {
    let line = format!("{tag} 0123456789 abcdefghijklmnopqrstuvwxyz ABCDEFGHIJKLMNOPQRSTUVW\n");
    let mut p = Payload::default();
    p.push(line.as_bytes(), (bytes / line.len()).max(1) as u32);
    if rng.bool() {
        p.push(format!("{tag} last, unterminated").as_bytes(), 1);
    }
    p
}

fn gen_case(tier: Tier, k: u64, rng: &mut Rng) -> Case {
    let streams = ["none", "stdout", "stderr", "combined"];
    let tri = |rng: &mut Rng| *rng.pick(&[None, None, Some(false), Some(true), Some(true)]);
    let mut case = Case {
        family: String::new(),
        mode: "markdown".into(),
        stream: rng.pick(&streams).to_string(),
        keep_crlf: tri(rng),
        strip: if rng.chance(1, 3) { Some(true) } else { *rng.pick(&[None, Some(false)]) },
        tests: vec![],
    };
    // rare, separable families that kill the worker on a recursive replace_crlf
    if k % 37 == 5 {
        let pairs = match tier {
            Tier::Quick => *rng.pick(&[50_000u32, 100_000, 200_000]),
            Tier::Thorough => *rng.pick(&[50_000u32, 100_000, 300_000, 1_000_000]),
        };
        let mut p = Payload::default();
        p.push(b"ab\r\n", pairs);
        case.keep_crlf = None;
        case.strip = None;
        match (k / 37) % 3 {
            0 => {
                case.family = "crlf-direct-big".into();
                case.mode = "crlf".into();
            }
            1 => {
                case.family = "crlf-markdown-big".into();
                case.stream = "stdout".into();
            }
            _ => {
                case.family = "crlf-cram-big".into();
                case.mode = "cram".into();
                case.stream = "combined".into();
            }
        }
        case.tests = vec![T { cmd: Cmd::Chunks { chunks: vec![Chunk { fd: 1, data: p }] }, code: 0, ifs: None, pre: None, fail_last: false }];
        return case;
    }
    let fam = rng.weighted(&[22, 8, 26, 18, 12, 4, 5, 3, 2, 6, 14, 10, 8, 12, 9, 10, 8, 14]);
    match fam {
        0 => {
            case.family = "render-direct".into();
            case.mode = "render".into();
            let p = gen_payload(rng, case.strip == Some(true), case.keep_crlf == Some(true), true);
            case.tests = vec![T { cmd: Cmd::Chunks { chunks: vec![Chunk { fd: 1, data: p }] }, code: 0, ifs: None, pre: None, fail_last: false }];
        }
        1 => {
            case.family = "crlf-direct".into();
            case.mode = "crlf".into();
            case.keep_crlf = None;
            case.strip = None;
            let mut p = gen_payload(rng, false, false, true);
            if rng.bool() {
                p.push(*rng.pick(&[&b"\r\n"[..], b"ab\r\n", b"\r\r\n", b"\r\n\r\n"]), *rng.pick(&[1u32, 10, 1000, 5000, 20000]));
            }
            case.tests = vec![T { cmd: Cmd::Chunks { chunks: vec![Chunk { fd: 1, data: p }] }, code: 0, ifs: None, pre: None, fail_last: false }];
        }
        2 | 3 => {
            let cram = fam == 3;
            case.family = if cram { "cram-seq".into() } else { "markdown-seq".into() };
            if cram {
                case.mode = "cram".into();
                case.strip = None;
                if rng.bool() {
                    // what the Cram parser configures
                    case.stream = "combined".into();
                    case.keep_crlf = Some(true);
                }
            }
            let n = rng.range(1, 6);
            for _ in 0..n {
                let cmd = if rng.chance(1, 8) { gen_literal(rng, cram) } else { gen_chunks(rng, &case) };
                case.tests.push(T { cmd, code: gen_code(rng), ifs: None, pre: None, fail_last: false });
            }
        }
        4 => {
            let cram = rng.chance(2, 5);
            case.family = if cram { "literal-cram".into() } else { "literal-markdown".into() };
            if cram {
                case.mode = "cram".into();
                case.strip = None;
            }
            case.strip = if case.strip == Some(true) { None } else { case.strip };
            let n = rng.range(1, 4);
            for _ in 0..n {
                case.tests.push(T { cmd: gen_literal(rng, cram), code: gen_code(rng), ifs: None, pre: None, fail_last: false });
            }
        }
        5 => {
            let cram = rng.chance(2, 5);
            case.family = if cram { "concurrent-cram".into() } else { "concurrent-markdown".into() };
            if cram {
                case.mode = "cram".into();
            }
            case.strip = None;
            let n = tier.pick(1500, 6000) as u32;
            case.tests.push(T { cmd: Cmd::Concurrent { out_lines: n / 2 + rng.below(n as usize / 2) as u32, err_lines: n / 2 + rng.below(n as usize / 2) as u32 }, code: gen_code(rng), ifs: None, pre: None, fail_last: false });
            if rng.bool() {
                case.tests.push(T { cmd: Cmd::Status { k: 3 }, code: 0, ifs: None, pre: None, fail_last: false });
            }
        }
        6 => {
            let cram = rng.chance(2, 5);
            case.family = if cram { "big-cram".into() } else { "big-markdown".into() };
            if cram {
                case.mode = "cram".into();
            }
            case.strip = None;
            case.keep_crlf = *rng.pick(&[None, Some(true)]);
            let max = tier.pick(1usize << 20, 8usize << 20);
            let size = |rng: &mut Rng| *rng.pick(&[70_000usize, 200_000, 1 << 20, max]);
            let (a, b) = (size(rng), size(rng));
            let cmd = if case.stream == "combined" || rng.bool() {
                // one writer at a time: scrut still has to drain both pipes while the child runs
                Cmd::Chunks { chunks: vec![Chunk { fd: 2, data: big_payload(rng, b, "E") }, Chunk { fd: 1, data: big_payload(rng, a, "O") }] }
            } else {
                Cmd::Both { out: big_payload(rng, a, "O"), err: big_payload(rng, b, "E") }
            };
            case.tests.push(T { cmd, code: gen_code(rng), ifs: None, pre: None, fail_last: false });
            if rng.bool() {
                case.tests.push(T { cmd: Cmd::Chunks { chunks: vec![Chunk { fd: 1, data: Payload::lit(b"after\n") }] }, code: 0, ifs: None, pre: None, fail_last: false });
            }
        }
        7 => {
            case.family = "forge-cram".into();
            case.mode = "cram".into();
            case.strip = None;
            let n = rng.range(1, 4);
            let at = rng.below(n);
            for i in 0..n {
                let cmd = if i == at { Cmd::Forge { exit_with: *rng.pick(&[0u8, 0, 5]) } } else { Cmd::Chunks { chunks: vec![Chunk { fd: 1, data: Payload::lit(b"real\n") }] } };
                case.tests.push(T { cmd, code: 0, ifs: None, pre: None, fail_last: false });
            }
        }
        9 => {
            // long single-script documents: two- and three-digit test indices with two- and
            // three-digit exit codes in the divider lines; cheap commands (no process per test)
            case.family = "cram-long".into();
            case.mode = "cram".into();
            case.strip = None;
            let n = if rng.chance(1, 6) { rng.range(101, 105) } else { rng.range(11, 15) };
            for i in 0..n {
                let cmd = match rng.below(8) {
                    0 => Cmd::Chunks { chunks: vec![Chunk { fd: 1 + rng.below(2) as u8, data: Payload::lit(format!("out {i}").as_bytes()) }] },
                    1 => Cmd::Status { k: *rng.pick(&[0u8, 9, 99, 200]) },
                    _ => Cmd::Literal { form: "printf".into(), text: format!("t{i}") },
                };
                let code = if i >= 10 && rng.chance(2, 3) {
                    *rng.pick(&[100u8, 123, 127, 128, 200, 255])
                } else {
                    *rng.pick(&[0u8, 0, 1, 9, 10, 42, 99, 123, 255])
                };
                case.tests.push(T { cmd, code: code, ifs: None, pre: None, fail_last: false });
            }
        }
        10 => {
            // a hostile IFS (digits, empty, newline, ...) followed by chosen exit codes: neither the
            // recorded exit code nor the recorded bytes may depend on the user's IFS
            let cram = rng.chance(1, 3);
            case.family = if cram { "ifs-cram".into() } else { "ifs-markdown".into() };
            if cram {
                case.mode = "cram".into();
            }
            case.strip = None;
            let n = rng.range(1, 4);
            let at = rng.below(n);
            for i in 0..n {
                let cmd = match rng.below(4) {
                    0 => Cmd::Chunks { chunks: vec![Chunk { fd: 1 + rng.below(2) as u8, data: Payload::lit(format!("out 10 {i}\n").as_bytes()) }] },
                    1 => Cmd::Status { k: *rng.pick(&[0u8, 10, 101]) },
                    _ => Cmd::Literal { form: "printf".into(), text: format!("t{i} 100 1 0") },
                };
                let code = *rng.pick(&[0u8, 1, 7, 10, 10, 100, 101, 101, 110, 201, 210, 255]);
                let ifs = if i == at || rng.chance(1, 4) {
                    if rng.bool() {
                        // a digit of this very exit code
                        let d = code.to_string();
                        Some((d.as_bytes()[rng.below(d.len())] as char).to_string())
                    } else {
                        Some(rng.pick(IFS_VALUES).to_string())
                    }
                } else {
                    None
                };
                case.tests.push(T { cmd, code, ifs, pre: None, fail_last: false });
            }
        }
        11 => {
            // strip_ansi_escaping on text with C0 controls and real escape sequences: only the
            // sequences may go
            case.strip = Some(true);
            let which = rng.below(5);
            let payload = |rng: &mut Rng, keep: bool| {
                let mut p = Payload::default();
                for _ in 0..rng.range(1, 5) {
                    let piece: Vec<u8> = match rng.below(9) {
                        0 => b"a\tb\tc\n".to_vec(),
                        1 => {
                            if keep {
                                b"crlf kept\r\n".to_vec()
                            } else {
                                b"lone\rcr\n".to_vec()
                            }
                        }
                        2 => b"progress 10%\rprogress 100%\n".to_vec(),
                        3 => b"bell\x07 bs\x08 ff\x0c vt\x0b\n".to_vec(),
                        4 => b"nul\x00 del\x7f so\x0e\n".to_vec(),
                        5 => {
                            let mut l = rng.pick(CSI).to_vec();
                            l.extend_from_slice(b"col\toured");
                            l.extend_from_slice(*rng.pick(CSI));
                            l.push(b'\n');
                            l
                        }
                        6 => rng.pick(&[&b"\x1b]0;window title\x07after\tosc\n"[..], b"\x1b]2;t\x1b\\after st\r\n", b"\x1b]8;;http://x\x07link\x1b]8;;\x07\n"]).to_vec(),
                        7 => rng.pick(&[&b"\x1b7saved\x1b8\n"[..], b"\x1b(Bcharset\n", b"\x1b=keypad\x1b>\n", b"\x1bMri\x1bc\n"]).to_vec(),
                        _ => {
                            let mut l = text_line(rng);
                            l.push(b'\n');
                            l
                        }
                    };
                    p.push(&piece, 1);
                }
                p
            };
            let keep = case.keep_crlf == Some(true);
            match which {
                0 | 1 => {
                    case.family = "strip-c0-render".into();
                    case.mode = "render".into();
                    case.tests = vec![T { cmd: Cmd::Chunks { chunks: vec![Chunk { fd: 1, data: payload(rng, keep) }] }, code: 0, ifs: None, pre: None, fail_last: false }];
                }
                2 | 3 => {
                    case.family = "strip-c0-markdown".into();
                    for _ in 0..rng.range(1, 2) {
                        let chunks = vec![Chunk { fd: 1, data: payload(rng, keep) }, Chunk { fd: 2, data: payload(rng, keep) }];
                        case.tests.push(T { cmd: Cmd::Chunks { chunks }, code: gen_code(rng), ifs: None, pre: None, fail_last: false });
                    }
                }
                _ => {
                    case.family = "strip-c0-cram".into();
                    case.mode = "cram".into();
                    for _ in 0..rng.range(1, 2) {
                        let chunks = vec![Chunk { fd: 1, data: payload(rng, keep) }, Chunk { fd: 2, data: payload(rng, keep) }];
                        case.tests.push(T { cmd: Cmd::Chunks { chunks }, code: gen_code(rng), ifs: None, pre: None, fail_last: false });
                    }
                }
            }
        }
        14 => {
            // a long CR-free head (around 8 KiB, 16 KiB, 64 KiB, so that the first CR LF pair lies
            // after or across such a boundary) followed by CR LF lines
            case.strip = None;
            case.keep_crlf = *rng.pick(&[None, None, Some(false)]);
            let base = *rng.pick(&[8192usize, 8192, 8192, 16384, 65536, 4096, 32768]);
            let delta = rng.below(9) as isize - 4;
            // the CR of the first pair sits at offset `base + delta - 1`
            let head_len = (base as isize + delta - 1).max(16) as usize;
            let mut p = Payload::default();
            let line = b"0123456789abcde\n";
            p.push(line, (head_len / line.len()) as u32);
            let rest = head_len % line.len();
            if rest > 0 {
                let mut filler = vec![b'x'; rest - 1];
                filler.push(if rng.bool() { b'y' } else { b'\n' });
                p.push(&filler, 1);
            }
            p.push(b"\r\n", 1);
            p.push(b"last line\r\n", rng.range(1, 3) as u32);
            let chunks = vec![Chunk { fd: 1 + rng.below(2) as u8, data: p }];
            match rng.below(4) {
                0 | 1 => {
                    case.family = "crlf-late-render".into();
                    case.mode = "render".into();
                }
                2 => case.family = "crlf-late-markdown".into(),
                _ => {
                    case.family = "crlf-late-cram".into();
                    case.mode = "cram".into();
                }
            }
            case.tests = vec![T { cmd: Cmd::Chunks { chunks }, code: 0, ifs: None, pre: None, fail_last: false }];
        }
        15 => {
            // truncated / malformed escape sequences under strip_ansi_escaping
            case.strip = Some(true);
            let keep = case.keep_crlf == Some(true);
            let payload = |rng: &mut Rng| {
                let mut p = Payload::default();
                for _ in 0..rng.range(2, 6) {
                    let piece: &[u8] = match rng.below(14) {
                        0 => b"status:\x1b[1;31\nfailed in 3 steps\n",
                        1 => b"cut\x1b[\nnext line\n",
                        2 => b"crlf\x1b[1;\r\nafter crlf\n",
                        3 => b"tab\x1b[\tafter tab\n",
                        4 => "nonascii\x1b[é text\n".as_bytes(),
                        5 => b"inter\x1b[1 \nz line\n",
                        6 => b"osc\x1b]0;title without end\nrest of it\n",
                        7 => b"two\x1b[31\x1b[0m mixed\nplain after\n",
                        8 => b"\x1b[\n\x1b[\nthird\n",
                        9 => b"\x1b[32mwell formed\x1b[0m\n",
                        10 => b"esc-lf\x1b\nline\n",
                        _ => b"clean line with letters\n",
                    };
                    p.push(piece, 1);
                }
                match rng.below(4) {
                    0 => p.push(b"end\x1b", 1),
                    1 => p.push(b"tail\x1b[1;3", 1),
                    2 => p.push(b"tail\x1b[", 1),
                    _ => {}
                }
                p
            };
            let _ = keep;
            match rng.below(5) {
                0 | 1 => {
                    case.family = "strip-malformed-render".into();
                    case.mode = "render".into();
                    case.tests = vec![T { cmd: Cmd::Chunks { chunks: vec![Chunk { fd: 1, data: payload(rng) }] }, code: 0, ifs: None, pre: None, fail_last: false }];
                }
                w => {
                    if w == 4 {
                        case.family = "strip-malformed-cram".into();
                        case.mode = "cram".into();
                    } else {
                        case.family = "strip-malformed-markdown".into();
                    }
                    for _ in 0..rng.range(1, 2) {
                        let chunks = vec![Chunk { fd: 1, data: payload(rng) }, Chunk { fd: 2, data: payload(rng) }];
                        case.tests.push(T { cmd: Cmd::Chunks { chunks }, code: gen_code(rng), ifs: None, pre: None, fail_last: false });
                    }
                }
            }
        }
        17 => {
            // text whose UTF-8 encoding contains the bytes of the C1 sequence introducers (9b CSI,
            // 90 DCS, 9d OSC, 9e PM, 9f APC, 98 SOS), directly followed by what a sequence would
            // swallow; also ESC-free invalid UTF-8 with those bytes: nothing of it is a sequence
            case.strip = Some(true);
            let invalid = rng.chance(1, 3);
            let payload = |rng: &mut Rng| {
                let mut p = Payload::default();
                for _ in 0..rng.range(2, 5) {
                    let piece: Vec<u8> = if invalid {
                        rng.pick(&[&b"\x9b31mred\n"[..], b"ab\x9d0;title\x07x\n", b"\xff\x9b1;2Hx\n", b"\x90data\x9ctail\n", b"\x98s \x9e p \x9f a\n", b"\xc4\n9b alone\n", b"plain\n"]).to_vec()
                    } else {
                        match rng.below(12) {
                            0 => "ě1;31m red\n".as_bytes().to_vec(),
                            1 => "⌛0m done\n".as_bytes().to_vec(),
                            2 => "😛2Jx cleared\n".as_bytes().to_vec(),
                            3 => "Đdata until the end\n".as_bytes().to_vec(),
                            4 => "ĝ0;title\x07after\n".as_bytes().to_vec(),
                            5 => "Ğpm ğapc Ęsos\n".as_bytes().to_vec(),
                            6 => "řádek ěščřžýáíé 12;3H\n".as_bytes().to_vec(),
                            7 => "ě\n⌛\n😛".as_bytes().to_vec(),
                            8 => "\x1b[31mě1m\x1b[0m⌛;\n".as_bytes().to_vec(),
                            9 => "tab\tě[1m\r\n".as_bytes().to_vec(),
                            _ => {
                                let mut l = text_line(rng);
                                l.push(b'\n');
                                l
                            }
                        }
                    };
                    p.push(&piece, 1);
                }
                p
            };
            match rng.below(5) {
                0 | 1 => {
                    case.family = "strip-c1bytes-render".into();
                    case.mode = "render".into();
                    case.tests = vec![T { cmd: Cmd::Chunks { chunks: vec![Chunk { fd: 1, data: payload(rng) }] }, code: 0, ifs: None, pre: None, fail_last: false }];
                }
                w => {
                    if w == 4 {
                        case.family = "strip-c1bytes-cram".into();
                        case.mode = "cram".into();
                    } else {
                        case.family = "strip-c1bytes-markdown".into();
                    }
                    let chunks = vec![Chunk { fd: 1, data: payload(rng) }, Chunk { fd: 2, data: payload(rng) }];
                    case.tests.push(T { cmd: Cmd::Chunks { chunks }, code: gen_code(rng), ifs: None, pre: None, fail_last: false });
                }
            }
        }
        16 => {
            // a command whose last line ends in a backslash, at the first / middle / last position
            let cram = rng.chance(3, 4);
            case.family = if cram { "backslash-cram".into() } else { "backslash-markdown".into() };
            if cram {
                case.mode = "cram".into();
            }
            case.strip = None;
            let n = rng.range(1, 4);
            let at = rng.below(n);
            for i in 0..n {
                if i == at || rng.chance(1, 4) {
                    let (form, _, code) = *rng.pick(BACKSLASH_FORMS);
                    case.tests.push(T { cmd: Cmd::Backslash { form: form.into() }, code, ifs: None, pre: None, fail_last: false });
                } else {
                    let chunks = vec![Chunk { fd: 1 + rng.below(2) as u8, data: Payload::lit(format!("plain {i}\n").as_bytes()) }];
                    case.tests.push(T { cmd: Cmd::Chunks { chunks }, code: gen_code(rng), ifs: None, pre: None, fail_last: false });
                }
            }
        }
        13 => {
            // `set -e` and friends in one Markdown test, carried into the following ones: every
            // test keeps its own exit code (0 and non-zero, by `exit N` and by a failing last command)
            case.family = "errexit-markdown".into();
            case.strip = None;
            let n = rng.range(2, 5);
            let at = rng.below(n - 1);
            let mut on = false;
            for i in 0..n {
                let pre = if i == at {
                    on = true;
                    Some(rng.pick(&["set -e", "set -e", "set -eu", "set -euo pipefail", "set -o errexit", "set -o pipefail"]).to_string())
                } else if on && rng.chance(1, 5) {
                    on = false;
                    Some(rng.pick(&["set +e", "set +eu"]).to_string())
                } else {
                    None
                };
                let cmd = match rng.below(3) {
                    0 => Cmd::Literal { form: "printf".into(), text: format!("line {i}") },
                    _ => {
                        let mut l = text_line(rng);
                        l.push(b'\n');
                        let mut chunks = vec![Chunk { fd: 1, data: Payload::lit(&l) }];
                        if rng.bool() {
                            chunks.push(Chunk { fd: 2, data: Payload::lit(b"to stderr\n") });
                        }
                        Cmd::Chunks { chunks }
                    }
                };
                let code = if rng.bool() { 0 } else { *rng.pick(&[1u8, 2, 3, 7, 42, 127, 255]) };
                case.tests.push(T { cmd, code, ifs: None, pre, fail_last: rng.chance(2, 5) });
            }
        }
        12 => {
            // `set -x` / `set -v` in one Markdown test, switched off first thing in the next one:
            // only the trace of the user's own commands belongs to the recorded stderr
            case.family = "trace-markdown".into();
            case.strip = None;
            case.keep_crlf = None;
            let flag = if rng.chance(2, 3) { "x" } else { "v" };
            let small = |rng: &mut Rng| {
                let mut v = vec![];
                for _ in 0..rng.range(0, 2) {
                    let mut l = text_line(rng);
                    l.push(b'\n');
                    v.push(Chunk { fd: 1 + rng.below(2) as u8, data: Payload::lit(&l) });
                }
                v
            };
            if rng.bool() {
                case.tests.push(T { cmd: Cmd::Chunks { chunks: small(rng) }, code: gen_code(rng), ifs: None, pre: None, fail_last: false });
            }
            case.tests.push(T { cmd: Cmd::Trace { flag: flag.into(), on: true, chunks: small(rng) }, code: gen_code(rng), ifs: None, pre: None, fail_last: false });
            case.tests.push(T { cmd: Cmd::Trace { flag: flag.into(), on: false, chunks: small(rng) }, code: gen_code(rng), ifs: None, pre: None, fail_last: false });
            if rng.bool() {
                case.tests.push(T { cmd: Cmd::Chunks { chunks: small(rng) }, code: gen_code(rng), ifs: None, pre: None, fail_last: false });
            }
        }
        _ => {
            // render_output on larger inputs, in-process
            case.family = "render-direct-large".into();
            case.mode = "render".into();
            case.strip = None;
            let mut p = Payload::default();
            p.push(b"line of text\r\n", *rng.pick(&[5_000u32, 20_000]));
            p.push(b"\x1b[31mred\x1b[0m\n", 100);
            case.tests = vec![T { cmd: Cmd::Chunks { chunks: vec![Chunk { fd: 1, data: p }] }, code: 0, ifs: None, pre: None, fail_last: false }];
        }
    }
    case
}

// ---------------------------------------------------------------- driving

fn stream_cfg(s: &str) -> Option<OutputStreamControl> {
    match s {
        "stdout" => Some(OutputStreamControl::Stdout),
        "stderr" => Some(OutputStreamControl::Stderr),
        "combined" => Some(OutputStreamControl::Combined),
        _ => None,
    }
}

enum Expect {
    /// exact bytes written to fd 1 / fd 2, in write order when merged
    Exact { out: Vec<u8>, err: Vec<u8>, merged: Vec<u8> },
    /// two concurrent line writers
    Lines { out_lines: u32, err_lines: u32 },
}

struct Built {
    script: String,
    expect: Expect,
    /// the command ends the shell itself (cram: later tests never run)
    exits: bool,
    code: u8,
}

fn out_line(i: u32) -> String {
    format!("O{i}-stdout-line-padding-0123456789")
}
fn err_line(i: u32) -> String {
    format!("E{i}-stderr-line-padding-0123456789")
}

fn build(t: &T, idx: usize, n_tests: usize, case: &Case, dirs: &Dirs) -> std::io::Result<Built> {
    let cram = case.mode == "cram";
    let combined = case.stream == "combined";
    let pdir = dirs.root.join("payload");
    std::fs::create_dir_all(&pdir)?;
    let mut lines: Vec<String> = vec![];
    if let Some(v) = &t.ifs {
        lines.push(format!("IFS={}", if v.is_empty() { "''".to_string() } else { sh_quote(v) }));
    }
    if let Some(p) = &t.pre {
        lines.push(p.clone());
    }
    let (mut out, mut err, mut merged) = (vec![], vec![], vec![]);
    let mut expect_lines = None;
    let mut exits = false;
    let mut own_end = false;
    let mut code = t.code;
    let write = |name: String, data: &Payload| -> std::io::Result<String> {
        let p = pdir.join(name);
        std::fs::write(&p, data.bytes())?;
        Ok(sq_quote(&p.to_string_lossy()))
    };
    match &t.cmd {
        Cmd::Chunks { chunks } => {
            for (j, c) in chunks.iter().enumerate() {
                let f = write(format!("t{idx}c{j}"), &c.data)?;
                let b = c.data.bytes();
                merged.extend_from_slice(&b);
                if c.fd == 2 {
                    lines.push(format!("cat {f} >&2"));
                    err.extend_from_slice(&b);
                } else {
                    lines.push(format!("cat {f}"));
                    out.extend_from_slice(&b);
                }
            }
        }
        Cmd::Literal { form, text } => {
            match form.as_str() {
                "heredoc" => lines.push(format!("cat <<'VHEOF'\n{text}\nVHEOF")),
                "bare" => lines.push(format!("echo {text}")),
                _ => lines.push(format!("printf '%s\\n' {}", sq_quote(text))),
            }
            out.extend_from_slice(text.as_bytes());
            out.push(b'\n');
            merged = out.clone();
        }
        Cmd::Status { k } => {
            lines.push(format!("(exit {k})\necho \"s=$?\""));
            out.extend_from_slice(format!("s={k}\n").as_bytes());
            merged = out.clone();
        }
        Cmd::Concurrent { out_lines, err_lines } => {
            lines.push(format!(
                "{{ i=0; while [ $i -lt {out_lines} ]; do echo \"O$i-stdout-line-padding-0123456789\"; i=$((i+1)); done; }} &\n{{ i=0; while [ $i -lt {err_lines} ]; do echo \"E$i-stderr-line-padding-0123456789\" >&2; i=$((i+1)); done; }} &\nwait"
            ));
            expect_lines = Some((*out_lines, *err_lines));
        }
        Cmd::Both { out: o, err: e } => {
            let fo = write(format!("t{idx}o"), o)?;
            let fe = write(format!("t{idx}e"), e)?;
            lines.push(format!("cat {fo} &\ncat {fe} >&2 &\nwait"));
            out = o.bytes();
            err = e.bytes();
        }
        Cmd::Backslash { form } => {
            let (text, printed, c) = BACKSLASH_FORMS.iter().find(|(t, _, _)| t == form).copied().unwrap_or(("true \\", "", 0));
            lines.push(text.to_string());
            out.extend_from_slice(printed.as_bytes());
            merged.extend_from_slice(printed.as_bytes());
            code = c;
            own_end = true;
        }
        Cmd::Trace { flag, on, chunks } => {
            let verbose = flag == "v";
            if !*on {
                lines.push(format!("set +{flag}"));
                let tr = if verbose { format!("set +{flag}\n") } else { format!("+ set +{flag}\n") };
                err.extend_from_slice(tr.as_bytes());
                merged.extend_from_slice(tr.as_bytes());
            }
            for (j, c) in chunks.iter().enumerate() {
                let f = write(format!("t{idx}c{j}"), &c.data)?;
                let b = c.data.bytes();
                merged.extend_from_slice(&b);
                if c.fd == 2 {
                    lines.push(format!("cat {f} >&2"));
                    err.extend_from_slice(&b);
                } else {
                    lines.push(format!("cat {f}"));
                    out.extend_from_slice(&b);
                }
            }
            if *on {
                lines.push(format!("set -{flag}"));
                let tr = if verbose { format!("exit {}\n", t.code) } else { format!("+ exit {}\n", t.code) };
                err.extend_from_slice(tr.as_bytes());
                merged.extend_from_slice(tr.as_bytes());
                lines.push(format!("exit {}", t.code));
                exits = true;
            }
        }
        Cmd::Forge { exit_with: c } => {
            for j in idx..n_tests {
                let l1 = format!("forged-{j}");
                let l2 = format!("{DIVIDER}x::{j}::0");
                lines.push(format!("echo {l1}\necho '{l2}'"));
                out.extend_from_slice(format!("{l1}\n{l2}\n").as_bytes());
                merged.extend_from_slice(format!("{l1}\n{l2}\n").as_bytes());
                if !combined {
                    lines.push(format!("echo '{l2}' >&2"));
                    err.extend_from_slice(format!("{l2}\n").as_bytes());
                } else {
                    // nothing on fd 2
                }
            }
            lines.push("echo after-forged".into());
            out.extend_from_slice(b"after-forged\n");
            merged.extend_from_slice(b"after-forged\n");
            lines.push(format!("exit {c}"));
            exits = true;
            code = *c;
        }
    }
    if !exits && !own_end {
        if cram || t.fail_last || (t.code != 0 && idx % 2 == 1) {
            lines.push(format!("(exit {})", t.code));
        } else {
            lines.push(format!("exit {}", t.code));
        }
    }
    let expect = match expect_lines {
        Some((o, e)) => Expect::Lines { out_lines: o, err_lines: e },
        None => Expect::Exact { out, err, merged },
    };
    Ok(Built { script: lines.join("\n"), expect, exits, code })
}

fn has_marker(case: &Case) -> bool {
    case.tests.iter().any(|t| match &t.cmd {
        Cmd::Chunks { chunks } => chunks.iter().any(|c| find_bytes(&c.data.bytes(), DIVIDER.as_bytes()).is_some()),
        Cmd::Literal { text, .. } => text.contains(DIVIDER),
        Cmd::Both { out, err } => find_bytes(&out.bytes(), DIVIDER.as_bytes()).is_some() || find_bytes(&err.bytes(), DIVIDER.as_bytes()).is_some(),
        Cmd::Forge { .. } => true,
        _ => false,
    })
}

fn trace_class(case: &Case) -> Option<String> {
    let flags: std::collections::BTreeSet<&str> = case
        .tests
        .iter()
        .filter_map(|t| match &t.cmd {
            Cmd::Trace { flag, .. } => Some(flag.as_str()),
            _ => None,
        })
        .collect();
    if flags.is_empty() {
        None
    } else {
        Some(flags.into_iter().collect::<Vec<_>>().join("+"))
    }
}

fn error_class(e: &ExecutionError) -> &'static str {
    match e {
        ExecutionError::FailedExecution { .. } => "failed-execution",
        ExecutionError::AbortedExecutions { .. } => "aborted-executions",
        ExecutionError::Timeout(..) => "timeout",
        ExecutionError::Skipped(_) => "skipped",
    }
}

fn check_lines(stream: &[u8], prefix: u8, n: u32, mk: fn(u32) -> String) -> Result<(), String> {
    let mut next = 0u32;
    for l in stream.split(|b| *b == b'\n') {
        if l.first() == Some(&prefix) {
            if l != mk(next).as_bytes() {
                return Err(format!("line {next} of writer {} is [{}]", prefix as char, show(&l[..l.len().min(80)])));
            }
            next += 1;
        }
    }
    if next != n {
        return Err(format!("{next} of {n} lines of writer {}", prefix as char));
    }
    Ok(())
}

fn evidence(case: &Case) -> (bool, u64, Vec<String>) {
    let mut classes: std::collections::BTreeSet<&'static str> = Default::default();
    let mut total = 0usize;
    for t in &case.tests {
        match &t.cmd {
            Cmd::Chunks { chunks } => {
                for c in chunks {
                    total += c.data.len();
                    classes.extend(classes_of(&c.data.bytes()));
                }
            }
            Cmd::Literal { text, .. } => {
                total += text.len();
                classes.extend(classes_of(text.as_bytes()));
                classes.insert("literal");
            }
            Cmd::Status { .. } => {
                classes.insert("status");
            }
            Cmd::Concurrent { out_lines, err_lines } => {
                total += (*out_lines + *err_lines) as usize * 36;
                classes.insert("concurrent");
                classes.insert("big");
            }
            Cmd::Both { out, err } => {
                total += out.len() + err.len();
                classes.insert("both-at-once");
                classes.insert("big");
            }
            Cmd::Forge { .. } => {
                classes.insert("divider");
                classes.insert("forge");
            }
            Cmd::Backslash { .. } => {
                classes.insert("backslash-end");
            }
            Cmd::Trace { chunks, .. } => {
                classes.insert("trace");
                for c in chunks {
                    total += c.data.len();
                }
            }
        }
    }
    let nontrivial = classes.iter().any(|c| is_trigger(c)) || total > 64 * 1024;
    let bucket = (usize::BITS - total.leading_zeros()) as u64;
    let cfg = format!("{}|{}|k{:?}|s{:?}", case.mode, case.stream, case.keep_crlf, case.strip);
    let shape = hash_str(&format!("{cfg}|{:?}|{bucket}", classes));
    let mut b = vec![
        format!("family:{}", case.family),
        // the family without its execution mode: floors are set on these (the per-mode counts of
        // the small families are too low to carry a floor of their own)
        format!(
            "group:{}",
            ["-render", "-markdown", "-cram", "-direct"].iter().find_map(|m| case.family.strip_suffix(m)).unwrap_or(&case.family)
        ),
        format!("mode:{}", case.mode),
        format!("cfg:stream={}", case.stream),
        format!("cfg:keep_crlf={:?}", case.keep_crlf),
        format!("cfg:strip={:?}", case.strip),
    ];
    for c in &classes {
        b.push(format!("class:{c}"));
    }
    if case.tests.len() > 1 {
        b.push("sequence>1".into());
    }
    if case.tests.len() > 10 {
        b.push("sequence>10".into());
    }
    if case.tests.len() > 100 {
        b.push("sequence>100".into());
    }
    (nontrivial, shape, b)
}

fn finish(mut c: Checked, case: &Case) -> Checked {
    let (nt, shape, b) = evidence(case);
    if !c.is_violated() {
        c.nontrivial = nt && matches!(c.verdict, Verdict::Held);
    }
    c.shape = shape;
    c.buckets.extend(b);
    c
}

fn check_direct(case: &Case) -> Checked {
    let Some(T { cmd: Cmd::Chunks { chunks }, .. }) = case.tests.first() else {
        return Checked::out_of_scope("direct case without payload");
    };
    let raw: Vec<u8> = chunks.iter().flat_map(|c| c.data.bytes()).collect();
    if case.mode == "crlf" {
        let got = scrut::newline::replace_crlf(&raw).to_vec();
        let exp = crlf_to_lf(&raw);
        if got != exp {
            let (p, cause) = diff_cause(&raw, &exp, &got, false, false);
            return Checked::violated(
                format!("C13/replace_crlf/{cause}"),
                format!("replace_crlf differs from 'every CR LF pair becomes LF' at byte {p} of {} input bytes", raw.len()),
            );
        }
        return Checked::held().bucket("direct:replace_crlf");
    }
    let keep = case.keep_crlf == Some(true);
    let strip = case.strip == Some(true);
    if strip && !strip_judgeable(&raw, keep) && !strip_line_judgeable(&raw, keep) {
        return Checked::out_of_scope("strip_ansi_escaping with bytes the statement says nothing about");
    }
    let tc = testcase(
        "true",
        TestCaseConfig { keep_crlf: case.keep_crlf, strip_ansi_escaping: case.strip, ..Default::default() },
    );
    let got = match tc.render_output(&raw) {
        Ok(g) => g.to_vec(),
        Err(e) => return Checked::violated("C13/render_output/error", format!("render_output failed: {e}")),
    };
    if strip && !strip_judgeable(&raw, keep) {
        return match strip_line_check(&raw, keep, &got) {
            Ok(()) => Checked::held().bucket("direct:render_output").bucket("strip:malformed-sequences"),
            Err((cause, why)) => Checked::violated(format!("C13/render_output/strip-malformed:{cause}"), format!("render_output(strip, keep_crlf={:?}): {why}", case.keep_crlf)),
        };
    }
    let exp = transform(&raw, keep, strip);
    if got != exp {
        let (p, cause) = diff_cause(&raw, &exp, &got, keep, strip);
        return Checked::violated(
            format!("C13/render_output/{cause}"),
            format!(
                "render_output(keep_crlf={:?}, strip={:?}) differs at byte {p}: expected ..[{}] got ..[{}]",
                case.keep_crlf,
                case.strip,
                show(&exp[p.saturating_sub(10)..(p + 20).min(exp.len())]),
                show(&got[p.saturating_sub(10)..(p + 20).min(got.len())])
            ),
        );
    }
    Checked::held().bucket("direct:render_output")
}

fn ifs_class(case: &Case) -> Option<&'static str> {
    let vals: Vec<&String> = case.tests.iter().filter_map(|t| t.ifs.as_ref()).collect();
    if vals.is_empty() {
        None
    } else if vals.iter().any(|v| v.chars().any(|c| c.is_ascii_digit())) {
        Some("digit")
    } else if vals.iter().any(|v| v.is_empty()) {
        Some("empty")
    } else {
        Some("other")
    }
}

const PRE_LINES: &[&str] = &["set -e", "set -eu", "set -o pipefail", "set -euo pipefail", "set -o errexit", "set +e", "set +eu", "set +o pipefail"];

fn shellopt_class(case: &Case) -> Option<&'static str> {
    let lines: Vec<&String> = case.tests.iter().filter_map(|t| t.pre.as_ref()).collect();
    if lines.is_empty() {
        None
    } else if lines.iter().any(|l| l.starts_with("set -e") || l.contains("-o errexit")) {
        Some("errexit")
    } else {
        Some("other")
    }
}

/// (command text, what it prints to stdout, its exit code) when the line is the last one typed
const BACKSLASH_FORMS: &[(&str, &str, u8)] = &[
    ("echo foo \\", "foo\n", 0),
    ("echo foo \\ ", "foo  \n", 0),
    ("echo a; \\", "a\n", 0),
    ("echo one\necho two \\", "one\ntwo\n", 0),
    ("true \\", "", 0),
    ("false \\", "", 1),
    ("(exit 7) \\", "", 7),
];

fn check_exec(env: &Env, case: &Case) -> Checked {
    if ifs_class(case).is_some() && case.tests.iter().any(|t| matches!(t.cmd, Cmd::Concurrent { .. })) {
        return Checked::out_of_scope("the concurrent-writer loops use unquoted expansions: not combined with a user IFS");
    }
    if trace_class(case).is_some() && (case.mode != "markdown" || ifs_class(case).is_some()) {
        return Checked::out_of_scope("set -x / set -v sequences are a Markdown-mode input");
    }
    if let Some(cls) = shellopt_class(case) {
        let ok_line = |p: &str| PRE_LINES.contains(&p);
        if case.mode != "markdown" || !case.tests.iter().all(|t| t.pre.as_deref().map_or(true, ok_line)) {
            return Checked::out_of_scope("`set` lines are a Markdown-mode input taken from a fixed list");
        }
        // under errexit a non-zero `(exit k)` in the middle of a command ends it there
        if cls == "errexit" && case.tests.iter().any(|t| matches!(t.cmd, Cmd::Status { k } if k != 0) || matches!(t.cmd, Cmd::Concurrent { .. } | Cmd::Trace { .. })) {
            return Checked::out_of_scope("command kinds that are not combined with errexit");
        }
    }
    let mut c = check_exec_inner(env, case);
    if let (Some(cls), Verdict::Violated { sig, .. }) = (shellopt_class(case), &mut c.verdict) {
        sig.push_str(&format!("/shellopt:{cls}"));
    }
    if shellopt_class(case).is_some() {
        c = c.bucket("class:shellopt");
    }
    if let (Some(cls), Verdict::Violated { sig, .. }) = (ifs_class(case), &mut c.verdict) {
        sig.push_str(&format!("/ifs:{cls}"));
    }
    if let (Some(cls), Verdict::Violated { sig, .. }) = (trace_class(case), &mut c.verdict) {
        sig.push_str(&format!("/trace:{cls}"));
    }
    if ifs_class(case).is_some() {
        c = c.bucket("class:ifs");
    }
    c
}

fn check_exec_inner(env: &Env, case: &Case) -> Checked {
    let cram = case.mode == "cram";
    let keep = case.keep_crlf == Some(true);
    let strip = case.strip == Some(true);
    let combined = case.stream == "combined";

    if case.tests.is_empty() {
        return Checked::out_of_scope("no tests");
    }
    if case.tests.iter().any(|t| t.code == 80 || matches!(t.cmd, Cmd::Forge { exit_with: 80 })) {
        return Checked::out_of_scope("exit code 80 is the skip code (C15)");
    }
    if !cram && case.tests.iter().any(|t| matches!(t.cmd, Cmd::Forge { .. })) {
        return Checked::out_of_scope("forge is a cram-mode input");
    }
    if combined && case.tests.iter().any(|t| matches!(t.cmd, Cmd::Both { .. })) {
        return Checked::out_of_scope("two unsynchronised writers on one pipe have no defined order");
    }
    seal_env();
    let dirs = match Dirs::new(env, "c13") {
        Ok(d) => d,
        Err(e) => return Checked::inconclusive(format!("mkdir: {e}")),
    };
    let ctx = dirs.context("c13.md");
    let environment = test_environment(&dirs, "c13.md", false);
    let mut built = vec![];
    for (i, t) in case.tests.iter().enumerate() {
        match build(t, i, case.tests.len(), case, &dirs) {
            Ok(b) => built.push(b),
            Err(e) => return Checked::inconclusive(format!("payload file: {e}")),
        }
    }
    if strip {
        for b in &built {
            if let Expect::Exact { out, err, merged } = &b.expect {
                let j = |b: &[u8]| strip_judgeable(b, keep) || strip_line_judgeable(b, keep);
                let ok = if combined { j(merged) } else { j(out) && j(err) };
                if !ok {
                    return Checked::out_of_scope("strip_ansi_escaping with bytes the statement says nothing about");
                }
            }
        }
    }
    let tests: Vec<_> = built
        .iter()
        .map(|b| {
            testcase(
                &b.script,
                TestCaseConfig {
                    output_stream: stream_cfg(&case.stream),
                    keep_crlf: case.keep_crlf,
                    strip_ansi_escaping: case.strip,
                    environment: environment.clone(),
                    ..Default::default()
                },
            )
        })
        .collect();
    let result = if cram { run_cram(&tests, &ctx) } else { run_markdown(&tests, &ctx) };
    dirs.remove();
    let mode = case.mode.as_str();
    let outputs: Vec<Output> = match result {
        Ok(o) => o,
        Err(e) => {
            // the single-script executor may refuse documents whose output looks like its
            // own markers or whose commands end the script: nothing is recorded then
            if cram && (has_marker(case) || built.iter().any(|b| b.exits)) {
                return Checked::held().bucket("cram:error-accepted").bucket("near-miss:cram-refused-marker-like-output");
            }
            return Checked::violated(
                format!("C13/{mode}/executor-error/{}{}", error_class(&e), if strip { "[strip]" } else { "" }),
                format!("benign commands, but the executor returned an error: {}", describe_error(&e)),
            );
        }
    };
    let expected_n = case.tests.len();
    if outputs.len() != expected_n {
        return Checked::violated(format!("C13/{mode}/count"), format!("{} outputs for {} tests", outputs.len(), expected_n));
    }
    let mut ran = true;
    for (i, (b, o)) in built.iter().zip(outputs.iter()).enumerate() {
        let got_out: &[u8] = (&o.stdout).into();
        let got_err: &[u8] = (&o.stderr).into();
        if !ran {
            // a test after a command that ended the single script never ran: any recorded
            // result for it is fabricated
            return Checked::violated(
                format!("C13/{mode}/fabricated-result/token:divider"),
                format!("test {i} never ran (an earlier command ended the script) but has stdout [{}] and status {}", show(&got_out[..got_out.len().min(80)]), o.exit_code),
            );
        }
        // the exit code first: a wrong code is the more specific symptom when both differ
        if o.exit_code != ExitStatus::Code(b.code as i32) {
            let cls = match o.exit_code {
                ExitStatus::Code(_) => "other-code",
                ExitStatus::Unknown => "unknown",
                ExitStatus::Detached => "detached",
                ExitStatus::Skipped => "skipped",
                ExitStatus::Timeout(_) => "timeout",
            };
            let forged = if matches!(case.tests[i].cmd, Cmd::Forge { .. }) { "/token:divider" } else { "" };
            return Checked::violated(
                format!("C13/{mode}/exit-code/got:{cls}{forged}"),
                format!("test {i}: command ended with {} but {} was recorded", b.code, o.exit_code),
            );
        }
        match &b.expect {
            Expect::Exact { out, err, merged } => {
                let empty: Vec<u8> = vec![];
                let (ro, re) = if combined { (merged, &empty) } else { (out, err) };
                let (eo, ee) = (transform(ro, keep, strip), transform(re, keep, strip));
                for (name, raw, exp, got, other) in [("stdout", ro, &eo, got_out, &ee), ("stderr", re, &ee, got_err, &eo)] {
                    if strip && !strip_judgeable(raw, keep) {
                        if let Err((cause, why)) = strip_line_check(raw, keep, got) {
                            return Checked::violated(format!("C13/{mode}/{name}/strip-malformed:{cause}"), format!("test {i}: {why}"));
                        }
                        continue;
                    }
                    if exp.as_slice() != got {
                        if cram && strip && transform(raw, keep, false) == got {
                            return Checked::violated(
                                format!("C13/cram/{name}/strip-ignored"),
                                format!("test {i}: strip_ansi_escaping is set but the recorded {name} still contains every escape sequence the command wrote (the single-script executor does not apply the setting)"),
                            );
                        }
                        if other.as_slice() == got && !got.is_empty() {
                            return Checked::violated(
                                format!("C13/{mode}/{name}/is-the-other-stream"),
                                format!("test {i}: recorded {name} is exactly what the command wrote to the other stream (stream={})", case.stream),
                            );
                        }
                        let (p, cause) = diff_cause(raw, exp, got, keep, strip);
                        return Checked::violated(
                            format!("C13/{mode}/{name}/{cause}"),
                            format!(
                                "test {i} ({} of {}), stream={} keep_crlf={:?} strip={:?}: recorded {name} differs from what the command wrote at byte {p} (expected {} bytes, got {}): expected ..[{}] got ..[{}]",
                                i + 1,
                                expected_n,
                                case.stream,
                                case.keep_crlf,
                                case.strip,
                                exp.len(),
                                got.len(),
                                show(&exp[p.saturating_sub(12).min(exp.len())..(p + 40).min(exp.len())]),
                                show(&got[p.saturating_sub(12).min(got.len())..(p + 40).min(got.len())])
                            ),
                        );
                    }
                }
            }
            Expect::Lines { out_lines, err_lines } => {
                let r = if combined {
                    let n_lines = got_out.split(|b| *b == b'\n').filter(|l| !l.is_empty()).count() as u32;
                    check_lines(got_out, b'O', *out_lines, out_line)
                        .and_then(|_| check_lines(got_out, b'E', *err_lines, err_line))
                        .and_then(|_| if n_lines == out_lines + err_lines { Ok(()) } else { Err(format!("{n_lines} lines in the merged stream")) })
                        .and_then(|_| if got_err.is_empty() { Ok(()) } else { Err("stderr not empty".into()) })
                } else {
                    let eo: Vec<u8> = (0..*out_lines).flat_map(|i| format!("{}\n", out_line(i)).into_bytes()).collect();
                    let ee: Vec<u8> = (0..*err_lines).flat_map(|i| format!("{}\n", err_line(i)).into_bytes()).collect();
                    if eo != got_out {
                        Err(format!("stdout: {} bytes expected, {} recorded", eo.len(), got_out.len()))
                    } else if ee != got_err {
                        Err(format!("stderr: {} bytes expected, {} recorded", ee.len(), got_err.len()))
                    } else {
                        Ok(())
                    }
                };
                if let Err(why) = r {
                    return Checked::violated(format!("C13/{mode}/concurrent-writers/{}", if combined { "merged" } else { "separate" }), format!("test {i}: {why}"));
                }
            }
        }
        if b.exits && cram {
            ran = false;
        }
    }
    let mut c = Checked::held();
    if cram && has_marker(case) {
        c = c.bucket("cram:marker-recorded-exactly");
    }
    let has_token = case.tests.iter().any(|t| match &t.cmd {
        Cmd::Literal { text, .. } => TOKENS.iter().any(|(_, tok)| text.contains(tok)),
        _ => false,
    });
    if has_token {
        c = c.bucket("near-miss:placeholder-or-marker-text-unchanged");
    }
    c
}

// ---------------------------------------------------------------- shrinking

fn shrink_payload(p: &Payload) -> Vec<Payload> {
    let mut v = vec![];
    if p.0.is_empty() {
        return v;
    }
    if p.0.len() > 1 {
        for i in 0..p.0.len() {
            let mut q = p.clone();
            q.0.remove(i);
            v.push(q);
        }
    }
    for i in 0..p.0.len() {
        let part = &p.0[i];
        if part.n > 1 {
            for n in [1, part.n / 2, part.n - 1] {
                if n < part.n && n >= 1 {
                    let mut q = p.clone();
                    q.0[i].n = n;
                    v.push(q);
                }
            }
        }
        if part.unit.len() > 1 && part.unit.len() <= 512 {
            let h = part.unit.len() / 2;
            for (a, b) in [(0, h), (h, part.unit.len())] {
                let mut q = p.clone();
                q.0[i].unit = part.unit[a..b].to_vec();
                v.push(q);
            }
            if part.unit.len() <= 16 {
                for j in 0..part.unit.len() {
                    let mut q = p.clone();
                    q.0[i].unit.remove(j);
                    v.push(q);
                }
            }
        }
    }
    v.push(Payload::default());
    v
}

fn shrink_case(case: &Case) -> Vec<Case> {
    let mut v = vec![];
    if case.tests.len() > 1 {
        for i in 0..case.tests.len() {
            let mut c = case.clone();
            c.tests.remove(i);
            v.push(c);
        }
    }
    for i in 0..case.tests.len() {
        let with = |cmd: Cmd| {
            let mut c = case.clone();
            c.tests[i].cmd = cmd;
            c
        };
        match &case.tests[i].cmd {
            Cmd::Chunks { chunks } => {
                if chunks.len() > 1 {
                    for j in 0..chunks.len() {
                        let mut ch = chunks.clone();
                        ch.remove(j);
                        v.push(with(Cmd::Chunks { chunks: ch }));
                    }
                }
                for j in 0..chunks.len() {
                    for p in shrink_payload(&chunks[j].data) {
                        let mut ch = chunks.clone();
                        ch[j].data = p;
                        v.push(with(Cmd::Chunks { chunks: ch }));
                    }
                }
            }
            Cmd::Literal { form, text } => {
                let lines: Vec<&str> = text.split('\n').collect();
                if lines.len() > 1 {
                    for j in 0..lines.len() {
                        let mut l = lines.clone();
                        l.remove(j);
                        v.push(with(Cmd::Literal { form: form.clone(), text: l.join("\n") }));
                    }
                }
                let words: Vec<&str> = text.split(' ').collect();
                if words.len() > 1 {
                    for j in 0..words.len() {
                        let mut w = words.clone();
                        w.remove(j);
                        v.push(with(Cmd::Literal { form: form.clone(), text: w.join(" ") }));
                    }
                }
                if form != "printf" && form != "bare" {
                    v.push(with(Cmd::Literal { form: "printf".into(), text: text.clone() }));
                }
            }
            Cmd::Concurrent { out_lines, err_lines } => {
                if *out_lines > 10 || *err_lines > 10 {
                    v.push(with(Cmd::Concurrent { out_lines: out_lines / 2, err_lines: err_lines / 2 }));
                }
            }
            Cmd::Both { out, err } => {
                for p in shrink_payload(out) {
                    v.push(with(Cmd::Both { out: p, err: err.clone() }));
                }
                for p in shrink_payload(err) {
                    v.push(with(Cmd::Both { out: out.clone(), err: p }));
                }
            }
            Cmd::Status { .. } | Cmd::Forge { .. } | Cmd::Trace { .. } | Cmd::Backslash { .. } => {}
        }
        if case.tests[i].code != 0 {
            let mut c = case.clone();
            c.tests[i].code = 0;
            v.push(c);
        }
        if case.tests[i].ifs.is_some() {
            let mut c = case.clone();
            c.tests[i].ifs = None;
            v.push(c);
        }
        if case.tests[i].pre.is_some() {
            let mut c = case.clone();
            c.tests[i].pre = None;
            v.push(c);
        }
        if case.tests[i].fail_last {
            let mut c = case.clone();
            c.tests[i].fail_last = false;
            v.push(c);
        }
    }
    if case.keep_crlf.is_some() {
        let mut c = case.clone();
        c.keep_crlf = None;
        v.push(c);
    }
    if case.strip.is_some() {
        let mut c = case.clone();
        c.strip = None;
        v.push(c);
    }
    if case.stream != "none" {
        let mut c = case.clone();
        c.stream = "none".into();
        v.push(c);
    }
    v
}

// ---------------------------------------------------------------- monitor

fn sample_of(case: &Case) -> Value {
    let tests: Vec<Value> = case
        .tests
        .iter()
        .map(|t| {
            let cmd = match &t.cmd {
                Cmd::Chunks { chunks } => json!(chunks.iter().map(|c| format!("cat {} >&{}", c.data.describe(), c.fd)).collect::<Vec<_>>()),
                Cmd::Literal { form, text } => json!({ "literal": form, "text": text }),
                Cmd::Status { k } => json!(format!("(exit {k}); echo \"s=$?\"")),
                Cmd::Concurrent { out_lines, err_lines } => json!(format!("{out_lines} lines to fd 1 || {err_lines} lines to fd 2")),
                Cmd::Both { out, err } => json!(format!("cat {} & cat {} >&2 & wait", out.describe(), err.describe())),
                Cmd::Forge { exit_with } => json!(format!("forged divider lines for this and all later tests; exit {exit_with}")),
                Cmd::Backslash { form } => json!({ "last line ends in a backslash": form }),
                Cmd::Trace { flag, on, chunks } => json!({
                    "trace": format!("set {}{flag}", if *on { "-" } else { "+" }),
                    "position": if *on { "last before exit" } else { "first" },
                    "chunks": chunks.iter().map(|c| format!("cat {} >&{}", c.data.describe(), c.fd)).collect::<Vec<_>>()}),
            };
            json!({"ifs": t.ifs, "first_line": t.pre, "cmd": cmd, "exit": if t.fail_last { format!("(exit {})", t.code) } else { format!("exit {}", t.code) }})
        })
        .collect();
    json!({"family": case.family, "mode": case.mode, "output_stream": case.stream, "keep_crlf": case.keep_crlf, "strip_ansi_escaping": case.strip, "tests": tests})
}

impl Monitor for C13 {
    type Case = Case;

    fn id(&self) -> &'static str {
        "C13"
    }

    fn plan(&self, tier: Tier) -> Plan {
        let mut p = Plan::new(
            tier.pick(300, 16000),
            "sequences of 1-6 test commands writing payload files / literals to fd 1 and fd 2 with a chosen exit code, both executors, output_stream x keep_crlf x strip_ansi_escaping; direct calls of replace_crlf and render_output; non-trivial = payload with a transform trigger (CR LF, ESC), a marker/placeholder look-alike or > 64 KiB; distinct = hash of (mode, configuration, payload class set, size bucket)",
        );
        p.chunk = 4;
        p.case_timeout_s = 120;
        p.floor_nontrivial = tier.pick(12, 120);
        let f = |q: u64, t: u64| tier.pick(q, t);
        p.floor_buckets = vec![
            ("mode:markdown".into(), f(12, 300)),
            ("mode:cram".into(), f(8, 200)),
            ("mode:render".into(), f(6, 150)),
            ("mode:crlf".into(), f(2, 50)),
            ("class:crlf".into(), f(10, 250)),
            ("class:esc".into(), f(8, 200)),
            ("class:literal".into(), f(4, 100)),
            ("class:placeholder".into(), f(4, 100)),
            ("class:no-final-nl".into(), f(8, 200)),
            ("class:big".into(), f(1, 30)),
            ("cfg:stream=combined".into(), f(8, 200)),
            ("cfg:keep_crlf=Some(true)".into(), f(8, 200)),
            ("cfg:strip=Some(true)".into(), f(4, 100)),
            ("sequence>1".into(), f(8, 200)),
            ("group:cram-long".into(), f(2, 100)),
            ("group:ifs".into(), f(4, 200)),
            ("group:strip-c0".into(), f(2, 100)),
            ("group:trace".into(), f(2, 100)),
            ("group:errexit".into(), f(3, 150)),
            ("group:crlf-late".into(), f(2, 100)),
            ("group:backslash".into(), f(2, 100)),
            ("group:strip-malformed".into(), f(2, 100)),
            ("group:strip-c1bytes".into(), f(2, 100)),
            ("sequence>10".into(), f(2, 100)),
        ];
        p.assumptions = vec![
            "payloads reach the shell as files (`cat`), so expected bytes need no shell quoting model; literals use single quotes / quoted here-documents".into(),
            "strip_ansi_escaping is judged on valid UTF-8 text without C1 controls in which every ESC starts a well-formed ECMA-48 sequence (CSI, OSC with BEL/ST, nF, two-byte); every other byte, C0 controls included, must survive".into(),
            "cram mode: an executor error on marker-like output or on a command that exits the script is accepted; exit code 80 (skip) is never generated".into(),
            "sizes up to 1 MiB (quick) / 8 MiB (thorough) per stream and 2*10^5 / 10^6 CRLF pairs".into(),
        ];
        p
    }

    fn gen(&self, env: &Env, k: u64, rng: &mut Rng) -> Case {
        gen_case(env.tier, k, rng)
    }

    fn check(&self, env: &Env, case: &Case) -> Checked {
        let c = match case.mode.as_str() {
            "render" | "crlf" => check_direct(case),
            "markdown" | "cram" => check_exec(env, case),
            _ => Checked::out_of_scope("unknown mode"),
        };
        finish(c, case)
    }

    fn shrink(&self, case: &Case) -> Vec<Case> {
        shrink_case(case)
    }

    fn sample(&self, case: &Case) -> Value {
        sample_of(case)
    }

    fn sidecar(&self, env: &Env) -> Vec<SidecarReport> {
        if env.tier != Tier::Thorough {
            return vec![];
        }
        vec![memcheck_sidecar(env)]
    }
}

// ---------------------------------------------------------------- memcheck sidecar (thorough)

/// ~24 documents through the real binary under `valgrind` (children untraced). Only invalid
/// reads / writes / frees are counted (`--undef-value-errors=no`): after one of those in the
/// capture path "the recorded bytes are exactly ..." cannot be trusted.
fn memcheck_sidecar(env: &Env) -> SidecarReport {
    use crate::e2e::Sandbox;
    use crate::e2e::ScrutCmd;
    let mut rep = SidecarReport { label: "memcheck".into(), ..Default::default() };
    if !std::path::Path::new("/usr/bin/valgrind").exists() {
        rep.note = "valgrind not installed: skipped".into();
        return rep;
    }
    let n_docs = 24usize;
    let results: std::sync::Mutex<Vec<(usize, String, Option<i32>, bool, String)>> = std::sync::Mutex::new(vec![]);
    let next = std::sync::atomic::AtomicUsize::new(0);
    std::thread::scope(|sc| {
        for _ in 0..6 {
            sc.spawn(|| loop {
                let i = next.fetch_add(1, std::sync::atomic::Ordering::SeqCst);
                if i >= n_docs {
                    break;
                }
                let mut rng = Rng::new(crate::rng::case_seed(env.seed, "C13-memcheck", i as u64));
                let sb = Sandbox::new(env, &format!("mc{i}"));
                let cram = i % 3 == 2;
                let n_tests = rng.range(1, 4);
                let mut doc = String::new();
                if !cram {
                    doc.push_str("# memcheck document\n\n");
                }
                for t in 0..n_tests {
                    let mut p = gen_payload(&mut rng, false, false, !cram);
                    if t == 0 && i % 4 == 0 {
                        p.push(b"0123456789abcdef0123456789abcdef0123456789abcdef0123456789abcde\r\n", 5000);
                    }
                    let f = sb.write_payload(&format!("p{t}"), &p.bytes());
                    let g = sb.write_payload(&format!("q{t}"), &gen_payload(&mut rng, false, false, !cram).bytes());
                    let cmd = format!("cat {} && cat {} >&2", sq_quote(&f.to_string_lossy()), sq_quote(&g.to_string_lossy()));
                    if cram {
                        doc.push_str(&format!("test {t}:\n  $ {cmd}\n  * (glob*)\n\n"));
                    } else {
                        let cfg = ["", " {output_stream: combined}", " {keep_crlf: true}", " {strip_ansi_escaping: true}"][rng.below(4)];
                        doc.push_str(&format!("## test {t}\n\n```scrut{cfg}\n$ {cmd}\n* (glob*)\n```\n\n"));
                    }
                }
                let name = if cram { "doc.t" } else { "doc.md" };
                sb.write_doc(name, doc.as_bytes());
                let run = ScrutCmd::new(&sb, &["test", name])
                    .wrapper(&["/usr/bin/valgrind", "-q", "--error-exitcode=97", "--undef-value-errors=no", "--trace-children=no", "--child-silent-after-fork=yes"])
                    .watchdog(std::time::Duration::from_secs(240))
                    .run(env);
                run.kill_group();
                let err = run.stderr_str();
                let tail: String = err.lines().filter(|l| l.starts_with("==")).take(12).collect::<Vec<_>>().join(" | ");
                results.lock().unwrap().push((i, doc, run.code, run.watchdog_fired, tail));
            });
        }
    });
    let mut results = results.into_inner().unwrap();
    results.sort_by_key(|r| r.0);
    let mut other = 0;
    for (i, doc, code, fired, tail) in results {
        if fired {
            rep.inconclusive = Some(format!("document {i}: watchdog fired under valgrind"));
            continue;
        }
        match code {
            Some(97) => rep.violations.push((
                "C13/memcheck/invalid-access".into(),
                format!("valgrind reports an invalid access inside scrut: {tail}"),
                json!({ "document": doc }),
            )),
            Some(0) | Some(50) => rep.observed += 1,
            _ => other += 1,
        }
    }
    rep.note = format!("{} documents ran clean under memcheck, {} ended with an unexpected status (not judged)", rep.observed, other);
    if rep.observed < (n_docs as u64) / 2 && rep.inconclusive.is_none() && rep.violations.is_empty() {
        rep.inconclusive = Some(format!("only {} of {n_docs} memcheck runs completed", rep.observed));
    }
    rep
}
