//! C18 — per-document work directory, documented environment, complete clean-up (end to end).
//!
//! Every case runs the real `scrut test` (1 process, or a burst of 8 sharing one TMPDIR) in a sandbox:
//!  * every test command appends `id|$(pwd)|$TMPDIR` to the marker log outside the work directory;
//!  * probe tests print the documented variables; deliberately failing probes are read back from `-r json`;
//!  * the private TMPDIR (and a `--work-directory`) is listed before the run, right after exit and again
//!    after a delay (a command that survived its timeout must not re-create anything).
//! O-1: no test modifies a documented variable or changes directory. With `--work-directory` sharing the
//! directory between documents is the documented behaviour and is not judged.

use std::collections::BTreeMap;
use std::collections::BTreeSet;
use std::path::Path;
use std::path::PathBuf;
use std::time::Duration;

use serde::Deserialize;
use serde::Serialize;
use serde_json::json;
use serde_json::Value;

use crate::core::*;
use crate::e2e::Run;
use crate::e2e::Sandbox;
use crate::e2e::ScrutCmd;
use crate::rng::hash_bytes;
use crate::rng::Rng;

pub struct C18;

#[derive(Clone, Debug, Serialize, Deserialize)]
pub struct T {
    /// probe-fail | probe-pass | touch | sleep | skip | cram-exit | signal | badutf8
    pub kind: String,
    /// inline `{timeout: ..ms}` (Markdown), 0 = none
    #[serde(default)]
    pub timeout_ms: u64,
    #[serde(default)]
    pub sleep_ms: u64,
}

#[derive(Clone, Debug, Serialize, Deserialize)]
pub struct Doc {
    /// path below the document directory (the cwd of scrut)
    pub rel: String,
    /// md | cram
    pub format: String,
    /// front matter body (Markdown), e.g. `total_timeout: 300ms`
    #[serde(default)]
    pub front: String,
    pub tests: Vec<T>,
    /// verbatim content instead of rendered tests (documents that must not parse)
    #[serde(default)]
    pub raw: String,
}

#[derive(Clone, Debug, Serialize, Deserialize)]
pub struct Arg {
    /// index into docs, -1 = literal
    pub doc: i64,
    /// rel | dot | abs | dir | dotdot
    #[serde(default)]
    pub form: String,
    #[serde(default)]
    pub lit: String,
}

#[derive(Clone, Debug, Serialize, Deserialize)]
pub struct Proc {
    pub docs: Vec<Doc>,
    pub args: Vec<Arg>,
    /// further command line arguments, placed after the paths
    #[serde(default)]
    pub extra: Vec<String>,
    /// json | diff ("none" for update / create)
    pub renderer: String,
    /// "" = `scrut test` | "update" = `scrut update --replace --assume-yes <docs>` | "create" = `scrut create --output - -- <command>`
    #[serde(default)]
    pub cmd: String,
}

#[derive(Clone, Debug, Serialize, Deserialize)]
pub struct C18Case {
    pub family: String,
    /// default | keep | workdir
    pub mode: String,
    pub procs: Vec<Proc>,
    /// second look at the directories this long after the last process exited
    pub delay_ms: u64,
    #[serde(default)]
    pub hostile_env: bool,
    /// "" | symlink | bare | missing | nonexec
    #[serde(default)]
    pub shell: String,
    #[serde(default)]
    pub workdir_relative: bool,
    /// name of a sub-directory of the sandbox tmp/ that is the TMPDIR of the scrut process ("" = tmp/ itself)
    #[serde(default)]
    pub tmp_sub: String,
    /// name of the directory given with --work-directory ("" = "W")
    #[serde(default)]
    pub workdir_name: String,
}

/// directory / file names with characters that are special to a shell; none of the variables is set, the
/// command substitutions are harmless, so a wrongly quoted use stays inside the sandbox
const SPECIAL_NAMES: &[&str] = &["price$tag", "bt`echo x`q", "q`uote", "d\"q", "s'q", "b\\s", "a$b c"];

fn path_char_class(name: &str) -> &'static str {
    if name.contains('$') {
        "dollar"
    } else if name.contains('`') {
        "backtick"
    } else if name.contains('"') {
        "dquote"
    } else if name.contains('\'') {
        "squote"
    } else if name.contains('\\') {
        "backslash"
    } else {
        "plain"
    }
}

const FAMILIES: &[&str] = &[
    "pass",
    "fail",
    "multi",
    "test-timeout",
    "hostile-env",
    "doc-timeout-front",
    "skip",
    "doc-timeout-cli",
    "parse-error",
    "burst",
    "late-parse-error",
    "missing-shell",
    "exec-error",
    "cram-exit",
    "signal",
    "renderer",
    "missing-doc",
    "multi",
    "detached-first",
    "env-defaults",
    "closed-streams-timeout",
    "update-changed",
    "update-pass",
    "update-parse-error",
    "create",
];

/// the documented variables a document's `defaults: {environment: ...}` tries to displace (value as YAML)
const DISPLACE: &[(&str, &str)] = &[
    ("TMPDIR", "{ELSEWHERE}"),
    ("TMPDIR", "{ELSEWHERE}"),
    ("TESTDIR", "bogus-testdir"),
    ("TESTFILE", "bogus.md"),
    ("TESTSHELL", "/bin/false"),
    ("LANG", "de_DE.UTF-8"),
    ("LANGUAGE", "de"),
    ("LC_ALL", "de_DE.UTF-8"),
    ("TZ", "Europe/Berlin"),
    ("COLUMNS", "\"213\""),
    ("CDPATH", "/tmp:/usr"),
    ("GREP_OPTIONS", "\"-v\""),
    ("SCRUT_TEST", "\"bogus.md:1\""),
];

const HOSTILE: &[(&str, &str)] = &[
    ("TESTDIR", "/bogus/testdir"),
    ("TESTFILE", "bogus.md"),
    ("TESTSHELL", "/bin/false"),
    ("SHELL", "/bin/false"),
    ("LANG", "de_DE.UTF-8"),
    ("LANGUAGE", "de"),
    ("LC_ALL", "de_DE.UTF-8"),
    ("TZ", "Europe/Berlin"),
    ("COLUMNS", "213"),
    ("CDPATH", "/tmp:/usr"),
    ("GREP_OPTIONS", "-v"),
    ("SCRUT_TEST", "bogus.md:1"),
];

fn t(kind: &str) -> T {
    T {
        kind: kind.into(),
        timeout_ms: 0,
        sleep_ms: 0,
    }
}

fn basic_tests(rng: &mut Rng, n: usize, allow_fail: bool, force_fail: bool) -> Vec<T> {
    let mut v: Vec<T> = (0..n)
        .map(|_| {
            let k = if allow_fail { rng.weighted(&[4, 3, 3]) } else { 1 + rng.weighted(&[3, 3]) };
            t(["probe-fail", "probe-pass", "touch"][k])
        })
        .collect();
    if force_fail {
        // the documented variables are read from the first and the last test
        v[0] = t("probe-fail");
        let l = v.len() - 1;
        v[l] = t("probe-fail");
    }
    v
}

/// a `{detached: true}` first test case, followed by a short sleeper that gives the detached shell time to finish
/// while the document is still being run
fn prepend_detached(tests: &mut Vec<T>) {
    let mut s = t("sleep");
    s.sleep_ms = 300;
    tests.insert(0, s);
    tests.insert(0, t("detached"));
}

fn fmt_of(rng: &mut Rng) -> String {
    if rng.chance(3, 5) { "md" } else { "cram" }.to_string()
}

fn ext(format: &str) -> &'static str {
    if format == "cram" {
        "t"
    } else {
        "md"
    }
}

const DIRS: &[&str] = &["", "a", "b", "my dir", "deep/er", "d\u{e9}", "price$tag", "bt`echo x`q", "q`uote", "d\"q", "s'q", "b\\s", "deep/a$b c"];
const NAMES: &[&str] = &["same", "same", "x", "test doc", "t-1", "n$ame", "f`echo y`z", "q\"t", "it's", "back\\slash"];

fn doc_at(rng: &mut Rng, dir: &str, name: &str, format: &str, tests: Vec<T>) -> Doc {
    let _ = rng;
    let file = format!("{name}.{}", ext(format));
    Doc {
        rel: if dir.is_empty() { file } else { format!("{dir}/{file}") },
        format: format.into(),
        front: String::new(),
        tests,
        raw: String::new(),
    }
}

fn arg(doc: usize, form: &str) -> Arg {
    Arg {
        doc: doc as i64,
        form: form.into(),
        lit: String::new(),
    }
}

fn lit(s: &str) -> Arg {
    Arg {
        doc: -1,
        form: String::new(),
        lit: s.into(),
    }
}

fn rand_form(rng: &mut Rng, rel: &str) -> &'static str {
    let in_sub = rel.contains('/');
    match rng.weighted(&[4, 2, 2, 1]) {
        0 => "rel",
        1 => "dot",
        2 => "abs",
        _ if in_sub => "dotdot",
        _ => "rel",
    }
}

fn json_proc(docs: Vec<Doc>, args: Vec<Arg>) -> Proc {
    Proc {
        docs,
        args,
        extra: vec![],
        renderer: "json".into(),
        cmd: String::new(),
    }
}

fn gen(k: u64, rng: &mut Rng, thorough: bool) -> C18Case {
    let family = FAMILIES[(k % FAMILIES.len() as u64) as usize];
    let mut case = C18Case {
        family: family.into(),
        mode: ["default", "keep", "workdir"][rng.weighted(&[3, 1, 1])].into(),
        procs: vec![],
        delay_ms: if rng.chance(1, 4) { 300 } else { 0 },
        hostile_env: false,
        shell: String::new(),
        workdir_relative: rng.bool(),
        tmp_sub: String::new(),
        workdir_name: String::new(),
    };
    if rng.chance(1, 3) {
        case.tmp_sub = (*rng.pick(SPECIAL_NAMES)).to_string();
    }
    if rng.chance(1, 2) {
        case.workdir_name = (*rng.pick(SPECIAL_NAMES)).to_string();
    }
    let sleep_delay = if thorough { 3000 } else { 2000 };
    // one plain document with a random location and name
    let plain = |rng: &mut Rng, fail: bool| -> Doc {
        let f = fmt_of(rng);
        let n = 1 + rng.below(4);
        let mut tests = basic_tests(rng, n, fail, fail);
        if f == "md" && rng.chance(1, 5) {
            prepend_detached(&mut tests);
        }
        let dir = *rng.pick(DIRS);
        let name = *rng.pick(NAMES);
        doc_at(rng, dir, name, &f, tests)
    };
    match family {
        "pass" | "fail" | "hostile-env" => {
            let fail = family != "pass";
            let mut docs = vec![plain(rng, fail)];
            if rng.bool() {
                let mut d = plain(rng, fail);
                if d.rel == docs[0].rel {
                    d.rel = format!("other/{}", d.rel);
                }
                docs.push(d);
            }
            let args = docs.iter().enumerate().map(|(i, d)| arg(i, rand_form(rng, &d.rel))).collect();
            case.procs.push(json_proc(docs, args));
            case.hostile_env = family == "hostile-env";
            case.shell = ["", "", "symlink", "bare"][rng.below(4)].into();
        }
        "multi" => {
            // identical file names in different directories, one path given twice, one directory argument
            let mut docs = vec![];
            let mut args = vec![];
            let dirs = ["a", "b", "my dir", "deep/er"];
            let n = 3 + rng.below(3);
            for i in 0..n {
                let f = if i == 0 { "md".to_string() } else { fmt_of(rng) };
                let nt = 2 + rng.below(2);
                let tests = basic_tests(rng, nt, true, true);
                docs.push(doc_at(rng, dirs[i % dirs.len()], if i < 4 { "same" } else { "same2" }, &f, tests));
            }
            for (i, d) in docs.iter().enumerate() {
                args.push(arg(i, rand_form(rng, &d.rel)));
            }
            let twice = rng.below(n);
            args.push(arg(twice, rand_form(rng, &docs[twice].rel)));
            if rng.bool() {
                args.push(arg(rng.below(n), "dir"));
            }
            case.procs.push(json_proc(docs, args));
        }
        "test-timeout" | "doc-timeout-front" | "doc-timeout-cli" => {
            let mut docs = vec![];
            if rng.chance(1, 3) {
                docs.push(plain(rng, true));
            }
            let f = if family == "doc-timeout-cli" { fmt_of(rng) } else { "md".to_string() };
            let n = 1 + rng.below(3);
            let mut tests = basic_tests(rng, n, true, false);
            let mut s = t("sleep");
            if family == "test-timeout" {
                s.timeout_ms = 300;
                s.sleep_ms = 1200;
            } else if family == "doc-timeout-front" {
                s.sleep_ms = 1200;
            } else {
                s.sleep_ms = 2000;
            }
            let pos = rng.below(tests.len() + 1);
            tests.insert(pos, s);
            // something that a surviving script would do afterwards
            tests.push(t("touch"));
            let mut d = doc_at(rng, "slow", "sleeper", &f, tests);
            if family == "doc-timeout-front" {
                d.front = "total_timeout: 300ms".into();
            }
            docs.push(d);
            let args = docs.iter().enumerate().map(|(i, d)| arg(i, rand_form(rng, &d.rel))).collect();
            let mut p = json_proc(docs, args);
            if family == "doc-timeout-cli" {
                p.extra = vec!["--timeout-seconds".into(), "1".into()];
            }
            case.procs.push(p);
            case.delay_ms = sleep_delay;
        }
        "skip" | "cram-exit" | "signal" => {
            let f = match family {
                "cram-exit" => "cram".to_string(),
                _ => fmt_of(rng),
            };
            let n = 1 + rng.below(3);
            let mut tests = basic_tests(rng, n, true, false);
            let pos = rng.below(tests.len() + 1);
            tests.insert(pos, t(family));
            let mut docs = vec![];
            if rng.bool() {
                docs.push(plain(rng, true));
            }
            docs.push(doc_at(rng, "s", "special", &f, tests));
            if rng.bool() && family == "skip" {
                docs.push(plain(rng, true));
            }
            let mut seen = BTreeSet::new();
            docs.retain(|d| seen.insert(d.rel.clone()));
            let args = docs.iter().enumerate().map(|(i, d)| arg(i, rand_form(rng, &d.rel))).collect();
            case.procs.push(json_proc(docs, args));
        }
        "parse-error" | "late-parse-error" => {
            let good = plain(rng, true);
            let bad = Doc {
                rel: "bad/broken.md".into(),
                format: "md".into(),
                front: String::new(),
                tests: vec![],
                raw: "# broken\n\n```scrut\nan expectation without any command\n```\n".into(),
            };
            let docs = vec![good, bad];
            let mut p;
            if family == "parse-error" {
                let mut args = vec![arg(0, "rel"), arg(1, "rel")];
                if rng.bool() {
                    args.reverse();
                }
                p = json_proc(docs, args);
            } else {
                p = json_proc(docs, vec![arg(0, "rel")]);
                p.extra = vec![if rng.bool() { "-P" } else { "-A" }.into(), "bad/broken.md".into()];
            }
            case.procs.push(p);
        }
        "missing-shell" | "exec-error" => {
            let mut docs = vec![plain(rng, true)];
            if rng.bool() {
                let mut d = plain(rng, false);
                if d.rel == docs[0].rel {
                    d.rel = format!("other/{}", d.rel);
                }
                docs.push(d);
            }
            let args = docs.iter().enumerate().map(|(i, d)| arg(i, rand_form(rng, &d.rel))).collect();
            case.procs.push(json_proc(docs, args));
            case.shell = if family == "missing-shell" { "missing" } else { "nonexec" }.into();
        }
        "detached-first" | "env-defaults" => {
            let mut docs = vec![];
            for i in 0..1 + rng.below(2) {
                let n = 2 + rng.below(3);
                let mut tests = basic_tests(rng, n, true, true);
                let mut front = String::new();
                if family == "detached-first" {
                    prepend_detached(&mut tests);
                } else {
                    front.push_str("defaults:\n  environment:\n");
                    let mut seen = BTreeSet::new();
                    for _ in 0..1 + rng.below(4) {
                        let (k, v) = *rng.pick(DISPLACE);
                        if seen.insert(k) {
                            front.push_str(&format!("    {k}: {v}\n"));
                        }
                    }
                    front.push_str("    VH_OWN_VARIABLE: kept");
                }
                let dir = *rng.pick(DIRS);
                let mut d = doc_at(rng, dir, &format!("doc{i}"), "md", tests);
                d.front = front;
                docs.push(d);
            }
            let args = docs.iter().enumerate().map(|(i, d)| arg(i, rand_form(rng, &d.rel))).collect();
            case.procs.push(json_proc(docs, args));
            if family == "detached-first" {
                case.delay_ms = 300;
            }
        }
        "closed-streams-timeout" => {
            // a non-detached Markdown test case that closes its streams and outlives its time limit; with a second
            // document that keeps scrut busy until the shell has ended, or without (then the late look decides)
            let n = rng.below(3);
            let mut tests = if n == 0 { vec![] } else { basic_tests(rng, n, true, false) };
            let mut c = t("close-sleep");
            c.timeout_ms = 1000;
            c.sleep_ms = 2000;
            let pos = rng.below(tests.len() + 1);
            tests.insert(pos, c);
            let mut docs = vec![doc_at(rng, "cs", "closer", "md", tests)];
            if rng.bool() {
                let f = fmt_of(rng);
                let mut busy = t("sleep");
                busy.sleep_ms = 1600;
                let mut tests = vec![busy];
                tests.extend(basic_tests(rng, 1, true, false));
                docs.push(doc_at(rng, "cs", "busy", &f, tests));
            }
            let args = docs.iter().enumerate().map(|(i, d)| arg(i, rand_form(rng, &d.rel))).collect();
            case.procs.push(json_proc(docs, args));
            case.delay_ms = sleep_delay;
        }
        "update-changed" | "update-pass" | "update-parse-error" => {
            // `scrut update` on copies inside the sandbox: a document with one changed and one passing test case,
            // an all-passing one, one that does not parse
            let mut docs = vec![];
            for i in 0..1 + rng.below(2) {
                let f = fmt_of(rng);
                let mut tests = vec![t(if rng.bool() { "probe-pass" } else { "touch" })];
                if family != "update-pass" {
                    tests.insert(rng.below(2), t("probe-fail"));
                }
                let dir = *rng.pick(DIRS);
                docs.push(doc_at(rng, dir, &format!("upd{i}"), &f, tests));
            }
            if family == "update-parse-error" {
                docs.push(Doc {
                    rel: "bad/broken.md".into(),
                    format: "md".into(),
                    front: String::new(),
                    tests: vec![],
                    raw: "# broken\n\n```scrut\nan expectation without any command\n```\n".into(),
                });
            }
            let mut args: Vec<Arg> = docs.iter().enumerate().map(|(i, d)| arg(i, rand_form(rng, &d.rel))).collect();
            if family == "update-parse-error" && rng.bool() {
                args.reverse();
            }
            let mut p = json_proc(docs, args);
            p.cmd = "update".into();
            p.renderer = "none".into();
            case.procs.push(p);
        }
        "create" => {
            // the document only names the test case whose command `scrut create` runs
            let d = doc_at(rng, "", "created", "md", vec![t("create")]);
            let mut p = json_proc(vec![d], vec![]);
            p.cmd = "create".into();
            p.renderer = "none".into();
            case.procs.push(p);
        }
        "renderer" => {
            let nt = 1 + rng.below(2);
            let mut tests = basic_tests(rng, nt, false, false);
            tests.insert(rng.below(tests.len() + 1), t("badutf8"));
            let d = doc_at(rng, "r", "render", "md", tests);
            let mut p = json_proc(vec![d], vec![arg(0, "rel")]);
            p.renderer = "diff".into();
            case.procs.push(p);
        }
        "missing-doc" => {
            let d = plain(rng, true);
            let mut args = vec![arg(0, "rel"), lit("no/such/document.md")];
            if rng.bool() {
                args.reverse();
            }
            case.procs.push(json_proc(vec![d], args));
        }
        _ => {
            // burst: 8 processes at once on one TMPDIR, the same file name everywhere
            if case.mode == "workdir" {
                case.mode = "default".into();
            }
            for p in 0..8 {
                let mut docs = vec![];
                for d in 0..1 + rng.below(2) {
                    let f = fmt_of(rng);
                    let mut tests = vec![t("sleep")];
                    tests[0].sleep_ms = 150;
                    let nt = 1 + rng.below(2);
                    tests.extend(basic_tests(rng, nt, true, false));
                    docs.push(doc_at(rng, &format!("p{p}/d{d}"), "same", &f, tests));
                }
                let args = docs.iter().enumerate().map(|(i, d)| arg(i, rand_form(rng, &d.rel))).collect();
                case.procs.push(json_proc(docs, args));
            }
            case.delay_ms = 300;
        }
    }
    case
}

fn probe_cmd(id: &str) -> String {
    format!(
        "printf '%s\\n' \"ID={id}\" \"PWD=$(pwd)\" \"TESTDIR=$TESTDIR\" \"TESTFILE=$TESTFILE\" \"TESTSHELL=$TESTSHELL\" \"SHELL=$SHELL\" \"TMPDIR=$TMPDIR\" \"TMPDIR_ISDIR=$(test -d \"$TMPDIR\" && echo y || echo n)\" \"LANG=$LANG\" \"LANGUAGE=$LANGUAGE\" \"LC_ALL=$LC_ALL\" \"TZ=$TZ\" \"COLUMNS=$COLUMNS\" \"CDPATH=${{CDPATH-unset}}\" \"GREP_OPTIONS=${{GREP_OPTIONS-unset}}\" \"SCRUT_TEST=${{SCRUT_TEST-unset}}\""
    )
}

fn test_cmd(sb: &Sandbox, id: &str, t: &T, cram: bool) -> (String, Vec<String>) {
    let mark = format!("echo \"{id}|$(pwd)|$TMPDIR\" >> {}", sb.log.display());
    let any = vec!["* (glob*)".to_string()];
    match t.kind.as_str() {
        "probe-fail" => (format!("{mark}; {}", probe_cmd(id)), vec![]),
        "probe-pass" => (format!("{mark}; {}", probe_cmd(id)), any),
        "touch" => (
            format!("{mark}; echo x > made-{id}; mkdir -p \"$TMPDIR/tmp-{id}/sub\"; echo y > \"$TMPDIR/tmp-{id}/sub/f\"; mktemp -d > /dev/null"),
            any,
        ),
        "sleep" => (format!("{mark}; sleep {}.{:03}", t.sleep_ms / 1000, t.sleep_ms % 1000), any),
        "skip" => (format!("{mark}; {}", if cram { "(exit 80)" } else { "exit 80" }), any),
        "cram-exit" => (format!("{mark}; exit 3"), any),
        "signal" => (format!("{mark}; kill -9 $$"), any),
        "badutf8" => (format!("{mark}; printf 'a\\377b\\n'"), vec!["zz".to_string()]),
        "close-sleep" => (format!("{mark}; exec >/dev/null 2>&1; sleep {}.{:03}", t.sleep_ms / 1000, t.sleep_ms % 1000), any),
        // no expectations: the output of a detached test case is not looked at
        "detached" => (format!("{mark}; echo x > made-{id}"), vec![]),
        _ => (mark, any),
    }
}

struct RenderedDoc {
    text: String,
    /// Markdown: first and last line (1-based) of the code block of test t
    blocks: Vec<(usize, usize)>,
}

fn render(sb: &Sandbox, p: usize, d: usize, doc: &Doc) -> RenderedDoc {
    if !doc.raw.is_empty() {
        return RenderedDoc {
            text: doc.raw.clone(),
            blocks: vec![],
        };
    }
    let mut lines: Vec<String> = vec![];
    let mut blocks = vec![];
    let cram = doc.format == "cram";
    if !cram {
        if !doc.front.is_empty() {
            lines.push("---".into());
            let elsewhere = sb.root.join("elsewhere").display().to_string();
            lines.extend(doc.front.lines().map(|l| l.replace("{ELSEWHERE}", &elsewhere)));
            lines.push("---".into());
            lines.push(String::new());
        }
        lines.push("# document".to_string());
        lines.push(String::new());
    }
    for (ti, t) in doc.tests.iter().enumerate() {
        let id = format!("p{p}d{d}t{ti}");
        let (cmd, exps) = test_cmd(sb, &id, t, cram);
        if cram {
            lines.push(format!("t-{id}"));
            lines.push(format!("  $ {cmd}"));
            for e in exps {
                lines.push(format!("  {e}"));
            }
            lines.push(String::new());
            blocks.push((0, 0));
        } else {
            lines.push(format!("t-{id}"));
            lines.push(String::new());
            let cfg = if t.kind == "detached" {
                " {detached: true}".to_string()
            } else if t.timeout_ms > 0 {
                format!(" {{timeout: {}ms}}", t.timeout_ms)
            } else {
                String::new()
            };
            lines.push(format!("```scrut{cfg}"));
            let open = lines.len();
            lines.push(format!("$ {cmd}"));
            lines.extend(exps);
            lines.push("```".into());
            blocks.push((open, lines.len()));
            lines.push(String::new());
        }
    }
    RenderedDoc {
        text: lines.join("\n") + "\n",
        blocks,
    }
}

fn sample(case: &C18Case) -> Value {
    let procs: Vec<Value> = case
        .procs
        .iter()
        .map(|p| {
            json!({
                "documents": p.docs.iter().map(|d| json!({"path": d.rel, "front": d.front, "raw": d.raw,
                    "tests": d.tests.iter().map(|t| if t.timeout_ms > 0 || t.sleep_ms > 0 { format!("{}(timeout={}ms,sleep={}ms)", t.kind, t.timeout_ms, t.sleep_ms) } else { t.kind.clone() }).collect::<Vec<_>>()})).collect::<Vec<_>>(),
                "args": p.args.iter().map(|a| if a.doc < 0 { a.lit.clone() } else { format!("{}:{}", a.form, p.docs.get(a.doc as usize).map(|d| d.rel.as_str()).unwrap_or("?")) }).collect::<Vec<_>>(),
                "extra": p.extra, "renderer": p.renderer, "command": if p.cmd.is_empty() { "test" } else { p.cmd.as_str() },
            })
        })
        .collect();
    json!({"family": case.family, "mode": case.mode, "shell": case.shell, "hostile_env": case.hostile_env,
           "delay_ms": case.delay_ms, "tmpdir_sub": case.tmp_sub, "workdir_name": case.workdir_name, "processes": procs})
}

fn canon(p: &Path) -> Option<PathBuf> {
    std::fs::canonicalize(p).ok()
}

/// `execution.Ab12` -> `execution`, `temp.x` -> `temp`, anything else -> `other`
fn leftover_kinds(paths: &[String]) -> String {
    let mut kinds = BTreeSet::new();
    for p in paths {
        let top = p.split('/').next().unwrap_or("");
        let k = if top.starts_with("execution.") {
            "execution"
        } else if top.starts_with("temp.") {
            "temp"
        } else {
            "other"
        };
        kinds.insert(k);
    }
    kinds.into_iter().collect::<Vec<_>>().join("+")
}

fn class_of(family: &str) -> &str {
    match family {
        "test-timeout" | "doc-timeout-front" | "doc-timeout-cli" => "timeout",
        "pass" | "fail" | "multi" | "hostile-env" => "normal",
        f => f,
    }
}

#[derive(Clone, Debug)]
struct Rec {
    p: usize,
    d: usize,
    t: usize,
    pwd: String,
    tmpdir: String,
}

fn parse_id(id: &str) -> Option<(usize, usize, usize)> {
    let rest = id.strip_prefix('p')?;
    let (p, rest) = rest.split_once('d')?;
    let (d, t) = rest.split_once('t')?;
    Some((p.parse().ok()?, d.parse().ok()?, t.parse().ok()?))
}

fn work_listing(w: &Path) -> Vec<String> {
    let mut v: Vec<String> = std::fs::read_dir(w)
        .map(|d| d.filter_map(|e| e.ok()).map(|e| e.file_name().to_string_lossy().to_string()).collect())
        .unwrap_or_default();
    v.sort();
    v
}

/// everything below tmp/ split into (inside the TMPDIR given to scrut, beside it); `sub` itself is expected
fn split_tree(sb: &Sandbox, sub: &str) -> (Vec<String>, Vec<String>) {
    let all = sb.tmp_tree();
    if sub.is_empty() {
        return (all, vec![]);
    }
    let prefix = format!("{sub}/");
    let mut inside = vec![];
    let mut beside = vec![];
    for p in all {
        if p == sub {
            continue;
        }
        match p.strip_prefix(&prefix) {
            Some(r) => inside.push(r.to_string()),
            None => beside.push(p),
        }
    }
    (inside, beside)
}

/// entries (recursively) of `parent` that are not `name` or below it
fn beside(parent: &Path, name: &str) -> Vec<String> {
    fn walk(base: &Path, dir: &Path, out: &mut Vec<String>) {
        if let Ok(rd) = std::fs::read_dir(dir) {
            for e in rd.filter_map(|e| e.ok()) {
                let p = e.path();
                out.push(p.strip_prefix(base).unwrap_or(&p).display().to_string());
                if p.is_dir() && !p.is_symlink() {
                    walk(base, &p, out);
                }
            }
        }
    }
    let mut all = vec![];
    walk(parent, parent, &mut all);
    let prefix = format!("{name}/");
    let mut v: Vec<String> = all.into_iter().filter(|p| p != name && !p.starts_with(&prefix)).collect();
    v.sort();
    v
}

/// what kind of scrut directory shows up anywhere in the misplaced paths
fn misplaced_kind(paths: &[String]) -> String {
    let mut kinds = BTreeSet::new();
    for p in paths {
        for c in p.split('/') {
            if c.starts_with("execution.") {
                kinds.insert("execution");
            } else if c.starts_with("temp.") {
                kinds.insert("temp");
            } else if c.starts_with(".state.") {
                kinds.insert("state");
            }
        }
    }
    if kinds.is_empty() {
        kinds.insert("other");
    }
    kinds.into_iter().collect::<Vec<_>>().join("+")
}

fn is_detached(case: &C18Case, r: &Rec) -> bool {
    case.procs
        .get(r.p)
        .and_then(|p| p.docs.get(r.d))
        .and_then(|d| d.tests.get(r.t))
        .is_some_and(|t| t.kind == "detached")
}

fn check(env: &Env, case: &C18Case) -> Checked {
    // context buckets are attached to every verdict (also to violations) so that the coverage floors
    // do not depend on whether a class currently violates
    let mut pre: Vec<String> = vec![];
    let mut c = check_inner(env, case, &mut pre);
    pre.append(&mut c.buckets);
    c.buckets = pre;
    c
}

fn check_inner(env: &Env, case: &C18Case, pre: &mut Vec<String>) -> Checked {
    if case.procs.is_empty() || case.procs.iter().any(|p| p.docs.is_empty()) {
        return Checked::out_of_scope("nothing to run");
    }
    let sb = Sandbox::new(env, "c18");
    let mode = case.mode.as_str();
    let class = class_of(&case.family);
    let detail = |what: &str| format!("{what}: {:?}", sample(case));

    // documents
    let mut rendered: Vec<Vec<RenderedDoc>> = vec![];
    for (pi, p) in case.procs.iter().enumerate() {
        let mut v = vec![];
        for (di, d) in p.docs.iter().enumerate() {
            let r = render(&sb, pi, di, d);
            sb.write_doc(&d.rel, r.text.as_bytes());
            v.push(r);
        }
        rendered.push(v);
    }
    // shell variants
    let bin = sb.root.join("bin");
    let _ = std::fs::create_dir_all(&bin);
    let shell_arg: Option<String> = match case.shell.as_str() {
        "symlink" => {
            let l = bin.join("mybash");
            let _ = std::os::unix::fs::symlink("/bin/bash", &l);
            Some(l.display().to_string())
        }
        "bare" => Some("bash".into()),
        "missing" => Some("/nonexistent-vh/bash".into()),
        "nonexec" => {
            let f = bin.join("notexec");
            let _ = std::fs::write(&f, "#!/bin/bash\n");
            Some(f.display().to_string())
        }
        _ => None,
    };
    // --work-directory
    let wd_parent = sb.root.join("wd");
    let wname = if case.workdir_name.is_empty() { "W" } else { case.workdir_name.as_str() };
    let wdir = wd_parent.join(wname);
    if mode == "workdir" {
        let _ = std::fs::create_dir_all(&wdir);
        let _ = std::fs::write(wdir.join("sentinel"), "kept\n");
    }
    // the TMPDIR of the scrut process: tmp/ itself or a sub-directory with a hostile name
    let tmp_dir = if case.tmp_sub.is_empty() { sb.tmp.clone() } else { sb.tmp.join(&case.tmp_sub) };
    let _ = std::fs::create_dir_all(&tmp_dir);
    let Some(tmp_canon) = canon(&tmp_dir) else {
        return Checked::inconclusive("cannot canonicalize the sandbox TMPDIR");
    };
    {
        let (inside, misplaced) = split_tree(&sb, &case.tmp_sub);
        if !inside.is_empty() || !misplaced.is_empty() {
            return Checked::inconclusive("sandbox TMPDIR not empty before the run");
        }
    }
    let tmp_dir_str = tmp_dir.display().to_string();
    // the directory scrut is called from must look the same afterwards; the directory a document's
    // `defaults: {environment: {TMPDIR: ..}}` points to must stay empty
    let docs_before = beside(&sb.docs, "\u{0}");
    let elsewhere = sb.root.join("elsewhere");
    let _ = std::fs::create_dir_all(&elsewhere);

    // run
    let build = |p: &Proc| -> ScrutCmd {
        let head: Vec<&str> = match p.cmd.as_str() {
            "update" => vec!["update", "--no-color", "--replace", "--assume-yes"],
            "create" => vec!["create", "--no-color", "--output", "-"],
            _ => vec!["test", "--no-color", "-r", p.renderer.as_str()],
        };
        let mut c = ScrutCmd::new(&sb, &head).env("TMPDIR", &tmp_dir_str);
        for a in &p.args {
            let s = if a.doc < 0 {
                a.lit.clone()
            } else {
                let rel = &p.docs[a.doc as usize].rel;
                match a.form.as_str() {
                    "dot" => format!("./{rel}"),
                    "abs" => sb.docs.join(rel).display().to_string(),
                    "dir" => match rel.rsplit_once('/') {
                        Some((dir, _)) => dir.to_string(),
                        None => rel.clone(),
                    },
                    "dotdot" => match rel.split_once('/') {
                        Some((first, rest)) => format!("{first}/../{first}/{rest}"),
                        None => rel.clone(),
                    },
                    _ => rel.clone(),
                }
            };
            c = c.arg(s);
        }
        for e in &p.extra {
            c = c.arg(e.clone());
        }
        if let Some(s) = &shell_arg {
            c = c.arg("--shell").arg(s.clone());
        }
        match mode {
            "keep" => c = c.arg("--keep-temporary-directories"),
            "workdir" => {
                c = c.arg("--work-directory").arg(if case.workdir_relative { format!("../wd/{wname}") } else { wdir.display().to_string() })
            }
            _ => {}
        }
        if case.hostile_env {
            for (k, v) in HOSTILE {
                c = c.env(k, v);
            }
        }
        if p.cmd == "create" {
            // the command reports its directory like every test command
            c = c.arg("--").arg(format!("echo \"p0d0t0|$(pwd)|$TMPDIR\" >> {}; echo x", sb.log.display()));
        }
        c
    };
    let runs: Vec<Run> = if case.procs.len() == 1 {
        vec![build(&case.procs[0]).run(env)]
    } else {
        std::thread::scope(|s| {
            let hs: Vec<_> = case
                .procs
                .iter()
                .map(|p| {
                    let c = build(p);
                    s.spawn(move || c.run(env))
                })
                .collect();
            hs.into_iter()
                .map(|h| {
                    h.join().unwrap_or(Run {
                        code: None,
                        signal: None,
                        stdout: vec![],
                        stderr: b"thread failed".to_vec(),
                        wall: Duration::ZERO,
                        watchdog_fired: true,
                        pgid: 0,
                    })
                })
                .collect()
        })
    };

    // observations right after exit
    let (tree0, mis0) = split_tree(&sb, &case.tmp_sub);
    let docs0 = beside(&sb.docs, "\u{0}");
    let else0 = beside(&elsewhere, "\u{0}");
    let w0 = work_listing(&wdir);
    let wmis0 = beside(&wd_parent, wname);
    let markers = sb.markers();
    let trace = sb.trace_events();
    let kill_all = |runs: &[Run]| {
        for r in runs {
            r.kill_group();
        }
    };
    if runs.iter().any(|r| r.watchdog_fired) {
        kill_all(&runs);
        return Checked::inconclusive("watchdog fired while running scrut");
    }
    let mut recs: Vec<Rec> = vec![];
    for m in &markers {
        let mut it = m.splitn(3, '|');
        let (Some(id), Some(pwd), Some(tmpdir)) = (it.next(), it.next(), it.next()) else {
            continue;
        };
        if let Some((p, d, t)) = parse_id(id) {
            recs.push(Rec {
                p,
                d,
                t,
                pwd: pwd.to_string(),
                tmpdir: tmpdir.to_string(),
            });
        }
    }
    // which observed directories exist now
    let obs_dirs: BTreeSet<String> = recs.iter().flat_map(|r| [r.pwd.clone(), r.tmpdir.clone()]).filter(|s| !s.is_empty()).collect();
    let existing0: Vec<String> = obs_dirs.iter().filter(|d| Path::new(d).exists()).cloned().collect();

    // second look
    if case.delay_ms > 0 {
        std::thread::sleep(Duration::from_millis(case.delay_ms));
    }
    let (tree1, mis1) = split_tree(&sb, &case.tmp_sub);
    let docs1 = beside(&sb.docs, "\u{0}");
    let else1 = beside(&elsewhere, "\u{0}");
    let w1 = work_listing(&wdir);
    let wmis1 = beside(&wd_parent, wname);
    let existing1: Vec<String> = obs_dirs.iter().filter(|d| Path::new(d).exists()).cloned().collect();
    kill_all(&runs);

    let mut ck = Checked::held();
    pre.push(format!("class:{}", case.family));
    pre.push(format!("mode:{mode}"));
    pre.push(format!("procs:{}", case.procs.len()));
    for r in &runs {
        pre.push(format!("exit:{}", r.code.map(|c| c.to_string()).unwrap_or_else(|| "signal".into())));
    }
    let n_new = trace.iter().filter(|e| e["kind"] == json!("env_new")).count();
    let n_drop = trace.iter().filter(|e| e["kind"] == json!("env_drop")).count();
    if n_new > 0 {
        pre.push(if n_new == n_drop { "trace:env_new=env_drop" } else { "trace:env_new!=env_drop" }.to_string());
    }
    if class == "timeout" {
        let timed_out = runs.iter().any(|r| r.json().map(|o| o.iter().any(|x| crate::e2e::result_kind(x) == "timeout")).unwrap_or(false));
        pre.push(if timed_out { "timeout:reported" } else { "timeout:not-reported" }.to_string());
    }
    if !recs.is_empty() {
        pre.push("observed:tests-ran".to_string());
    }
    pre.push(format!("path:tmpdir={}", path_char_class(&case.tmp_sub)));
    if mode == "workdir" {
        pre.push(format!("path:workdir={}", path_char_class(&case.workdir_name)));
    }
    {
        let classes: BTreeSet<String> = case
            .procs
            .iter()
            .flat_map(|p| p.docs.iter().filter(|d| d.raw.is_empty()).map(|d| format!("path:doc={}:{}", path_char_class(&d.rel), d.format)))
            .collect();
        pre.extend(classes);
    }

    // ---- (1) work directories -------------------------------------------------------------------
    // executions: per process, per document, a new one starts when the test index does not increase
    let mut execs: Vec<(usize, usize, Vec<&Rec>)> = vec![];
    {
        let mut open: BTreeMap<(usize, usize), usize> = BTreeMap::new();
        for r in &recs {
            if is_detached(case, r) {
                // written asynchronously: judged against the document's executions below
                continue;
            }
            let key = (r.p, r.d);
            let start_new = match open.get(&key) {
                Some(&i) => execs[i].2.last().is_some_and(|l| r.t <= l.t),
                None => true,
            };
            if start_new {
                execs.push((r.p, r.d, vec![r]));
                open.insert(key, execs.len() - 1);
            } else {
                let i = open[&key];
                execs[i].2.push(r);
            }
        }
    }
    for (p, d, rs) in &execs {
        let fmt = case.procs.get(*p).and_then(|pp| pp.docs.get(*d)).map(|d| d.format.as_str()).unwrap_or("?");
        if rs.iter().any(|r| r.pwd != rs[0].pwd) {
            return Checked::violated(
                format!("C18/workdir/differs-within-document/{fmt}/mode={mode}"),
                detail(&format!("test cases of one document ran in different directories {:?}", rs.iter().map(|r| &r.pwd).collect::<Vec<_>>())),
            );
        }
        if rs[0].pwd.is_empty() || !rs[0].pwd.starts_with('/') {
            return Checked::inconclusive(format!("unusable pwd probe {:?}", rs[0].pwd));
        }
    }
    // detached test cases: the same directory as the other test cases of (some execution of) their document
    for r in recs.iter().filter(|r| is_detached(case, r)) {
        let of_doc: Vec<&String> = execs.iter().filter(|e| e.0 == r.p && e.1 == r.d).map(|e| &e.2[0].pwd).collect();
        if of_doc.is_empty() {
            continue;
        }
        if !of_doc.contains(&&r.pwd) {
            return Checked::violated(
                format!("C18/workdir/differs-within-document/md/mode={mode}/detached"),
                detail(&format!("the detached test case p{}d{}t{} ran in {:?}, the other test cases of its document in {:?}", r.p, r.d, r.t, r.pwd, of_doc)),
            );
        }
        ck = ck.bucket("workdir:detached-compared");
    }
    if mode == "workdir" {
        let wc = canon(&wdir);
        for (_, _, rs) in &execs {
            if canon(Path::new(&rs[0].pwd)) != wc {
                return Checked::violated(
                    "C18/workdir/not-the-given-directory",
                    detail(&format!("--work-directory {} but a test ran in {}", wdir.display(), rs[0].pwd)),
                );
            }
        }
    } else {
        for i in 0..execs.len() {
            for j in i + 1..execs.len() {
                if execs[i].2[0].pwd == execs[j].2[0].pwd {
                    let rel = if execs[i].0 != execs[j].0 {
                        "across-processes"
                    } else if execs[i].1 == execs[j].1 {
                        "same-path-twice"
                    } else {
                        "two-documents"
                    };
                    return Checked::violated(
                        format!("C18/workdir/shared-between-documents/{rel}/mode={mode}"),
                        detail(&format!("two document executions shared the work directory {}", execs[i].2[0].pwd)),
                    );
                }
            }
        }
    }
    if execs.len() >= 2 {
        ck = ck.bucket("workdir:compared-across-documents");
    }
    if case.procs.len() > 1 {
        let ps: BTreeSet<usize> = execs.iter().map(|e| e.0).collect();
        ck = ck.bucket(format!("burst:processes-observed={}", ps.len()));
    }

    // ---- (2) documented environment -----------------------------------------------------------------
    let bash_canon = canon(Path::new("/bin/bash"));
    let mut probes_checked = 0usize;
    for (pi, run) in runs.iter().enumerate() {
        if case.procs[pi].renderer != "json" {
            continue;
        }
        let Ok(outcomes) = run.json() else { continue };
        for o in &outcomes {
            let Some(stdout) = o["output"]["stdout"].as_str() else { continue };
            let mut kv: BTreeMap<&str, &str> = BTreeMap::new();
            for l in stdout.lines() {
                if let Some((k, v)) = l.split_once('=') {
                    kv.entry(k).or_insert(v);
                }
            }
            let Some((p, d, ti)) = kv.get("ID").and_then(|id| parse_id(id)) else { continue };
            if p != pi {
                return Checked::inconclusive("probe of another process in this report");
            }
            let Some(doc) = case.procs[p].docs.get(d) else { continue };
            let fmt = doc.format.as_str();
            let abs = sb.docs.join(&doc.rel);
            let get = |k: &str| kv.get(k).copied().unwrap_or("<missing>");
            let bad = |var: &str, want: &str| {
                Checked::violated(
                    format!("C18/env/{var}/{fmt}"),
                    detail(&format!("test p{p}d{d}t{ti} of {} saw {var}={:?}, documented: {want}", doc.rel, get(var))),
                )
            };
            if kv.len() < 10 {
                return Checked::inconclusive(format!("incomplete probe output {stdout:?}"));
            }
            // TESTDIR: absolute path of the directory of the document
            let td = get("TESTDIR");
            if !td.starts_with('/') || canon(Path::new(td)) != abs.parent().and_then(canon) {
                return bad("TESTDIR", &format!("{:?}", abs.parent()));
            }
            let base = abs.file_name().map(|f| f.to_string_lossy().to_string()).unwrap_or_default();
            if get("TESTFILE") != base {
                return bad("TESTFILE", &base);
            }
            if case.shell != "missing" && case.shell != "nonexec" {
                if canon(Path::new(get("TESTSHELL"))) != bash_canon || bash_canon.is_none() {
                    return bad("TESTSHELL", "the (canonical) path of the shell");
                }
                if get("SHELL") != get("TESTSHELL") {
                    return bad("SHELL", "same as TESTSHELL");
                }
            }
            if get("TMPDIR_ISDIR") != "y" || !get("TMPDIR").starts_with('/') {
                return bad("TMPDIR", "an existing temporary directory");
            }
            if Path::new(get("TMPDIR")) == elsewhere.as_path() {
                return bad("TMPDIR", "scrut's own temporary directory (a document default must not displace it)");
            }
            if doc.front.contains("environment:") {
                ck = ck.bucket("env:probe-checked:document-defaults-name-documented-variables");
            }
            if mode == "workdir" && !canon(Path::new(get("TMPDIR"))).is_some_and(|t| canon(&wdir).is_some_and(|w| t.starts_with(w))) {
                // (the directory may be gone by now: then nothing can be said)
                if Path::new(get("TMPDIR")).exists() {
                    return bad("TMPDIR", "a temporary directory inside the given work directory");
                }
            }
            for (var, want) in [("LANG", "C"), ("LANGUAGE", "C"), ("LC_ALL", "C"), ("TZ", "GMT"), ("COLUMNS", "80")] {
                if get(var) != want {
                    return bad(var, want);
                }
            }
            for var in ["CDPATH", "GREP_OPTIONS"] {
                if get(var) != "" && get(var) != "unset" {
                    return bad(var, "empty");
                }
            }
            if fmt == "md" {
                let st = get("SCRUT_TEST");
                let Some((path, line)) = st.rsplit_once(':') else {
                    return bad("SCRUT_TEST", "<path>:<line>");
                };
                if canon(&sb.docs.join(path)) != canon(&abs) {
                    return Checked::violated(
                        "C18/env/SCRUT_TEST/path".to_string(),
                        detail(&format!("test p{p}d{d}t{ti} of {} saw SCRUT_TEST={st:?}: the path is not the document", doc.rel)),
                    );
                }
                let (lo, hi) = rendered[p][d].blocks.get(ti).copied().unwrap_or((0, 0));
                match line.parse::<usize>() {
                    Ok(l) if l >= lo && l <= hi => {}
                    _ => {
                        return Checked::violated(
                            "C18/env/SCRUT_TEST/line".to_string(),
                            detail(&format!("test p{p}d{d}t{ti} of {} saw SCRUT_TEST={st:?}: its code block spans lines {lo}..{hi}", doc.rel)),
                        );
                    }
                }
                ck = ck.bucket(if path == doc.rel || Path::new(path).is_absolute() || path.starts_with("./") || path.contains("/../") {
                    "env:SCRUT_TEST-path-as-given"
                } else {
                    "env:SCRUT_TEST-path-other-spelling"
                });
            }
            probes_checked += 1;
            ck = ck.bucket(format!("env:probe-checked:{fmt}"));
            if ti > 0 {
                ck = ck.bucket("env:probe-checked:not-first-test");
            }
            if d > 0 {
                ck = ck.bucket("env:probe-checked:not-first-document");
            }
        }
    }
    if case.hostile_env && probes_checked > 0 {
        ck = ck.bucket("env:hostile-parent-environment");
    }
    if case.shell == "symlink" || case.shell == "bare" {
        if probes_checked > 0 {
            ck = ck.bucket(format!("env:shell={}", case.shell));
        }
    }

    // ---- (3) clean-up -----------------------------------------------------------------------------
    // nothing appears in the directory scrut was called from (whatever the mode), nor where a document default
    // tried to point TMPDIR to
    for (when, docs_now, else_now) in [("exit", &docs0, &else0), ("late", &docs1, &else1)] {
        let new: Vec<&String> = docs_now.iter().filter(|p| !docs_before.contains(p)).collect();
        if !new.is_empty() {
            let what = if new.iter().any(|p| p.rsplit('/').next().is_some_and(|n| n.starts_with("made-"))) { "test-file" } else { "other" };
            return Checked::violated(
                format!("C18/cleanup-{when}/caller-directory/mode={mode}/left={what}"),
                detail(&format!("({when}) new entries in the directory scrut was called from: {:?}", new.iter().take(8).collect::<Vec<_>>())),
            );
        }
        if !else_now.is_empty() {
            return Checked::violated(
                format!("C18/cleanup-{when}/displaced-tmpdir/mode={mode}"),
                detail(&format!("({when}) left in the directory a document default named as TMPDIR: {:?}", else_now.iter().take(8).collect::<Vec<_>>())),
            );
        }
    }
    // anything that appeared next to (instead of inside) the TMPDIR / work directory that was given: a path
    // that was re-interpreted by a shell. With --keep-temporary-directories nothing is judged.
    if mode != "keep" {
        for (when, mis, wmis) in [("exit", &mis0, &wmis0), ("late", &mis1, &wmis1)] {
            if !mis.is_empty() {
                return Checked::violated(
                    format!("C18/cleanup-{when}/misplaced/mode={mode}/left={}/tmpdir-char={}", misplaced_kind(mis), path_char_class(&case.tmp_sub)),
                    detail(&format!("TMPDIR of the scrut process was {:?}; ({when}) left beside it: {:?}", tmp_dir, mis.iter().take(8).collect::<Vec<_>>())),
                );
            }
            if !wmis.is_empty() {
                return Checked::violated(
                    format!("C18/cleanup-{when}/misplaced/mode={mode}/left={}/workdir-char={}", misplaced_kind(wmis), path_char_class(&case.workdir_name)),
                    detail(&format!("--work-directory was {:?}; ({when}) left beside it: {:?}", wdir, wmis.iter().take(8).collect::<Vec<_>>())),
                );
            }
        }
    } else if !mis0.is_empty() || !mis1.is_empty() {
        ck = ck.bucket("keep:misplaced-unjudged");
    }
    match mode {
        "default" => {
            for (when, tree, existing) in [("exit", &tree0, &existing0), ("late", &tree1, &existing1)] {
                if !tree.is_empty() {
                    return Checked::violated(
                        format!("C18/cleanup-{when}/mode=default/class={class}/left={}", leftover_kinds(tree)),
                        detail(&format!(
                            "TMPDIR of the scrut process not empty {}: {:?}",
                            if when == "exit" { "right after exit".to_string() } else { format!("{} ms after exit (empty right after exit)", case.delay_ms) },
                            tree.iter().take(8).collect::<Vec<_>>()
                        )),
                    );
                }
                if !existing.is_empty() {
                    return Checked::violated(
                        format!("C18/cleanup-{when}/mode=default/class={class}/left=outside-tmpdir"),
                        detail(&format!("directories the tests ran in still exist: {existing:?}")),
                    );
                }
            }
            ck = ck.bucket("cleanup:empty-after-exit");
            if case.delay_ms > 0 {
                ck = ck.bucket("cleanup:empty-after-delay");
            }
        }
        "keep" => {
            // exactly what was created remains: judged on the directories the tests reported
            for (when, existing) in [("exit", &existing0), ("late", &existing1)] {
                for d in &obs_dirs {
                    if !existing.contains(d) {
                        let which = if recs.iter().any(|r| &r.pwd == d) { "work" } else { "tmp" };
                        return Checked::violated(
                            format!("C18/keep/removed/{which}/class={class}"),
                            detail(&format!("--keep-temporary-directories but {d} is gone ({when})")),
                        );
                    }
                }
            }
            if !obs_dirs.is_empty() {
                ck = ck.bucket("cleanup:kept-directories-present");
            }
            let unaccounted: Vec<&String> = tree0
                .iter()
                .filter(|p| !p.contains('/'))
                .filter(|top| {
                    let abs = tmp_canon.join(top.as_str());
                    !obs_dirs.iter().any(|d| Path::new(d).starts_with(&abs))
                })
                .collect();
            ck = ck.bucket(if unaccounted.is_empty() { "keep:all-top-level-accounted" } else { "keep:top-level-not-reported-by-a-test" });
        }
        _ => {
            for (when, w, tree) in [("exit", &w0, &tree0), ("late", &w1, &tree1)] {
                if !wdir.is_dir() {
                    return Checked::violated("C18/workdir/given-directory-removed", detail("the --work-directory is gone"));
                }
                if !w.iter().any(|n| n == "sentinel") {
                    return Checked::violated("C18/workdir/content-removed/sentinel", detail(&format!("a file that was in the work directory before the run is gone ({when})")));
                }
                let left: Vec<String> = w.iter().filter(|n| *n != "sentinel" && !n.starts_with("made-")).cloned().collect();
                if !left.is_empty() {
                    return Checked::violated(
                        format!("C18/cleanup-{when}/mode=workdir/class={class}/left={}", leftover_kinds(&left)),
                        detail(&format!("left inside the given work directory ({when}): {left:?}")),
                    );
                }
                if !tree.is_empty() {
                    return Checked::violated(
                        format!("C18/cleanup-{when}/mode=workdir/class={class}/left-in-tmpdir={}", leftover_kinds(tree)),
                        detail(&format!("TMPDIR of the scrut process not empty ({when}): {:?}", tree.iter().take(8).collect::<Vec<_>>())),
                    );
                }
            }
            if class != "timeout" {
                for r in &recs {
                    let is_touch = case.procs[r.p].docs[r.d].tests.get(r.t).is_some_and(|t| t.kind == "touch");
                    if is_touch && !w1.iter().any(|n| *n == format!("made-p{}d{}t{}", r.p, r.d, r.t)) {
                        return Checked::violated(
                            "C18/workdir/content-removed/test-file",
                            detail(&format!("the file created by test p{}d{}t{} in the given work directory is gone", r.p, r.d, r.t)),
                        );
                    }
                }
            }
            ck = ck.bucket("cleanup:workdir-kept-and-clean");
            if case.delay_ms > 0 {
                ck = ck.bucket("cleanup:empty-after-delay");
            }
        }
    }

    // evidence
    let mut shape = format!("{}|{}|{}|{}|{}|{}", case.family, mode, case.shell, case.hostile_env, case.procs.len(), case.delay_ms > 0);
    for p in &case.procs {
        for d in &p.docs {
            shape.push_str(&format!("|{}:{}", d.format, d.tests.iter().map(|t| &t.kind[..2]).collect::<Vec<_>>().join("")));
        }
        for a in &p.args {
            shape.push_str(&format!("/{}", a.form));
        }
    }
    // non-trivial: at least one test ran and reported its directory, or scrut gave up early (exit != 0 without any test)
    let nontrivial = !recs.is_empty() || runs.iter().all(|r| r.code.is_some_and(|c| c != 0));
    if probes_checked > 0 {
        ck = ck.bucket("observed:env-probes");
    }
    ck.shape(nontrivial, hash_bytes(shape.as_bytes()))
}

fn shrink(case: &C18Case) -> Vec<C18Case> {
    let mut v = vec![];
    if case.procs.len() > 2 {
        // halves, then single removals
        let mut c = case.clone();
        c.procs.truncate(case.procs.len() / 2);
        v.push(c);
    }
    if case.procs.len() > 1 {
        for i in 0..case.procs.len() {
            let mut c = case.clone();
            c.procs.remove(i);
            v.push(c);
        }
    }
    for (pi, p) in case.procs.iter().enumerate() {
        // drop one argument
        if p.args.len() > 1 {
            for ai in 0..p.args.len() {
                let mut c = case.clone();
                c.procs[pi].args.remove(ai);
                v.push(c);
            }
        }
        // drop one test
        for (di, d) in p.docs.iter().enumerate() {
            if d.tests.len() > 1 {
                for ti in 0..d.tests.len() {
                    let mut c = case.clone();
                    c.procs[pi].docs[di].tests.remove(ti);
                    v.push(c);
                }
            }
        }
        // plainer argument spelling
        for (ai, a) in p.args.iter().enumerate() {
            if a.doc >= 0 && a.form != "rel" {
                let mut c = case.clone();
                c.procs[pi].args[ai].form = "rel".into();
                v.push(c);
            }
        }
    }
    if case.hostile_env {
        let mut c = case.clone();
        c.hostile_env = false;
        v.push(c);
    }
    if !case.tmp_sub.is_empty() {
        let mut c = case.clone();
        c.tmp_sub.clear();
        v.push(c);
    }
    if !case.workdir_name.is_empty() {
        let mut c = case.clone();
        c.workdir_name.clear();
        v.push(c);
    }
    for (pi, p) in case.procs.iter().enumerate() {
        for (di, d) in p.docs.iter().enumerate() {
            if path_char_class(&d.rel) != "plain" {
                let mut c = case.clone();
                c.procs[pi].docs[di].rel = format!("plain{pi}x{di}/doc.{}", ext(&d.format));
                v.push(c);
            }
        }
    }
    if case.shell == "symlink" || case.shell == "bare" {
        let mut c = case.clone();
        c.shell.clear();
        v.push(c);
    }
    if case.mode != "default" {
        let mut c = case.clone();
        c.mode = "default".into();
        v.push(c);
    }
    v
}

impl Monitor for C18 {
    type Case = C18Case;

    fn id(&self) -> &'static str {
        "C18"
    }

    fn plan(&self, tier: Tier) -> Plan {
        let mut p = Plan::new(
            tier.pick(250, 1500),
            "one case = one run of the scrut binary (or a burst of 8 concurrent runs sharing one TMPDIR) over generated Markdown/Cram documents; case k belongs to outcome class k mod 25 {`scrut update --replace --assume-yes` on a document with a changed and a passing test case / an all-passing one / one that does not parse, `scrut create --output - -- <command>`, a command that closes its streams and outlives its time limit (with / without a following document), detached first test case (Markdown), document defaults naming documented variables (Markdown front matter), pass, fail, multi (same file name in several directories, same path twice, directory argument), per-test timeout, hostile parent environment, document timeout (front matter / --timeout-seconds), skip, parse error, burst, parse error in a prepended/appended document, missing shell, non-executable shell, Cram script ended by exit, command killed by a signal, renderer failure, missing document} x mode {default, --keep-temporary-directories, --work-directory}; observed: pwd/TMPDIR per test (marker log), documented variables (JSON of failing probe tests), TMPDIR tree and work directory right after exit and after a delay; non-trivial = at least one test reported its directory, or scrut gave up before running anything (exit != 0); distinct = hash of (class, mode, shell, environment, processes, document formats, test kinds, argument spellings)",
        );
        p.chunk = 1;
        p.case_timeout_s = 120;
        p.workers = 16;
        p.floor_nontrivial = tier.pick(40, 250);
        let per_class = tier.pick(2, 16);
        p.floor_buckets = FAMILIES
            .iter()
            .collect::<BTreeSet<_>>()
            .into_iter()
            .map(|f| (format!("class:{f}"), per_class))
            .collect();
        p.floor_buckets.extend(vec![
            ("mode:default".into(), tier.pick(20, 140)),
            ("mode:keep".into(), tier.pick(6, 50)),
            ("mode:workdir".into(), tier.pick(6, 50)),
            ("observed:tests-ran".into(), tier.pick(30, 200)),
            ("observed:env-probes".into(), tier.pick(15, 100)),
            ("env:probe-checked:md".into(), tier.pick(30, 200)),
            ("env:probe-checked:cram".into(), tier.pick(20, 130)),
            ("env:probe-checked:not-first-test".into(), tier.pick(30, 200)),
            ("env:probe-checked:not-first-document".into(), tier.pick(30, 200)),
            ("workdir:compared-across-documents".into(), tier.pick(15, 100)),
            ("cleanup:empty-after-exit".into(), tier.pick(20, 130)),
            ("cleanup:empty-after-delay".into(), tier.pick(8, 50)),
            ("cleanup:kept-directories-present".into(), tier.pick(5, 30)),
            ("cleanup:workdir-kept-and-clean".into(), tier.pick(4, 25)),
            ("timeout:reported".into(), tier.pick(7, 45)),
            ("path:doc=dollar:cram".into(), tier.pick(1, 12)),
            ("path:doc=backtick:cram".into(), tier.pick(1, 6)),
            ("path:doc=dollar:md".into(), tier.pick(3, 20)),
            ("path:tmpdir=dollar".into(), tier.pick(4, 25)),
            ("path:tmpdir=backtick".into(), tier.pick(2, 20)),
            ("path:workdir=dollar".into(), tier.pick(1, 8)),
            ("workdir:detached-compared".into(), tier.pick(3, 20)),
            ("env:probe-checked:document-defaults-name-documented-variables".into(), tier.pick(6, 40)),
            ("burst:processes-observed=8".into(), tier.pick(2, 14)),
        ]);
        p.assumptions = vec![
            "document directories / file names, the TMPDIR of the scrut process and the --work-directory also get names containing $ (unset variables), backticks (harmless command substitutions), double and single quotes, backslashes and blanks; whatever then appears beside (instead of inside) the given TMPDIR / work directory is a clean-up violation `misplaced` (not judged with --keep-temporary-directories)".into(),
            "a detached test case is the first of its Markdown document, records its directory and creates a file by relative path; it is compared with the other test cases of the document, and the directory scrut was called from must not change; a document default `environment` naming a documented variable is configuration (not O-1): scrut's own value must reach every test case".into(),
            "O-1: no generated test modifies TESTDIR, TESTFILE, TESTSHELL, TMPDIR, SCRUT_TEST, the locale/terminal variables, or changes directory".into(),
            "with --work-directory the sharing of the directory between documents is the documented behaviour and is not judged".into(),
            "paths are compared after canonicalisation (TESTDIR, TESTSHELL, the path part of SCRUT_TEST); the line part of SCRUT_TEST must lie inside the code block of the test".into(),
            "with --keep-temporary-directories only 'the directories the tests ran in are still there' is judged; which further directories may remain is not".into(),
            "a timed-out command is a foreground `sleep`; the second look happens 2 s (quick) / 3 s (thorough) after exit, later than the sleeper ends; a leak found then is a violation whatever the timing, the delay only decides detection power".into(),
            "schedules of the 8 concurrent processes are sampled, not controlled".into(),
            "trace events env_new/env_drop are counted as secondary evidence only (bucket), never decide".into(),
        ];
        p
    }

    fn gen(&self, env: &Env, k: u64, rng: &mut Rng) -> C18Case {
        gen(k, rng, env.tier == Tier::Thorough)
    }

    fn check(&self, env: &Env, case: &C18Case) -> Checked {
        check(env, case)
    }

    fn sidecar(&self, env: &Env) -> Vec<SidecarReport> {
        // thorough tier: a fixed set of documents (pass / fail with each renderer / hostile bytes / big CR LF output /
        // timeout / skip / state carry / cram / parse error / create / update) with the scrut process under memcheck
        if env.tier == Tier::Thorough {
            vec![crate::memcheck::run_memcheck("C18", env, crate::memcheck::standard_docs())]
        } else {
            vec![]
        }
    }

    fn shrink(&self, case: &C18Case) -> Vec<C18Case> {
        shrink(case)
    }

    fn sample(&self, case: &C18Case) -> Value {
        sample(case)
    }
}
