//! Shared by the end-to-end monitors C14(B), C15, C20: render a `RunSpec` into Markdown / Cram
//! documents, run the real `scrut test -r json`, collect the boundary observations (marker log,
//! JSON report, exit status) and compare them with the sequential model.

use std::collections::BTreeMap;
use std::time::Duration;
use std::time::Instant;

use serde_json::json;
use serde_json::Value;

use crate::core::Env;
use crate::e2e::result_kind;
use crate::e2e::Run as ProcRun;
use crate::e2e::Sandbox;
use crate::e2e::ScrutCmd;
use crate::oracle::seqmodel::*;
use crate::rng::hash_str;

// ---------------------------------------------------------------------------------------------
// rendering

fn ms(d: u64) -> String {
    if d % 1000 == 0 {
        format!("{}s", d / 1000)
    } else {
        format!("{d}ms")
    }
}

/// the shell command of a test case; `log` is the shell word naming the marker log
pub fn command(t: &TestSpec, log: &str) -> String {
    let mut c = format!("echo {} >> {}", t.id, log);
    if !t.extra.is_empty() {
        c.push_str(&format!("; {}", t.extra));
    }
    if t.detached {
        return c;
    }
    match t.trap_term {
        1 => c.push_str("; trap '' TERM"),
        2 => c.push_str("; trap 'echo cleanup' TERM"),
        // the command gives up its output streams and keeps running
        3 => c.push_str("; exec >&- 2>&-"),
        4 => c.push_str("; exec >/dev/null 2>&1"),
        _ => {}
    }
    if t.sleep_ms > 0 {
        c.push_str(&format!("; sleep {}.{:03}; echo {}-late >> {}", t.sleep_ms / 1000, t.sleep_ms % 1000, t.id, log));
    }
    c.push_str(&format!("; echo out-{}{}", t.id, "x".repeat(t.pad as usize)));
    if t.kill_self != 0 {
        c.push_str(&format!("; kill -{} $$", t.kill_self));
    } else if t.hard_exit {
        c.push_str(&format!("; exit {}", t.exit));
    } else if t.exit != 0 {
        c.push_str(&format!("; (exit {})", t.exit));
    }
    c
}

fn expectation(t: &TestSpec) -> String {
    if t.output_ok {
        format!("out-{}{}", t.id, "x".repeat(t.pad as usize))
    } else {
        format!("other-{}", t.id)
    }
}

/// path of an included document as written in the front-matter of `doc` (relative to its directory)
fn include_path(doc: &DocSpec, inc: &str) -> String {
    let depth = doc.name.matches('/').count();
    format!("{}{}", "../".repeat(depth), inc)
}

pub fn render_markdown(doc: &DocSpec, log: &str) -> Vec<u8> {
    let mut s = String::new();
    let mut fm = String::new();
    if !doc.prepend.is_empty() {
        fm.push_str("prepend:\n");
        for p in &doc.prepend {
            fm.push_str(&format!("  - {}\n", include_path(doc, p)));
        }
    }
    if !doc.append.is_empty() {
        fm.push_str("append:\n");
        for p in &doc.append {
            fm.push_str(&format!("  - {}\n", include_path(doc, p)));
        }
    }
    if let Some(c) = doc.skip_code {
        fm.push_str(&format!("defaults:\n  skip_document_code: {c}\n"));
    }
    if let Some(t) = doc.total_timeout_ms {
        fm.push_str(&format!("total_timeout: {}\n", ms(t)));
    }
    match doc.defect {
        Defect::BadFrontMatter => fm.push_str("total_timeout: [1s\nprepend: {\n"),
        Defect::MissingShell => fm.push_str("shell: /nonexistent/vh-no-such-shell\n"),
        _ => {}
    }
    if !fm.is_empty() {
        s.push_str("---\n");
        s.push_str(&fm);
        s.push_str("---\n\n");
    }
    s.push_str(&format!("# Document {}\n\n", doc.name));
    if doc.tests.is_empty() && doc.filler == 0 {
        s.push_str("This document has no test cases of its own.\n");
    }
    for t in &doc.all_tests() {
        s.push_str(&format!("## {}\n\n", t.id));
        let mut cfg = vec![];
        if let Some(c) = t.skip_code {
            cfg.push(format!("skip_document_code: {c}"));
        }
        if let Some(x) = t.timeout_ms {
            cfg.push(format!("timeout: {}", ms(x)));
        }
        if t.detached {
            cfg.push("detached: true".to_string());
        }
        if let Some(w) = t.wait_ms {
            match &t.wait_path {
                Some(p) => cfg.push(format!("wait: {{timeout: {}, path: {p}}}", ms(w))),
                None => cfg.push(format!("wait: {}", ms(w))),
            }
        }
        if cfg.is_empty() {
            s.push_str("```scrut\n");
        } else {
            s.push_str(&format!("```scrut {{{}}}\n", cfg.join(", ")));
        }
        s.push_str(&format!("$ {}\n", command(t, log)));
        if !t.detached {
            s.push_str(&format!("{}\n", expectation(t)));
            if let Some(c) = t.expect_code {
                s.push_str(&format!("[{c}]\n"));
            }
        }
        s.push_str("```\n\n");
    }
    let mut b = s.into_bytes();
    if doc.defect == Defect::NotUtf8 {
        b.extend_from_slice(b"caf\xe9 \xff\xfe\n");
    }
    b
}

pub fn render_cram(doc: &DocSpec, log: &str) -> Vec<u8> {
    let mut s = String::new();
    if doc.tests.is_empty() && doc.filler == 0 {
        s.push_str("This document has no test cases of its own\n");
    }
    for t in &doc.all_tests() {
        s.push_str(&format!("{}\n", t.id));
        s.push_str(&format!("  $ {}\n", command(t, log)));
        s.push_str(&format!("  {}\n", expectation(t)));
        if let Some(c) = t.expect_code {
            s.push_str(&format!("  [{c}]\n"));
        }
        s.push('\n');
    }
    let mut b = s.into_bytes();
    if doc.defect == Defect::NotUtf8 {
        b.extend_from_slice(b"caf\xe9 \xff\xfe\n");
    }
    b
}

pub fn render(doc: &DocSpec, log: &str) -> Vec<u8> {
    match doc.format {
        Format::Markdown => render_markdown(doc, log),
        Format::Cram => render_cram(doc, log),
    }
}

/// readable rendering of a run for samples and witnesses
pub fn sample_run(run: &RunSpec) -> Value {
    let mut files = serde_json::Map::new();
    for d in run.docs.iter().chain(run.aux.iter()) {
        let text = if d.defect == Defect::Missing {
            "<not written>".to_string()
        } else {
            {
                // (filler test cases are summarised)
                let mut listed = d.clone();
                listed.filler = d.filler.min(2);
                let mut text = String::from_utf8_lossy(&render(&listed, "$LOG")).to_string();
                if d.filler > 2 {
                    text.push_str(&format!("... and {} more passing test cases like the last one ({} bytes in all)\n", d.filler - 2, render(d, "$LOG").len()));
                }
                text
            }
        };
        files.insert(d.name.clone(), Value::String(text));
    }
    let links: Vec<String> = run.docs.iter().chain(run.aux.iter()).filter_map(|d| d.link.as_ref()).map(|(l, t)| format!("{l} -> {t}")).collect();
    if !links.is_empty() {
        let mut v = json!({"argv": argv(run).join(" "), "files": files, "symbolic_links": links});
        v["stored_at"] = json!(run.docs.iter().filter_map(|d| d.stored_at.as_ref().map(|s| format!("{} is the file {s}", d.name))).collect::<Vec<_>>());
        return v;
    }
    json!({"argv": argv(run).join(" "), "files": files})
}

pub fn argv(run: &RunSpec) -> Vec<String> {
    let mut a: Vec<String> = vec!["test".into(), "-r".into(), "json".into()];
    a.extend(run.args.iter().cloned());
    if run.cram_compat {
        a.push("--cram-compat".into());
    }
    if let Some(s) = run.cli_timeout_s {
        a.push("--timeout-seconds".into());
        a.push(s.to_string());
    }
    if !run.cli_prepend.is_empty() {
        a.push("--prepend-test-file-paths".into());
        a.extend(run.cli_prepend.iter().cloned());
    }
    if !run.cli_append.is_empty() {
        a.push("--append-test-file-paths".into());
        a.extend(run.cli_append.iter().cloned());
    }
    a
}

// ---------------------------------------------------------------------------------------------
// driving

pub struct Observation {
    pub proc: ProcRun,
    /// (location, title, kind) in report order; None when stdout is not a JSON array
    pub results: Option<Vec<(String, String, String)>>,
    pub json_error: String,
    /// marker log after the run (and after waiting for detached / late markers)
    pub markers: Vec<String>,
    pub trace: Vec<Value>,
}

pub fn write_docs(sb: &Sandbox, run: &RunSpec) {
    let log = sb.log.display().to_string();
    for d in run.docs.iter().chain(run.aux.iter()) {
        if d.defect == Defect::Missing {
            continue;
        }
        sb.write_doc(d.stored_at.as_deref().unwrap_or(&d.name), &render(d, &log));
    }
    // symbolic links (to a document or to a directory of documents)
    for d in run.docs.iter().chain(run.aux.iter()) {
        if let Some((link, target)) = &d.link {
            let lp = sb.docs.join(link);
            if std::fs::symlink_metadata(&lp).is_err() {
                if let Some(parent) = lp.parent() {
                    let _ = std::fs::create_dir_all(parent);
                }
                let _ = std::os::unix::fs::symlink(sb.docs.join(target), &lp);
            }
        }
    }
}

/// runs scrut on the rendered documents. `settle`: given the markers so far, is anything still
/// awaited? (polled up to `settle_max` after scrut returned; then the process group is killed)
pub fn drive(
    env: &Env,
    sb: &Sandbox,
    run: &RunSpec,
    watchdog: Duration,
    settle_max: Duration,
    awaited: &dyn Fn(&[String]) -> bool,
) -> Observation {
    write_docs(sb, run);
    let args = argv(run);
    let argrefs: Vec<&str> = args.iter().map(|s| s.as_str()).collect();
    let mut proc = ScrutCmd::new(sb, &argrefs).watchdog(watchdog).run(env);
    if proc.signal == Some(libc::SIGKILL) && !proc.watchdog_fired {
        // scrut does not SIGKILL itself: somebody else's clean-up hit a recycled process group
        // id (pid_max is small here). Not an observation about scrut: start over once.
        let _ = std::fs::remove_file(&sb.log);
        let _ = std::fs::remove_file(&sb.trace);
        proc = ScrutCmd::new(sb, &argrefs).watchdog(watchdog).run(env);
    }
    let t0 = Instant::now();
    let mut markers = sb.markers();
    while awaited(&markers) && t0.elapsed() < settle_max {
        std::thread::sleep(Duration::from_millis(25));
        markers = sb.markers();
    }
    // only runs that can leave processes behind (sleepers, detached commands) are cleaned up: the
    // process group id may have been recycled by the time nobody of the group is left
    if run.docs.iter().chain(run.aux.iter()).any(|d| d.tests.iter().any(|t| t.sleep_ms >= 1000 || t.detached)) {
        proc.kill_group();
    }
    let (results, json_error) = match proc.json() {
        Ok(arr) => (
            Some(
                arr.iter()
                    .map(|o| {
                        let title = o["title"].as_str().or_else(|| o["testcase"]["title"].as_str()).unwrap_or("?").to_string();
                        (o["location"].as_str().unwrap_or("?").to_string(), title, result_kind(o))
                    })
                    .collect(),
            ),
            String::new(),
        ),
        Err(e) => (None, e),
    };
    Observation {
        proc,
        results,
        json_error,
        markers,
        trace: sb.trace_events(),
    }
}

/// ids of detached test cases that must run: awaited in the marker log
pub fn awaited_detached(model: &RunModel) -> Vec<String> {
    model
        .docs
        .iter()
        .flat_map(|d| d.seq.iter())
        .filter(|t| t.detached && t.run == Run::Must)
        .map(|t| t.id.clone())
        .collect()
}

// ---------------------------------------------------------------------------------------------
// judging

#[derive(Clone, Debug)]
pub struct Finding {
    /// oracle clause, e.g. `exit-status`, `result-kind`
    pub clause: String,
    /// minimal structural cause
    pub cause: String,
    pub detail: String,
}

impl Finding {
    fn new(clause: &str, cause: String, detail: String) -> Finding {
        Finding {
            clause: clause.to_string(),
            cause,
            detail,
        }
    }
    pub fn sig(&self, id: &str) -> String {
        format!("{id}/{}/{}", self.clause, self.cause)
    }
}

/// the finding whose clause comes first in `order` (clauses not listed come last, in report order)
pub fn first_by<'a>(findings: &'a [Finding], order: &[&str]) -> Option<&'a Finding> {
    for c in order {
        if let Some(f) = findings.iter().find(|f| f.clause == *c) {
            return Some(f);
        }
    }
    findings.first()
}

pub struct Judged {
    pub findings: Vec<Finding>,
    /// conditions under which nothing can be said (hooks / report missing, watchdog)
    pub inconclusive: Option<String>,
    /// what was observed, for the evidence buckets
    pub buckets: Vec<String>,
    /// the document models actually used (after the fragile adjustment)
    pub docs: Vec<DocModel>,
}

#[derive(Clone, Copy)]
pub struct Clauses {
    pub markers: bool,
    pub results: bool,
    pub exit: bool,
}

pub fn fmt_of(d: &DocModel) -> &'static str {
    if d.script && d.format == Format::Markdown {
        "markdown-cram-compat"
    } else {
        fmt_name(d.format)
    }
}

fn fmt_name(f: Format) -> &'static str {
    match f {
        Format::Markdown => "markdown",
        Format::Cram => "cram",
    }
}

/// order of the documents of a directory argument: by first appearance of one of their own markers
fn infer_group_order(group: &[usize], docs: &[DocModel], log: &[String]) -> Vec<usize> {
    let mut keyed: Vec<(usize, usize)> = group
        .iter()
        .map(|&di| {
            let pos = log
                .iter()
                .position(|m| docs[di].seq.iter().any(|t| t.role == Role::Own && &t.id == m))
                .unwrap_or(usize::MAX);
            (pos, di)
        })
        .collect();
    keyed.sort();
    keyed.into_iter().map(|(_, d)| d).collect()
}

/// all orders of a small list, the given order first
fn permutations(items: &[usize]) -> Vec<Vec<usize>> {
    if items.len() <= 1 {
        return vec![items.to_vec()];
    }
    let mut out = vec![];
    for i in 0..items.len() {
        let mut rest = items.to_vec();
        let x = rest.remove(i);
        for mut p in permutations(&rest) {
            p.insert(0, x);
            out.push(p);
        }
    }
    out
}

/// is `log` an order preserving selection of `exp` that contains every `Must` element?
fn embeds(log: &[&String], exp: &[(&String, Run)]) -> bool {
    let n = log.len();
    let m = exp.len();
    // f[i][j]: log[..i] embedded into exp[..j] with every Must of exp[..j] used
    let mut f = vec![vec![false; m + 1]; n + 1];
    f[0][0] = true;
    for j in 1..=m {
        f[0][j] = f[0][j - 1] && exp[j - 1].1 == Run::May;
    }
    for i in 1..=n {
        for j in 1..=m {
            let skip = exp[j - 1].1 == Run::May && f[i][j - 1];
            let take = log[i - 1] == exp[j - 1].0 && f[i - 1][j - 1];
            f[i][j] = skip || take;
        }
    }
    f[n][m]
}

pub fn judge(run: &RunSpec, model: &RunModel, obs: &Observation, clauses: Clauses) -> Judged {
    let mut findings: Vec<Finding> = vec![];
    let mut buckets: Vec<String> = vec![];
    let mut docs: Vec<DocModel> = model.docs.clone();

    if obs.proc.watchdog_fired {
        return Judged {
            findings,
            inconclusive: Some("watchdog fired while scrut was running".into()),
            buckets,
            docs,
        };
    }
    let code = obs.proc.code;
    buckets.push(format!("exit:{}", code.map(|c| c.to_string()).unwrap_or_else(|| format!("signal-{}", obs.proc.signal.unwrap_or(0)))));

    // location of every document as scrut reports it
    let location = |d: &DocModel| d.name.clone();

    // ---- results: index by (location, title)
    let mut by_key: BTreeMap<(String, String), Vec<String>> = BTreeMap::new();
    if let Some(rs) = &obs.results {
        for (loc, title, kind) in rs {
            by_key.entry((loc.clone(), title.clone())).or_default().push(kind.clone());
            buckets.push(format!("kind:{kind}"));
        }
    }

    // fragile documents: the report may show the document limit striking earlier than modelled
    if obs.results.is_some() {
        for d in docs.iter_mut() {
            if !d.fragile {
                continue;
            }
            let first_timeout = d.seq.iter().position(|t| {
                by_key
                    .get(&(d.name.clone(), t.id.clone()))
                    .is_some_and(|ks| ks.iter().any(|k| k == "timeout"))
            });
            let modelled_at = match d.end {
                DocEnd::TimedOut { at, .. } => Some(at),
                DocEnd::Completed => None,
                _ => continue,
            };
            if let Some(ft) = first_timeout {
                if modelled_at.is_none_or(|at| ft < at) {
                    *d = d.with_timeout_at(ft);
                    d.fragile = true;
                    buckets.push("fragile:early-timeout".into());
                }
            }
        }
    }
    let expected_exit = if model.aborted.is_some() {
        1
    } else if docs.iter().any(|d| d.fails) {
        50
    } else {
        0
    };

    // ---- results
    if clauses.results && model.aborted.is_none() && matches!(code, Some(0) | Some(50)) {
        match &obs.results {
            None => {
                return Judged {
                    findings,
                    inconclusive: Some(format!("no JSON report although scrut exited with {code:?}: {}", obs.json_error)),
                    buckets,
                    docs,
                }
            }
            Some(rs) => {
                let mut known: BTreeMap<(String, String), ()> = BTreeMap::new();
                for d in &docs {
                    buckets.push(format!("doc:{}:{}", fmt_of(d), d.end.name()));
                    let mut n_timeout = 0;
                    for (i, t) in d.seq.iter().enumerate() {
                        let key = (location(d), t.id.clone());
                        known.insert(key.clone(), ());
                        let kinds = by_key.get(&key).cloned().unwrap_or_default();
                        let what = if t.detached { "detached" } else { t.role.name() };
                        if (kinds.len() as u8) < t.min {
                            findings.push(Finding::new(
                                "result-missing",
                                format!("{what}/{}", fmt_of(d)),
                                format!("no result for test case {} (#{} of {}); model: {}; report: {:?}", t.id, i + 1, d.name, describe_doc(d), rs),
                            ));
                        }
                        if (kinds.len() as u8) > t.max || kinds.len() > 1 {
                            findings.push(Finding::new(
                                "result-surplus",
                                format!("{what}/{}/n={}", fmt_of(d), kinds.len().min(3)),
                                format!("{} result(s) for test case {} of {} (allowed {}..{}); report: {:?}", kinds.len(), t.id, d.name, t.min, t.max, rs),
                            ));
                        }
                        for k in &kinds {
                            let c = Class::of_kind(k);
                            if c == Class::Timeout {
                                n_timeout += 1;
                            }
                            if !t.classes.is_empty() && !t.classes.contains(&c) {
                                let rel = match &d.end {
                                    DocEnd::Skipped { by } => {
                                        if i < *by {
                                            "before-skipper"
                                        } else if i == *by {
                                            "skipper"
                                        } else {
                                            "after-skipper"
                                        }
                                    }
                                    DocEnd::TimedOut { at, .. } => {
                                        if i < *at {
                                            "before-timeout"
                                        } else if i == *at {
                                            "timed-out"
                                        } else {
                                            "after-timeout"
                                        }
                                    }
                                    DocEnd::Killed { at } => {
                                        if i < *at {
                                            "before-killed-shell"
                                        } else if i == *at {
                                            "killed-shell"
                                        } else {
                                            "after-killed-shell"
                                        }
                                    }
                                    _ => "plain",
                                };
                                let exp: Vec<&str> = t.classes.iter().map(|c| c.name()).collect();
                                findings.push(Finding::new(
                                    "result-kind",
                                    format!("expected={}/got={}/{}/{rel}", exp.join("|"), c.name(), fmt_of(d)),
                                    format!("test case {} (#{} of {}): reported `{k}`, model says {}; model: {}; report: {:?}", t.id, i + 1, d.name, exp.join("|"), describe_doc(d), rs),
                                ));
                            }
                        }
                    }
                    if let DocEnd::TimedOut { at, or_next: true, .. } = d.end {
                        // the budget ran out while scrut waited before test `at`: that test case
                        // or the next one is the aborted one, the other is not passed after it
                        let class_at = |i: usize| -> Option<Class> {
                            d.seq.get(i).and_then(|t| by_key.get(&(location(d), t.id.clone()))).and_then(|ks| ks.first()).map(|k| Class::of_kind(k))
                        };
                        let failedish = |c: Option<Class>| matches!(c, Some(Class::Timeout) | Some(Class::Fail));
                        let (ca, cb) = (class_at(at), class_at(at + 1));
                        if ca.is_some() && cb.is_some() {
                            if failedish(ca) {
                                if cb != Some(Class::Skipped) {
                                    findings.push(Finding::new(
                                        "budget-exhausted",
                                        format!("after-aborted/got={}", cb.map(|c| c.name()).unwrap_or("none")),
                                        format!("document {}: the limit ran out during the wait of test case #{}; it is reported as failed but the next one is not skipped; report: {:?}", d.name, at + 1, rs),
                                    ));
                                }
                            } else if !failedish(cb) {
                                findings.push(Finding::new(
                                    "budget-exhausted",
                                    "no-failed-result".to_string(),
                                    format!("document {}: the limit ran out during the wait of test case #{} but neither it nor the next test case is reported as failed / timed out; report: {:?}", d.name, at + 1, rs),
                                ));
                            }
                        }
                    }
                    if let DocEnd::TimedOut { attributed: false, .. } = d.end {
                        if n_timeout == 0 {
                            findings.push(Finding::new(
                                "result-kind",
                                format!("expected=timeout/got=none/{}/timed-out", fmt_of(d)),
                                format!("document {} exceeded its limit but no test case is reported as timed out; report: {:?}", d.name, rs),
                            ));
                        }
                    }
                }
                for (loc, title, kind) in rs {
                    if !known.contains_key(&(loc.clone(), title.clone())) {
                        findings.push(Finding::new(
                            "result-unknown",
                            "not-a-test-case-of-that-document".to_string(),
                            format!("result `{kind}` for ({loc}, {title}) which is no test case of that document"),
                        ));
                    }
                }
            }
        }
    }

    // ---- exit status
    if clauses.exit {
        match code {
            None => findings.push(Finding::new(
                "exit-status",
                format!("expected={expected_exit}/got=signal"),
                format!("scrut was killed by signal {:?}; stderr: {}", obs.proc.signal, tail(&obs.proc.stderr_str())),
            )),
            Some(c) if c != expected_exit => {
                let why = match model.aborted {
                    Some(w) => format!("/{w}"),
                    None => String::new(),
                };
                findings.push(Finding::new(
                    "exit-status",
                    format!("expected={expected_exit}/got={c}{why}"),
                    format!("model: {} -> exit {expected_exit}; scrut exited with {c}; stderr: {}", describe(&docs), tail(&obs.proc.stderr_str())),
                ))
            }
            _ => {}
        }
    }

    // ---- markers
    if clauses.markers {
        let detached_ids: Vec<&String> = docs.iter().flat_map(|d| d.seq.iter()).filter(|t| t.detached).map(|t| &t.id).collect();
        // (a) counts per id
        let mut min_n: BTreeMap<&String, (usize, usize, Role, bool)> = BTreeMap::new();
        for d in &docs {
            for t in &d.seq {
                let e = min_n.entry(&t.id).or_insert((0, 0, t.role, t.detached));
                if t.run == Run::Must {
                    e.0 += 1;
                }
                e.1 += 1;
            }
        }
        let late: Vec<&String> = obs.markers.iter().filter(|m| m.ends_with("-late")).collect();
        let log: Vec<&String> = obs.markers.iter().filter(|m| !m.ends_with("-late")).collect();
        buckets.push(format!("markers:{}", match log.len() { 0 => "0", 1..=3 => "1-3", 4..=9 => "4-9", _ => "10+" }));
        let _ = late;
        let mut counts_ok = true;
        for (id, (lo, hi, role, det)) in &min_n {
            let n = log.iter().filter(|m| m == &id).count();
            let what = if *det { "detached" } else { role.name() };
            if n > *hi {
                counts_ok = false;
                findings.push(Finding::new(
                    "executed-more-than-once",
                    what.to_string(),
                    format!("marker {id} appears {n} times, at most {hi} execution(s) expected; log: {:?}", obs.markers),
                ));
            } else if n < *lo {
                counts_ok = false;
                findings.push(Finding::new(
                    "not-executed",
                    what.to_string(),
                    format!("marker {id} appears {n} times, {lo} execution(s) expected; model: {}; log: {:?}", describe(&docs), obs.markers),
                ));
            }
        }
        for m in &log {
            if !min_n.contains_key(m) {
                counts_ok = false;
                findings.push(Finding::new("marker-unknown", "id".into(), format!("marker {m} belongs to no test case; log: {:?}", obs.markers)));
            }
        }
        // (b) order (detached test cases write asynchronously: not ordered)
        if counts_ok {
            let seq_log: Vec<&String> = log.iter().copied().filter(|m| !detached_ids.contains(m)).collect();
            let owned_log: Vec<String> = seq_log.iter().map(|s| (*s).clone()).collect();
            // a directory argument does not fix the order of its documents: every order of the
            // group is admissible (groups are small); the diagnosis uses the inferred order
            let mut orders: Vec<Vec<usize>> = vec![vec![]];
            for g in &model.groups {
                let inferred = if g.len() == 1 { g.clone() } else { infer_group_order(g, &docs, &owned_log) };
                let perms = if g.len() > 1 && g.len() <= 4 { permutations(&inferred) } else { vec![inferred] };
                let mut next = vec![];
                for o in &orders {
                    for p in &perms {
                        if next.len() >= 64 {
                            break;
                        }
                        let mut n = o.clone();
                        n.extend(p.iter().copied());
                        next.push(n);
                    }
                }
                orders = next;
            }
            let expected_of = |order: &Vec<usize>| -> Vec<(&String, Run)> {
                order
                    .iter()
                    .flat_map(|&di| docs[di].seq.iter().filter(|t| !t.detached).map(|t| (&t.id, t.run)))
                    .collect()
            };
            let order = orders.iter().find(|o| embeds(&seq_log, &expected_of(o))).unwrap_or(&orders[0]).clone();
            let exp = expected_of(&order);
            if !embeds(&seq_log, &exp) {
                // structural cause: is every single document in order on its own?
                let mut cause = "across-documents".to_string();
                for &di in &order {
                    let ids: Vec<&String> = docs[di].seq.iter().filter(|t| !t.detached).map(|t| &t.id).collect();
                    let own: Vec<&String> = seq_log
                        .iter()
                        .copied()
                        .filter(|m| docs[di].seq.iter().any(|t| t.role == Role::Own && &&t.id == m))
                        .collect();
                    let _ = ids;
                    let exp_own: Vec<(&String, Run)> = docs[di].seq.iter().filter(|t| !t.detached && t.role == Role::Own).map(|t| (&t.id, t.run)).collect();
                    if !embeds(&own, &exp_own) {
                        cause = "own-test-cases".to_string();
                        break;
                    }
                }
                if cause == "across-documents" {
                    // included test cases relative to own ones
                    let has_inc = docs.iter().any(|d| d.seq.iter().any(|t| t.role != Role::Own));
                    if has_inc {
                        cause = "included-vs-own".to_string();
                    }
                }
                findings.push(Finding::new(
                    "execution-order",
                    cause,
                    format!("marker log {:?} is not the model's order {:?}", seq_log, exp.iter().map(|(i, r)| format!("{i}{}", if *r == Run::May { "?" } else { "" })).collect::<Vec<_>>()),
                ));
            }
        }
    }
    let _ = run;
    Judged {
        findings,
        inconclusive: None,
        buckets,
        docs,
    }
}

pub fn tail(s: &str) -> String {
    let lines: Vec<&str> = s.lines().filter(|l| !l.trim().is_empty()).take(3).collect();
    let mut t = lines.join(" | ");
    if t.len() > 400 {
        t = t.chars().take(400).collect();
    }
    t
}

pub fn describe_doc(d: &DocModel) -> String {
    let tests: Vec<String> = d
        .seq
        .iter()
        .map(|t| {
            let cls: Vec<&str> = t.classes.iter().map(|c| c.name()).collect();
            format!("{}{}:{}", t.id, if t.run == Run::May { "?" } else { "" }, if t.max == 0 { "none".to_string() } else if cls.is_empty() { "any".into() } else { cls.join("|") })
        })
        .collect();
    if tests.len() > 12 {
        return format!("{}[{}: {} ... ({} test cases)]", d.name, d.end.name(), tests[..4].join(" "), tests.len());
    }
    format!("{}[{}: {}]", d.name, d.end.name(), tests.join(" "))
}

pub fn describe(docs: &[DocModel]) -> String {
    docs.iter().map(describe_doc).collect::<Vec<_>>().join(" ")
}

/// structural shape of a run: formats, ends, per test case (role, detached, classes)
pub fn shape_of(docs: &[DocModel]) -> u64 {
    let mut s = String::new();
    for d in docs {
        s.push_str(fmt_of(d));
        s.push_str(d.end.name());
        if let DocEnd::Skipped { by } = d.end {
            s.push_str(&format!("@{by}"));
        }
        if let DocEnd::TimedOut { at, .. } = d.end {
            s.push_str(&format!("@{at}"));
        }
        for t in &d.seq {
            s.push_str(t.role.name());
            s.push(if t.detached { 'd' } else { '-' });
            for c in &t.classes {
                s.push_str(c.name());
            }
            s.push(';');
        }
        s.push('|');
    }
    hash_str(&s)
}

/// tolerant reading of the summary line of the pretty renderer:
/// `Result: D document(s) with T testcase(s): A succeeded, B failed and C skipped`
pub fn parse_summary(stdout: &str) -> Option<(u64, u64, u64, u64, u64)> {
    let line = stdout.lines().rev().find(|l| l.contains("document(s)") && l.contains("testcase(s)"))?;
    let nums: Vec<u64> = line
        .split(|c: char| !c.is_ascii_digit())
        .filter(|s| !s.is_empty())
        .filter_map(|s| s.parse().ok())
        .collect();
    if nums.len() != 5 || !line.contains("succeeded") || !line.contains("failed") || !line.contains("skipped") {
        return None;
    }
    Some((nums[0], nums[1], nums[2], nums[3], nums[4]))
}

/// drop one thing at a time: shared shrinking of runs
pub fn shrink_run(run: &RunSpec) -> Vec<RunSpec> {
    let mut out = vec![];
    // drop a whole document under test
    if run.docs.len() > 1 {
        for i in 0..run.docs.len() {
            let mut r = run.clone();
            let d = r.docs.remove(i);
            r.args.retain(|a| a != &d.name);
            // a directory argument without documents left
            r.args.retain(|a| r.docs.iter().any(|d| &d.name == a || d.name.starts_with(&format!("{a}/"))));
            out.push(r);
        }
    }
    // fewer filler test cases
    for i in 0..run.docs.len() {
        let f = run.docs[i].filler;
        if f > 0 {
            for nf in [0, f / 2, f * 3 / 4, f * 9 / 10, f.saturating_sub(10), f - 1] {
                if nf < f {
                    let mut r = run.clone();
                    r.docs[i].filler = nf;
                    out.push(r);
                }
            }
        }
    }
    // drop includes
    if !run.cli_prepend.is_empty() {
        let mut r = run.clone();
        r.cli_prepend.clear();
        out.push(r);
    }
    if !run.cli_append.is_empty() {
        let mut r = run.clone();
        r.cli_append.clear();
        out.push(r);
    }
    for i in 0..run.docs.len() {
        if !run.docs[i].prepend.is_empty() {
            let mut r = run.clone();
            r.docs[i].prepend.clear();
            out.push(r);
        }
        if !run.docs[i].append.is_empty() {
            let mut r = run.clone();
            r.docs[i].append.clear();
            out.push(r);
        }
    }
    // unused auxiliary documents
    {
        let mut r = run.clone();
        let used = |n: &String| r.cli_prepend.contains(n) || r.cli_append.contains(n) || r.docs.iter().any(|d| d.prepend.contains(n) || d.append.contains(n));
        let keep: Vec<DocSpec> = r.aux.iter().filter(|a| used(&a.name)).cloned().collect();
        if keep.len() != r.aux.len() {
            r.aux = keep;
            out.push(r);
        }
    }
    // drop one test case
    for i in 0..run.docs.len() {
        if run.docs[i].tests.len() > 1 {
            for j in 0..run.docs[i].tests.len() {
                let mut r = run.clone();
                r.docs[i].tests.remove(j);
                out.push(r);
            }
        }
    }
    for i in 0..run.aux.len() {
        if run.aux[i].tests.len() > 1 {
            for j in 0..run.aux[i].tests.len() {
                let mut r = run.clone();
                r.aux[i].tests.remove(j);
                out.push(r);
            }
        }
    }
    // simplify one test case
    for i in 0..run.docs.len() {
        for j in 0..run.docs[i].tests.len() {
            let t = &run.docs[i].tests[j];
            let plain = TestSpec::pass(&t.id);
            if *t != plain {
                let mut r = run.clone();
                r.docs[i].tests[j] = plain;
                out.push(r);
            }
            if t.skip_code.is_some() {
                let mut r = run.clone();
                r.docs[i].tests[j].skip_code = None;
                out.push(r);
            }
            if t.expect_code.is_some() && t.expect_code != Some(t.exit) {
                let mut r = run.clone();
                r.docs[i].tests[j].expect_code = None;
                out.push(r);
            }
            if !t.output_ok {
                let mut r = run.clone();
                r.docs[i].tests[j].output_ok = true;
                out.push(r);
            }
        }
        if run.docs[i].skip_code.is_some() {
            let mut r = run.clone();
            r.docs[i].skip_code = None;
            out.push(r);
        }
    }
    // a directory document moved to the top level is not tried: names are part of the case
    out
}
