//! C10 (end-to-end part): `scrut update --replace --assume-yes doc.md`, twice.
//! The document is rendered from a block list, so the lines outside scrut blocks are known.

use std::time::Duration;

use serde::Deserialize;
use serde::Serialize;
use serde_json::json;

use crate::core::*;
use crate::e2e::Sandbox;
use crate::e2e::ScrutCmd;
use crate::rng::hash_str;
use crate::rng::Rng;

pub struct C10e;

#[derive(Clone, Debug, Serialize, Deserialize, PartialEq)]
pub enum Block {
    FrontMatter(Vec<String>),
    Heading(String),
    Para(Vec<String>),
    Blank,
    Foreign { fence: usize, lang: String, body: Vec<String> },
    Test(TestBlock),
}

#[derive(Clone, Debug, Serialize, Deserialize, PartialEq)]
pub struct TestBlock {
    pub fence: usize,
    /// text after the language, e.g. ` {timeout: 9s}` or empty
    pub config: String,
    pub comments: Vec<String>,
    /// words echoed, one output line per entry
    pub words: Vec<String>,
    /// exit code of the command
    pub code: u8,
    /// pass | wrong-output | wrong-code | missing-output
    pub outcome: String,
    /// if not empty: the command is `cat <<EOF` with these lines as `> ` continuation lines (they are also the output)
    #[serde(default)]
    pub heredoc: Vec<String>,
    /// `{detached: true}`: the command (`sleep 0.1`) is started and not waited for; the block has no
    /// expectations and must stay as written
    #[serde(default)]
    pub detached: bool,
    /// the command is empty: the block has the line `$ ` and nothing to run (no words, exit code 0)
    #[serde(default)]
    pub empty_cmd: bool,
}

#[derive(Clone, Debug, Serialize, Deserialize)]
pub struct Case {
    pub blocks: Vec<Block>,
    pub crlf: bool,
    pub final_newline: bool,
    /// language of the test blocks: "scrut" (default) or "sh" (then `--markdown-languages sh` is passed)
    #[serde(default = "default_lang")]
    pub lang: String,
    /// update is invoked on two documents: an all-passing one first, then this one
    #[serde(default)]
    pub with_unchanged_first: bool,
    /// the document is written in Latin-1: every non-ASCII character (they occur outside scrut blocks
    /// only) becomes one byte 0x80..0xFF, so the file is not UTF-8
    #[serde(default)]
    pub latin1: bool,
}

fn default_lang() -> String {
    "scrut".into()
}

fn sh_word(w: &str) -> String {
    if w.chars().all(|c| c.is_ascii_alphanumeric() || c == '-') {
        w.to_string()
    } else {
        format!("'{w}'")
    }
}

impl TestBlock {
    /// the output lines of the command
    fn out_lines(&self) -> Vec<String> {
        if self.detached {
            return vec![];
        }
        if self.heredoc.is_empty() {
            self.words.clone()
        } else {
            self.heredoc.clone()
        }
    }
    /// `$ ...` line plus `> ...` continuation lines
    fn command_lines(&self) -> Vec<String> {
        if self.detached {
            return vec!["$ sleep 0.1".to_string()];
        }
        if self.heredoc.is_empty() {
            return vec![format!("$ {}", self.command())];
        }
        let to = if self.config.contains("output_stream: stderr") { " >&2" } else { "" };
        let mut v = vec![format!("$ cat{to} <<'EOF'")];
        for l in &self.heredoc {
            v.push(format!("> {l}"));
        }
        v.push(if self.code != 0 { format!("> EOF\n> (exit {})", self.code) } else { "> EOF".to_string() });
        v.join("\n").split('\n').map(|s| s.to_string()).collect()
    }
    fn command(&self) -> String {
        // with `output_stream: stderr` the words are written to stderr (that is the judged stream)
        let to = if self.config.contains("output_stream: stderr") { " >&2" } else { "" };
        let mut parts: Vec<String> = self.words.iter().map(|w| format!("echo {}{to}", sh_word(w))).collect();
        if self.code != 0 {
            parts.push(format!("(exit {})", self.code));
        }
        if parts.is_empty() {
            if self.empty_cmd { String::new() } else { "true".into() }
        } else {
            parts.join("; ")
        }
    }
    /// fence length actually used: longer than any backtick run at the start of a body line
    fn fence_len(&self) -> usize {
        let longest = self.out_lines().iter().map(|l| l.chars().take_while(|c| *c == '`').count()).max().unwrap_or(0);
        self.fence.max(longest + 1).max(3)
    }
    fn lines(&self, lang: &str) -> Vec<String> {
        let fence = self.fence_len();
        let mut v = vec![format!("{}{lang}{}", "`".repeat(fence), self.config)];
        v.extend(self.comments.iter().cloned());
        v.extend(self.command_lines());
        if self.detached {
            v.push("`".repeat(fence));
            return v;
        }
        match self.outcome.as_str() {
            "wrong-output" => {
                for w in &self.out_lines() {
                    v.push(format!("not-{w}"));
                }
                v.push("extra wrong line".into());
            }
            "missing-output" => {}
            _ => v.extend(self.out_lines()),
        }
        match self.outcome.as_str() {
            "wrong-code" => v.push(format!("[{}]", if self.code == 7 { 8 } else { 7 })),
            _ => {
                if self.code != 0 {
                    v.push(format!("[{}]", self.code));
                }
            }
        }
        v.push("`".repeat(fence));
        v
    }
    fn passes(&self) -> bool {
        self.detached || self.outcome == "pass" || (self.outcome == "missing-output" && self.out_lines().is_empty())
    }
}

/// (all lines, index of lines that are outside scrut blocks)
fn render(case: &Case) -> (Vec<String>, Vec<String>) {
    let mut all = vec![];
    let mut outside = vec![];
    for b in &case.blocks {
        match b {
            Block::FrontMatter(ls) => {
                let mut v = vec!["---".to_string()];
                v.extend(ls.iter().cloned());
                v.push("---".into());
                outside.extend(v.iter().cloned());
                all.extend(v);
            }
            Block::Heading(h) => {
                outside.push(h.clone());
                all.push(h.clone());
            }
            Block::Para(ls) => {
                outside.extend(ls.iter().cloned());
                all.extend(ls.iter().cloned());
            }
            Block::Blank => {
                outside.push(String::new());
                all.push(String::new());
            }
            Block::Foreign { fence, lang, body } => {
                let mut v = vec![format!("{}{}", "`".repeat(*fence), lang)];
                v.extend(body.iter().cloned());
                // the closing fence is not always byte-identical to the opening backticks: a longer run and
                // trailing blanks close a block just as well, and are outside lines like any other
                let extra = match lang.as_str() {
                    "python" => "`",
                    "sh" => "   ",
                    _ => "",
                };
                v.push(format!("{}{extra}", "`".repeat(*fence)));
                outside.extend(v.iter().cloned());
                all.extend(v);
            }
            Block::Test(t) => all.extend(t.lines(&case.lang)),
        }
    }
    (all, outside)
}

fn to_text(lines: &[String], crlf: bool, final_newline: bool) -> String {
    let sep = if crlf { "\r\n" } else { "\n" };
    let mut s = lines.join(sep);
    if final_newline && !lines.is_empty() {
        s.push_str(sep);
    }
    s
}

#[derive(Debug, Clone, PartialEq)]
struct FoundBlock {
    info: String,
    body: Vec<String>,
}

/// split an updated document into outside lines and scrut blocks (harness's own reader for the
/// shapes the generator produces: fences of >= 3 backticks at line start, closed by a line of
/// only backticks at least as long)
fn split_doc(text: &str, lang: &str) -> (Vec<String>, Vec<FoundBlock>) {
    let norm = text.replace("\r\n", "\n");
    let mut lines: Vec<&str> = norm.split('\n').collect();
    if lines.last() == Some(&"") {
        lines.pop();
    }
    let mut outside = vec![];
    let mut blocks = vec![];
    let mut i = 0;
    // front matter
    if lines.first() == Some(&"---") {
        if let Some(end) = lines.iter().skip(1).position(|l| *l == "---") {
            for l in &lines[..=end + 1] {
                outside.push(l.to_string());
            }
            i = end + 2;
        }
    }
    while i < lines.len() {
        let l = lines[i];
        let ticks = l.chars().take_while(|c| *c == '`').count();
        if ticks >= 3 {
            let info = l[ticks..].to_string();
            let is_scrut = info.trim_start().split(|c: char| c.is_whitespace() || c == '{').next() == Some(lang);
            let mut j = i + 1;
            let mut body = vec![];
            while j < lines.len() {
                let t = lines[j].chars().take_while(|c| *c == '`').count();
                if t >= ticks && lines[j].trim_end().len() == t {
                    break;
                }
                body.push(lines[j].to_string());
                j += 1;
            }
            if is_scrut {
                blocks.push(FoundBlock { info, body });
            } else {
                outside.push(l.to_string());
                outside.extend(body.iter().cloned());
                if j < lines.len() {
                    outside.push(lines[j].to_string());
                }
            }
            i = j + 1;
        } else {
            outside.push(l.to_string());
            i += 1;
        }
    }
    (outside, blocks)
}

/// the bytes of a document: UTF-8, or one byte per character for a Latin-1 document
fn encode(text: &str, latin1: bool) -> Option<Vec<u8>> {
    if !latin1 {
        return Some(text.as_bytes().to_vec());
    }
    text.chars().map(|c| u8::try_from(c as u32).ok()).collect()
}

/// the text of a document file, decoded the way it was encoded
fn read_doc(path: &std::path::Path, latin1: bool) -> String {
    let bytes = std::fs::read(path).unwrap_or_default();
    if latin1 {
        bytes.iter().map(|b| *b as char).collect()
    } else {
        String::from_utf8_lossy(&bytes).to_string()
    }
}

const WORDS: &[&str] = &["alpha", "beta", "gamma", "delta", "x1", "hello-world", "ok", "zeta", "alpha", "beta", "```text", "````", "```", "`tick`", "two words"];
/// output lines that look like a command (continuation) and need escaping as well; only used as first output line of
/// tests whose expectations are wrong anyway (a `> ...` first expectation line would itself be read as a continuation)
const LOOKALIKES: &[&str] = &["> q\tx", "> \u{1b}[32mready\u{1b}[0m", "$ cost \\d+\ttab", "> plain quoted", "$ plain dollar"];
const HEREDOC_LINES: &[&str] = &["line one", "", "trail  ", "  lead", "last", "```sh", ""];

fn gen_test(rng: &mut Rng) -> TestBlock {
    let n = rng.below(4);
    let words: Vec<String> = (0..n).map(|_| rng.pick(WORDS).to_string()).collect();
    let code = *rng.pick(&[0u8, 0, 0, 3, 7]);
    let outcome = rng.pick(&["pass", "pass", "wrong-output", "wrong-code", "missing-output"]).to_string();
    let mut words = words;
    if (outcome == "wrong-output" || outcome == "missing-output") && rng.chance(1, 4) {
        words.insert(0, rng.pick(LOOKALIKES).to_string());
    }
    if rng.chance(1, 25) {
        // `$ ` and nothing else: a test that runs nothing; it passes, or stale expectation lines have to go
        return TestBlock {
            fence: 3,
            config: rng.pick(&["", "", " {timeout: 9s}"]).to_string(),
            comments: vec![],
            words: vec![],
            code: 0,
            outcome: rng.pick(&["pass", "wrong-output"]).to_string(),
            heredoc: vec![],
            detached: false,
            empty_cmd: true,
        };
    }
    TestBlock {
        fence: *rng.pick(&[3usize, 3, 3, 4, 5]),
        config: rng.pick(&["", "", " {timeout: 9s}", " {output_stream: combined}", " {keep_crlf: true, timeout: 1m}", " {output_stream: stderr}", " { }", " {}"]).to_string(),
        comments: (0..rng.below(3)).map(|i| format!("# comment {i}")).collect(),
        words,
        code,
        outcome,
        heredoc: if rng.chance(1, 5) { (0..1 + rng.below(4)).map(|_| rng.pick(HEREDOC_LINES).to_string()).collect() } else { vec![] },
        detached: false,
        empty_cmd: false,
    }
}

fn gen_detached(rng: &mut Rng) -> TestBlock {
    TestBlock {
        fence: *rng.pick(&[3usize, 3, 4]),
        config: rng.pick(&[" {detached: true}", " {detached: true}", " {detached: true, timeout: 9s}"]).to_string(),
        comments: (0..rng.below(2)).map(|i| format!("# background job {i}")).collect(),
        words: vec![],
        code: 0,
        outcome: "pass".into(),
        heredoc: vec![],
        detached: true,
        empty_cmd: false,
    }
}

/// prose with Latin-1 characters (one byte each in a Latin-1 file, which is then not UTF-8)
const LATIN1_LINES: &[&str] = &["Caf\u{e9} cr\u{e8}me, na\u{ef}ve fa\u{e7}ade \u{a9} 2024", "stray bytes: \u{80}\u{ff}\u{a0}\u{bf} end", "Gr\u{fc}\u{df}e aus K\u{f6}ln"];


impl Monitor for C10e {
    type Case = Case;

    fn id(&self) -> &'static str {
        "C10"
    }

    fn plan(&self, tier: Tier) -> Plan {
        let mut p = Plan::new(
            tier.pick(200, 5000),
            "e2e: Markdown documents rendered from a block list (front-matter, headings, paragraphs with inline code, blank lines, Latin-1 encoded documents (not UTF-8), `{detached: true}` tests at the first / a middle / the last position, foreign fenced blocks incl. one quoting a scrut fence, 1..5 scrut blocks with config / comments / fence length 3..5, text after the last test; LF or CRLF; with or without final newline), per-test outcome in {pass, wrong output, wrong exit code, missing output}; `scrut update --replace --assume-yes` twice, then `scrut test`; non-trivial = at least one failing test and >= 2 kinds of surrounding blocks; distinct = block-kind sequence x outcomes x crlf x final newline",
        );
        p.chunk = 2;
        p.case_timeout_s = 120;
        p.floor_nontrivial = tier.pick(40, 400);
        p.floor_buckets = vec![
            ("e2e:updated".into(), tier.pick(60, 1500)),
            ("e2e:second-update-identical".into(), tier.pick(60, 1500)),
            ("e2e:detached".into(), tier.pick(6, 150)),
            ("e2e:non-utf8-refused".into(), tier.pick(5, 120)),
        ];
        p
    }

    fn gen(&self, _env: &Env, _k: u64, rng: &mut Rng) -> Case {
        let mut blocks = vec![];
        if rng.chance(1, 3) {
            blocks.push(Block::FrontMatter(
                rng.pick(&[vec!["total_timeout: 2m"], vec!["defaults:", "  timeout: 30s"], vec!["# only a comment"]])
                    .iter()
                    .map(|s| s.to_string())
                    .collect(),
            ));
            blocks.push(Block::Blank);
        }
        let n_tests = 1 + rng.below(5);
        for t in 0..n_tests {
            // surrounding content
            for _ in 0..rng.below(4) {
                let b = match rng.below(6) {
                    0 => Block::Heading(format!("{} Heading {t}", "#".repeat(1 + rng.below(3)))),
                    1 => Block::Para(vec![format!("Some prose {t} with `inline code` and a `` double `` tick."), "Second line of the paragraph.".into()]),
                    2 => Block::Foreign {
                        fence: *rng.pick(&[3usize, 4]),
                        lang: rng.pick(&["python", "sh", "text"]).to_string(),
                        body: vec!["print(1)".into(), "  indented".into(), "".into(), "last".into()],
                    },
                    3 => Block::Foreign {
                        fence: 4,
                        lang: "markdown".into(),
                        body: vec!["```scrut".into(), "$ echo quoted".into(), "quoted".into(), "```".into()],
                    },
                    4 => Block::Para(vec![format!("Title paragraph {t}")]),
                    _ => Block::Para(vec!["- a list item".into(), "- another `item`".into()]),
                };
                blocks.push(b);
                blocks.push(Block::Blank);
            }
            blocks.push(Block::Test(gen_test(rng)));
            if rng.chance(3, 4) {
                blocks.push(Block::Blank);
            }
        }
        if rng.bool() {
            blocks.push(Block::Para(vec!["Text after the last test.".into(), "More trailing text.".into()]));
        }
        let final_newline = !rng.chance(1, 5);
        if !final_newline && matches!(blocks.last(), Some(Block::Blank)) {
            blocks.push(Block::Para(vec!["last line without newline".into()]));
        }
        // a detached test at the first, a middle or the last position (others follow / precede it)
        if rng.chance(1, 4) {
            let idx: Vec<usize> = blocks.iter().enumerate().filter(|(_, b)| matches!(b, Block::Test(_))).map(|(i, _)| i).collect();
            let at = match rng.below(3) {
                0 => idx[0],
                1 => idx[idx.len() / 2],
                _ => idx[idx.len() - 1],
            };
            let d = gen_detached(rng);
            if rng.bool() || idx.len() == 1 {
                // an additional block, so that tests before and behind it remain
                blocks.insert(at, Block::Test(d));
                if idx.len() == 1 && rng.bool() {
                    blocks.swap(at, at + 1);
                }
            } else {
                blocks[at] = Block::Test(d);
            }
        }
        // a document that is not UTF-8: Latin-1 bytes in prose, front-matter comment and a foreign block,
        // and at least one test whose output changed
        let latin1 = rng.chance(1, 6);
        if latin1 {
            let line = |rng: &mut Rng| rng.pick(LATIN1_LINES).to_string();
            match rng.below(3) {
                0 => blocks.insert(0, Block::Para(vec![line(rng)])),
                1 => blocks.push(Block::Para(vec![line(rng), "plain last line".into()])),
                _ => {
                    let at = rng.below(blocks.len() + 1);
                    blocks.insert(
                        at,
                        Block::Foreign {
                            fence: 3,
                            lang: "text".into(),
                            body: vec![line(rng), "ascii".into()],
                        },
                    );
                }
            }
            if let Some(Block::FrontMatter(ls)) = blocks.first_mut() {
                ls.push(format!("# {}", rng.pick(LATIN1_LINES)));
            } else if rng.bool() {
                blocks.insert(0, Block::Heading(format!("# {}", rng.pick(LATIN1_LINES))));
            }
            let failing = blocks.iter().any(|b| matches!(b, Block::Test(t) if !t.passes()));
            if !failing {
                for b in blocks.iter_mut() {
                    if let Block::Test(t) = b {
                        if !t.detached {
                            t.outcome = "wrong-output".into();
                            if t.words.is_empty() && t.heredoc.is_empty() {
                                t.words.push("changed".into());
                            }
                            break;
                        }
                    }
                }
            }
        }
        let lang = if rng.chance(1, 6) { "sh" } else { "scrut" }.to_string();
        if lang == "sh" {
            // the test language is `sh`: foreign `sh` blocks would become tests, and a ```scrut block is documentation
            for b in blocks.iter_mut() {
                if let Block::Foreign { lang: l, .. } = b {
                    if l == "sh" {
                        *l = "scrut".into();
                    }
                }
            }
        }
        Case {
            blocks,
            crlf: rng.chance(1, 6),
            final_newline,
            lang,
            with_unchanged_first: rng.chance(1, 5),
            latin1,
        }
    }

    fn check(&self, env: &Env, case: &Case) -> Checked {
        if !case.final_newline && matches!(case.blocks.last(), Some(Block::Blank)) {
            // "blank last line without final newline" renders the same bytes as "no blank line": ambiguous
            return Checked::out_of_scope("ambiguous rendering");
        }
        let (all, outside) = render(case);
        let text = to_text(&all, case.crlf, case.final_newline);
        let tests: Vec<&TestBlock> = case.blocks.iter().filter_map(|b| if let Block::Test(t) = b { Some(t) } else { None }).collect();
        let Some(doc_bytes) = encode(&text, case.latin1) else {
            return Checked::out_of_scope("a Latin-1 document cannot hold characters above U+00FF");
        };
        if case.latin1 && std::str::from_utf8(&doc_bytes).is_ok() {
            return Checked::out_of_scope("Latin-1 document without non-ASCII characters");
        }
        let sb = Sandbox::new(env, "c10e");
        sb.write_doc("doc.md", &doc_bytes);
        let wd = Duration::from_secs(60);
        let features = {
            let mut f = vec![];
            if case.blocks.iter().any(|b| matches!(b, Block::FrontMatter(_))) {
                f.push("front-matter");
            }
            if case.crlf {
                f.push("crlf");
            }
            if !case.final_newline {
                f.push("no-final-newline");
            }
            if case.blocks.iter().any(|b| matches!(b, Block::Foreign { .. })) {
                f.push("foreign-block");
            }
            if tests.iter().any(|t| t.fence > 3) {
                f.push("long-fence");
            }
            if tests.iter().any(|t| !t.config.is_empty()) {
                f.push("config");
            }
            if tests.iter().any(|t| !t.comments.is_empty()) {
                f.push("comments");
            }
            if tests.iter().any(|t| !t.heredoc.is_empty()) {
                f.push("multiline-command");
            }
            if case.lang != "scrut" {
                f.push("other-language");
            }
            if case.with_unchanged_first {
                f.push("two-documents");
            }
            if tests.iter().any(|t| t.config.contains("stderr")) {
                f.push("stderr-stream");
            }
            if tests.iter().any(|t| t.config.trim() == "{ }" || t.config.trim() == "{}") {
                f.push("blank-config");
            }
            if tests.iter().any(|t| t.out_lines().iter().any(|l| l.starts_with("```"))) {
                f.push("fence-like-output");
            }
            if tests.iter().any(|t| t.detached) {
                f.push("detached");
            }
            if case.latin1 {
                f.push("non-utf8");
            }
            if f.is_empty() {
                "plain".to_string()
            } else {
                f.join("+")
            }
        };
        let bad = |clause: &str, what: String, doc: &str| {
            Checked::violated(format!("C10/e2e/{clause}//{features}"), format!("{what}\n--- original ---\n{text}\n--- after ---\n{doc}"))
        };
        let any_failing = tests.iter().any(|t| !t.passes());
        // optional first document whose tests all pass: it must stay byte-identical and must not leak into doc.md
        let first_text = format!("# first document\n\n```{}\n$ echo first-doc-output\nfirst-doc-output\n```\n\ntrailer of the first document\n", case.lang);
        let mut update_args: Vec<String> = vec!["update".into(), "--replace".into(), "--assume-yes".into()];
        let mut test_args: Vec<String> = vec!["test".into()];
        if case.with_unchanged_first {
            sb.write_doc("a-first.md", first_text.as_bytes());
            update_args.push("a-first.md".into());
        }
        update_args.push("doc.md".into());
        test_args.push("doc.md".into());
        if case.lang != "scrut" {
            // the (hidden) flag takes a list: it goes behind the paths
            for a in [&mut update_args, &mut test_args] {
                a.push("--markdown-languages".into());
                a.push(case.lang.clone());
            }
        }
        let ua: Vec<&str> = update_args.iter().map(|s| s.as_str()).collect();
        let ta: Vec<&str> = test_args.iter().map(|s| s.as_str()).collect();
        let r1 = ScrutCmd::new(&sb, &ua).watchdog(wd).run(env);
        if r1.watchdog_fired {
            return Checked::inconclusive("watchdog (update 1)");
        }
        if case.latin1 && r1.code != Some(0) && r1.code != Some(101) && r1.signal.is_none() {
            // refusing a document that is not UTF-8 is fine as long as the file is left alone
            let now = std::fs::read(sb.docs.join("doc.md")).unwrap_or_default();
            if now != doc_bytes {
                return bad(
                    "refused-but-rewritten",
                    format!("update rc={:?} ({}) and the file changed", r1.code, r1.stderr_str().lines().take(3).collect::<Vec<_>>().join(" | ")),
                    &read_doc(&sb.docs.join("doc.md"), true),
                );
            }
            return Checked::held()
                .shape(true, hash_str(&format!("refused|{features}")))
                .bucket("e2e:non-utf8-refused")
                .bucket("near-miss");
        }
        if r1.code != Some(0) {
            return bad("update-failed", format!("first update rc={:?}: {}", r1.code, r1.stderr_str().lines().take(5).collect::<Vec<_>>().join(" | ")), "");
        }
        let after1 = read_doc(&sb.docs.join("doc.md"), case.latin1);
        let (out1, blocks1) = split_doc(&after1, &case.lang);
        if out1 != outside {
            let at = out1.iter().zip(outside.iter()).position(|(a, b)| a != b).unwrap_or(out1.len().min(outside.len()));
            if case.latin1 && out1.get(at).is_some_and(|l| l.contains("\u{ef}\u{bf}\u{bd}")) {
                // U+FFFD (EF BF BD) where a byte 0x80..0xFF stood: one cause, whatever else the document contains
                return Checked::violated(
                    "C10/e2e/non-utf8-bytes-replaced//non-utf8",
                    format!("update rewrote bytes outside scrut blocks of a document that is not UTF-8: expected {:?}, got {:?}\n--- original ---\n{text}\n--- after ---\n{after1}", outside.get(at), out1.get(at)),
                );
            }
            return bad(
                "outside-lines-changed",
                format!("lines outside scrut blocks differ at outside-line {at}: expected {:?}, got {:?} ({} vs {} lines)", outside.get(at), out1.get(at), outside.len(), out1.len()),
                &after1,
            );
        }
        if blocks1.len() != tests.len() {
            return bad("block-count", format!("{} scrut blocks before, {} after", tests.len(), blocks1.len()), &after1);
        }
        for (i, (t, fb)) in tests.iter().zip(blocks1.iter()).enumerate() {
            let want_info = format!("{}{}", case.lang, t.config);
            let squeeze = |s: &str| s.chars().filter(|c| !c.is_whitespace()).collect::<String>().replace("{}", "");
            if squeeze(&fb.info) != squeeze(&want_info) {
                return bad("language-or-config-lost", format!("block {i}: info string {:?}, expected {:?}", fb.info, want_info), &after1);
            }
            let comments: Vec<&String> = fb.body.iter().filter(|l| l.starts_with('#')).collect();
            if comments.len() != t.comments.len() || comments.iter().zip(t.comments.iter()).any(|(a, b)| *a != b) {
                return bad("comments-lost", format!("block {i}: comments {:?}, expected {:?}", comments, t.comments), &after1);
            }
            let cmd_lines = t.command_lines();
            let at = fb.body.iter().position(|l| *l == cmd_lines[0]);
            let same = at.is_some_and(|a| fb.body.len() >= a + cmd_lines.len() && fb.body[a..a + cmd_lines.len()] == cmd_lines[..]);
            if !same {
                return bad("command-changed", format!("block {i}: command lines {cmd_lines:?} not found in {:?}", fb.body), &after1);
            }
            if t.passes() {
                let orig = t.lines(&case.lang);
                let orig_body = &orig[1..orig.len() - 1];
                if fb.body != orig_body {
                    return bad("passing-test-rewritten", format!("block {i} passes but its body changed: {:?} -> {:?}", orig_body, fb.body), &after1);
                }
            }
        }
        if case.with_unchanged_first {
            let first_after = std::fs::read_to_string(sb.docs.join("a-first.md")).unwrap_or_default();
            if first_after != first_text {
                return bad("other-document-changed", format!("the all-passing first document was rewritten:\n{first_after}"), &after1);
            }
        }
        let r2 = ScrutCmd::new(&sb, &ua).watchdog(wd).run(env);
        if r2.watchdog_fired {
            return Checked::inconclusive("watchdog (update 2)");
        }
        let after2 = read_doc(&sb.docs.join("doc.md"), case.latin1);
        if r2.code != Some(0) || after2 != after1 {
            return bad("not-idempotent", format!("second update rc={:?} changed the document:\n--- second ---\n{after2}", r2.code), &after1);
        }
        let r3 = ScrutCmd::new(&sb, &ta).watchdog(wd).run(env);
        if r3.watchdog_fired {
            return Checked::inconclusive("watchdog (test)");
        }
        if r3.code != Some(0) {
            return bad("updated-document-fails", format!("scrut test on the updated document: rc={:?}", r3.code), &after1);
        }
        let kinds: Vec<String> = case
            .blocks
            .iter()
            .map(|b| match b {
                Block::FrontMatter(_) => "F".to_string(),
                Block::Heading(_) => "H".into(),
                Block::Para(_) => "P".into(),
                Block::Blank => "".into(),
                Block::Foreign { .. } => "C".into(),
                Block::Test(t) => format!("T:{}", t.outcome),
            })
            .collect();
        let distinct_kinds = {
            let mut k: Vec<&String> = kinds.iter().filter(|k| !k.is_empty() && !k.starts_with("T:")).collect();
            k.sort();
            k.dedup();
            k.len()
        };
        Checked::held()
            .shape(any_failing && distinct_kinds >= 2, hash_str(&format!("{}|{}|{}", kinds.join(","), case.crlf, case.final_newline)))
            .bucket("e2e:updated")
            .bucket("e2e:second-update-identical")
            .bucket(if any_failing { "e2e:had-failing-test" } else { "e2e:all-passing" })
            .bucket(if tests.iter().any(|t| t.detached) { "e2e:detached" } else { "e2e:no-detached" })
            .bucket(if case.latin1 { "e2e:non-utf8-updated" } else { "e2e:utf8" })
    }

    fn shrink(&self, case: &Case) -> Vec<Case> {
        let mut v = vec![];
        for i in 0..case.blocks.len() {
            let mut c = case.clone();
            c.blocks.remove(i);
            if c.blocks.iter().any(|b| matches!(b, Block::Test(_))) {
                v.push(c);
            }
        }
        if case.crlf {
            let mut c = case.clone();
            c.crlf = false;
            v.push(c);
        }
        if case.with_unchanged_first {
            let mut c = case.clone();
            c.with_unchanged_first = false;
            v.push(c);
        }
        if case.lang != "scrut" {
            let mut c = case.clone();
            c.lang = "scrut".into();
            v.push(c);
        }
        if !case.final_newline {
            let mut c = case.clone();
            c.final_newline = true;
            v.push(c);
        }
        if case.latin1 {
            let mut c = case.clone();
            c.latin1 = false;
            v.push(c);
        }
        for (i, b) in case.blocks.iter().enumerate() {
            if let Block::Test(t) = b {
                if t.detached {
                    if !t.comments.is_empty() || t.fence != 3 {
                        let mut c = case.clone();
                        let mut t2 = t.clone();
                        t2.comments = vec![];
                        t2.fence = 3;
                        c.blocks[i] = Block::Test(t2);
                        v.push(c);
                    }
                    continue;
                }
                if !t.config.is_empty() || !t.comments.is_empty() || t.fence != 3 {
                    let mut c = case.clone();
                    let mut t2 = t.clone();
                    t2.config = String::new();
                    t2.comments = vec![];
                    t2.fence = 3;
                    c.blocks[i] = Block::Test(t2);
                    v.push(c);
                }
                for w in 0..t.words.len() {
                    let mut c = case.clone();
                    let mut t2 = t.clone();
                    t2.words.remove(w);
                    c.blocks[i] = Block::Test(t2);
                    v.push(c);
                }
                for w in 0..t.heredoc.len() {
                    let mut c = case.clone();
                    let mut t2 = t.clone();
                    t2.heredoc.remove(w);
                    c.blocks[i] = Block::Test(t2);
                    v.push(c);
                }
            }
        }
        v
    }

    fn sample(&self, case: &Case) -> serde_json::Value {
        let (all, _) = render(case);
        json!({"crlf": case.crlf, "final_newline": case.final_newline, "latin1": case.latin1, "document": all.join("\n")})
    }
}
