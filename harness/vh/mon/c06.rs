//! C06 — Markdown: one test per scrut block, nothing dropped, never crashes (in-process part).
//!
//! Documents are rendered from a block list (`gen::docgen`), the expected `Vec<TestCase>` is
//! derived from the block list alone and compared with `MarkdownParser::parse`. A panic of the
//! parser is reported as `C06/panic/<file>/<message>`.

use serde_json::json;

use super::doccommon::*;
use crate::core::*;
use crate::e2e::Sandbox;
use crate::e2e::ScrutCmd;
use crate::gen::docgen::*;
use crate::rng::case_seed;
use crate::rng::hash_str;
use crate::rng::Rng;

pub struct C06;

/// what the binary says about a document: Ok(number of results) or Err(exit description)
fn run_binary(env: &Env, sb: &Sandbox, doc: &MdDoc, name: &str) -> Result<usize, String> {
    let path = sb.write_doc(name, doc.render().as_bytes());
    let run = ScrutCmd::new(sb, &["test", "--no-color", "-r", "json"]).arg(path.display().to_string()).run(env);
    run.kill_group();
    if run.watchdog_fired {
        return Err("watchdog".into());
    }
    match (run.code, run.signal) {
        (Some(0), _) | (Some(50), _) => run.json().map(|v| v.len()).map_err(|e| format!("exit {:?} without JSON: {e}", run.code)),
        (Some(c), _) => Err(format!("exit-{c}")),
        (None, s) => Err(format!("signal-{}", s.unwrap_or(0))),
    }
}

/// (clause, detail) of the binary's answer, None = as expected
fn e2e_verdict(exp: &Expected, got: &Result<usize, String>) -> Option<(String, String)> {
    match got {
        Err(e) if e == "watchdog" => None,
        Err(e) if e.starts_with("signal-") || e == "exit-101" => Some((format!("e2e/crash/{e}"), format!("scrut test died: {e}"))),
        Err(e) => {
            if exp.must_err.is_some() || exp.err_ok.is_some() {
                None
            } else {
                Some(("e2e/err-on-wellformed".into(), format!("scrut test rejects a well-formed document: {e}")))
            }
        }
        Ok(n) => {
            if let Some(k) = &exp.must_err {
                Some((format!("e2e/ok-on-invalid/{k}"), format!("scrut test reports {n} results for a document with {k}")))
            } else if *n < exp.tests.len() {
                Some(("e2e/missing-result".into(), format!("{} tests written, scrut test reports {n} results (exit status says nothing failed to run)", exp.tests.len())))
            } else if *n > exp.tests.len() {
                Some(("e2e/extra-result".into(), format!("{} tests written, scrut test reports {n} results", exp.tests.len())))
            } else {
                None
            }
        }
    }
}

fn e2e_sample(env: &Env) -> SidecarReport {
    let mut report = SidecarReport {
        label: "e2e: number of results of `scrut test -r json`".into(),
        ..Default::default()
    };
    if !env.scrut_bin.is_file() {
        report.inconclusive = Some(format!("scrut binary {:?} not found", env.scrut_bin));
        return report;
    }
    let sb = Sandbox::new(env, "c06-e2e");
    let n = env.tier.pick(40, 300);
    let mut rng = Rng::new(case_seed(env.seed, "C06-e2e", 0));
    let opts = MdOpts {
        undoc: false,
        need_test: true,
        ..MdOpts::default()
    };
    let mut seen: Vec<String> = vec![];
    let (mut ok, mut err) = (0u64, 0u64);
    for i in 0..n {
        let mut doc = gen_md(&mut rng, &opts);
        // the commands are really run: no configuration (wait / timeout / detached would sleep)
        doc.blocks.retain(|b| !matches!(b, Block::FrontMatter { .. }));
        for b in doc.blocks.iter_mut() {
            if let Block::Scrut(s) = b {
                s.cfg_text = None;
                s.cfg = Cfg::default();
                if s.ws == "cfg-trail" {
                    s.ws = String::new();
                }
            }
        }
        if md_wellformed(&doc).is_err() {
            continue;
        }
        let exp = expect_md(&doc);
        if exp.nocrash_only.is_some() {
            continue;
        }
        let got = run_binary(env, &sb, &doc, &format!("d{i}.md"));
        report.observed += 1;
        match &got {
            Ok(_) => ok += 1,
            Err(_) => err += 1,
        }
        if let Some((_, detail)) = e2e_verdict(&exp, &got) {
            // attribute with a few more runs of the binary
            let min = minimise(
                &doc,
                &shrink_wellformed,
                &|d| {
                    let e = expect_md(d);
                    e.nocrash_only.is_none() && e2e_verdict(&e, &run_binary(env, &sb, d, "min.md")).is_some()
                },
                40,
            );
            let e = expect_md(&min);
            let (clause, min_detail) = e2e_verdict(&e, &run_binary(env, &sb, &min, "min.md")).unwrap_or(("e2e/unstable".into(), detail.clone()));
            let sig = format!("C06/{clause}/{}", min.features().join("+"));
            if !seen.contains(&sig) {
                seen.push(sig.clone());
                report.violations.push((sig, format!("{min_detail}; minimal document: {:?}", min.render()), serde_json::to_value(&min).unwrap_or(serde_json::Value::Null)));
            }
        }
    }
    report.note = format!("{ok} documents ran (exit 0/50 with JSON), {err} were rejected; result counts compared with the block list");
    report
}

/// (clause, detail) of a document, `None` = held / not judged
fn verdict_of(doc: &MdDoc) -> Option<(String, String)> {
    let exp = expect_md(doc);
    let parsed = parse_md(&doc.render()).map(|t| t.iter().map(observe).collect::<Vec<_>>());
    judge(&exp, &parsed)
}

fn shrink_wellformed(doc: &MdDoc) -> Vec<MdDoc> {
    let mut v = shrink_md(doc);
    v.retain(|d| md_wellformed(d).is_ok());
    v
}

impl Monitor for C06 {
    type Case = MdDoc;

    fn id(&self) -> &'static str {
        "C06"
    }

    fn plan(&self, tier: Tier) -> Plan {
        let mut p = Plan::new(
            tier.pick(20_000, 1_000_000),
            "documents rendered from a block list (front-matter, headings, paragraphs, non-title lines, lines starting with backticks, foreign / bare fenced blocks, scrut blocks with config, comments, multi-line commands, syntax look-alike expectations, fence length 3-6, whitespace variants of the fence line, empty blocks, CRLF, truncation, undocumented constructs for the no-crash clause); non-trivial = >= 2 blocks of different kinds; distinct = hash of (block-kind sequence, malformation kinds)",
        );
        p.floor_nontrivial = tier.pick(1_000, 10_000);
        p.floor_buckets = vec![
            ("verdict:ok-equal".into(), tier.pick(1_000, 50_000)),
            ("verdict:err-required".into(), tier.pick(100, 5_000)),
            ("verdict:nocrash-only".into(), tier.pick(200, 10_000)),
            ("doc:unterminated".into(), tier.pick(200, 10_000)),
            ("doc:crlf".into(), tier.pick(200, 10_000)),
            ("tests>=2".into(), tier.pick(500, 25_000)),
            ("f:scrut:exp:gt-after-exit".into(), tier.pick(200, 10_000)),
            ("f:scrut:exp:big-bracket".into(), tier.pick(400, 20_000)),
            ("f:scrut:exp:cr-inside".into(), tier.pick(200, 10_000)),
            ("f:scrut:exp:indented-ticks-info".into(), tier.pick(150, 7_500)),
            ("f:scrut:exp:indented4-ticks".into(), tier.pick(150, 7_500)),
        ];
        p.assumptions = vec![
            "title: consecutive title-candidate lines are joined; without a candidate since the previous scrut block both \"\" and the previous title are accepted; after lines that Markdown reads as paragraph text but scrut does not (backticks, digits, emphasis), next to fenced blocks and after empty scrut blocks any in-order selection of the segment's lines is accepted".into(),
            "undocumented constructs (indented / tilde fences, setext headings, info strings with extra words, content before the `$` line, unbalanced `{`) are judged for the no-crash clause only".into(),
            "an unterminated construct is generated only as the last block (or as front-matter): an error or a complete list of tests is accepted".into(),
            "a fence of >= 4 backticks without language: an error, or a result that ignores the block, is accepted; a bare ``` block must be an error".into(),
        ];
        p
    }

    fn gen(&self, _env: &Env, _k: u64, rng: &mut Rng) -> MdDoc {
        gen_md(rng, &MdOpts::default())
    }

    fn check(&self, _env: &Env, case: &MdDoc) -> Checked {
        if let Err(e) = md_wellformed(case) {
            return Checked::out_of_scope(format!("block list does not describe its rendering: {e}"));
        }
        let exp = expect_md(case);
        let text = case.render();
        let kinds = case.kinds();
        let mut distinct_kinds = kinds.clone();
        distinct_kinds.sort();
        distinct_kinds.dedup();
        let nontrivial = distinct_kinds.len() >= 2;
        let shape = hash_str(&format!("{}|{}", kinds.join(","), case.malformation()));
        // a panic in here is a violation of the no-crash clause
        let parsed = match guarded("C06", "MarkdownParser::parse", || parse_md(&text)) {
            Ok(r) => r.map(|t| t.iter().map(observe).collect::<Vec<_>>()),
            Err(c) => return c.shape(nontrivial, shape),
        };
        if let Some((clause, detail)) = judge(&exp, &parsed) {
            // attribute: the smallest document that still contradicts the expected reading (any
            // clause), named by the clause it breaks and the features it is left with
            let min = minimise(case, &shrink_wellformed, &|d| quiet(|| verdict_of(d)).flatten().is_some(), 250);
            let (min_clause, min_detail) = quiet(|| verdict_of(&min)).flatten().unwrap_or((clause.clone(), detail.clone()));
            let sig = format!("C06/{min_clause}/{}", min.features().join("+"));
            return Checked::violated(
                sig,
                format!("{min_detail}; minimal document: {:?}; on the full document: {clause}: {}; parser on the full document: {}", min.render(), clip(&detail, 200), match &parsed {
                    Ok(t) => format!("Ok({} tests)", t.len()),
                    Err(e) => format!("Err({})", clip(e, 160)),
                }),
            )
            .shape(nontrivial, shape);
        }
        let mut c = Checked::held().shape(nontrivial, shape);
        let verdict = if exp.nocrash_only.is_some() {
            "nocrash-only"
        } else if exp.must_err.is_some() {
            "err-required"
        } else if parsed.is_err() {
            "err-accepted"
        } else {
            "ok-equal"
        };
        c = c.bucket(format!("verdict:{verdict}"));
        if verdict == "ok-equal" {
            let n = exp.tests.len();
            c = c.bucket(match n {
                0 => "tests=0",
                1 => "tests=1",
                _ => "tests>=2",
            });
        }
        if exp.err_ok.is_some() {
            // the near misses of this property: one line more and the document is complete
            c = c.bucket("doc:unterminated-or-bare-long").bucket("near-miss");
        }
        for f in case.features() {
            if f.contains("unterminated") {
                c = c.bucket("doc:unterminated");
            }
            if f == "crlf" {
                c = c.bucket("doc:crlf");
            }
            c = c.bucket(format!("f:{f}"));
        }
        c
    }

    fn shrink(&self, case: &MdDoc) -> Vec<MdDoc> {
        shrink_wellformed(case)
    }

    /// e2e sample: the number of results `scrut test -r json` reports for a document
    fn sidecar(&self, env: &Env) -> Vec<SidecarReport> {
        vec![e2e_sample(env)]
    }

    fn sample(&self, case: &MdDoc) -> serde_json::Value {
        let exp = expect_md(case);
        json!({
            "document": case.render(),
            "expected_tests": exp.tests.iter().map(|t| json!({"shell": t.shell, "line": t.line, "exit": t.exit, "expectations": t.exps.iter().map(|(l, _)| l.clone()).collect::<Vec<_>>()})).collect::<Vec<_>>(),
            "must_err": exp.must_err,
            "err_acceptable": exp.err_ok,
            "nocrash_only": exp.nocrash_only,
        })
    }
}
