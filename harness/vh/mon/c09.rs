//! C09 — generated tests pass against the very output they were generated from (in-process part).
//!
//! create : TestCase{no expectations}.validate(output) -> Outcome -> Markdown/CramTestCaseGenerator
//! update : a document with a partially right test -> parse -> validate(output) -> Outcome ->
//!          Markdown/CramUpdateGenerator::generate_update
//! convert: as update, but rendered with the other format's TestCaseGenerator (`update --convert`)
//! then: parse with the matching parser -> exactly one test, same shell expression,
//! `validate(output)` is Ok.
//!
//! The cause of a failure is attributed by minimising the output (dropping lines, simplifying
//! them) and naming the syntactic classes of the lines that are left.

use scrut::config::TestCaseConfig;
use scrut::escaping::Escaper;
use scrut::generators::cram::CramTestCaseGenerator;
use scrut::generators::cram::CramUpdateGenerator;
use scrut::generators::generator::TestCaseGenerator;
use scrut::generators::generator::UpdateGenerator;
use scrut::generators::markdown::MarkdownTestCaseGenerator;
use scrut::generators::markdown::MarkdownUpdateGenerator;
use scrut::outcome::Outcome;
use scrut::output::ExitStatus;
use scrut::output::Output;
use scrut::parsers::parser::ParserType;
use scrut::testcase::TestCase;
use scrut::testcase::TestCaseError;
use serde::Deserialize;
use serde::Serialize;
use serde_json::json;

use super::doccommon::*;
use crate::core::*;
use crate::rng::hash_str;
use crate::rng::show;
use crate::rng::Rng;

pub struct C09;

#[derive(Clone, Debug, Serialize, Deserialize)]
pub struct C09Case {
    /// bytes the command printed on stdout
    #[serde(with = "crate::rng::hexbytes")]
    pub out: Vec<u8>,
    pub code: i32,
    /// "md" | "cram": format of the document that is written
    pub format: String,
    /// "ascii" | "unicode"
    pub escaper: String,
    /// lines of the shell expression
    pub cmd: Vec<String>,
    /// "create" | "update" | "convert"
    pub mode: String,
    /// update / convert: expectation lines of the test before the update
    #[serde(default)]
    pub old: Vec<String>,
    #[serde(default)]
    pub old_code: Option<i32>,
    #[serde(default)]
    pub title: String,
}

// ---------------------------------------------------------------------------------------------
// line classes (harness-owned classification, no regex crate)
// ---------------------------------------------------------------------------------------------

fn split_out(out: &[u8]) -> Vec<&[u8]> {
    let mut v = vec![];
    let mut start = 0;
    for (i, b) in out.iter().enumerate() {
        if *b == b'\n' {
            v.push(&out[start..=i]);
            start = i + 1;
        }
    }
    if start < out.len() {
        v.push(&out[start..]);
    }
    v
}

const KINDS: &[(&str, &str)] = &[
    ("equal", "equal"),
    ("eq", "equal"),
    ("no-eol", "no-eol"),
    ("escaped", "escaped"),
    ("esc", "escaped"),
    ("glob", "glob"),
    ("gl", "glob"),
    ("regex", "regex"),
    ("re", "regex"),
];

/// tags of one output line (without its line feed)
fn line_tags(line: &[u8], first: bool) -> Vec<String> {
    let mut t: Vec<String> = vec![];
    let mut add = |s: &str| {
        if !t.iter().any(|x| x == s) {
            t.push(s.to_string())
        }
    };
    if line.is_empty() {
        return vec!["blank".to_string()];
    }
    if line.iter().all(|b| *b == b' ' || *b == b'\t') {
        add("ws-only");
    } else {
        if line[0] == b' ' || line[0] == b'\t' {
            add("lead-ws");
        }
        if matches!(line[line.len() - 1], b' ' | b'\t') {
            add("trail-ws");
        }
    }
    if line.len() >= 3 && line[0] == b'[' && line[line.len() - 1] == b']' && line[1..line.len() - 1].iter().all(|b| b.is_ascii_digit()) {
        add("exit-like");
    }
    if line.starts_with(b"$ ") {
        add("dollar");
    }
    if line.starts_with(b"> ") {
        add(if first { "gt-first" } else { "gt-later" });
    }
    if line.starts_with(b"```") {
        add("fence");
    } else if line[0] == b'`' {
        add("backtick");
    } else if line[0] == b' ' {
        // a run of >= 3 backticks behind leading blanks (a fence nested in a list item)
        let blanks = line.iter().take_while(|b| **b == b' ').count();
        if line[blanks..].starts_with(b"```") {
            add(if blanks <= 3 { "indented-fence" } else { "indented-fence4" });
        }
    }
    if line[0] == b'#' {
        add("hash");
    }
    // documented suffix: blank + "(" kind? quantifier? ")"
    if line[line.len() - 1] == b')' {
        if let Some(open) = line.iter().rposition(|b| *b == b'(') {
            let inner = &line[open + 1..line.len() - 1];
            let before_ok = open >= 1 && (line[open - 1] == b' ' || line[open - 1] == b'\t');
            if before_ok {
                let (name, quant) = match inner.last() {
                    Some(b'?') | Some(b'*') | Some(b'+') => (&inner[..inner.len() - 1], true),
                    _ => (inner, false),
                };
                let name = String::from_utf8_lossy(name).to_string();
                if name.is_empty() {
                    add(if quant { "suffix:quant" } else { "suffix:empty" });
                } else if let Some((_, canon)) = KINDS.iter().find(|(n, _)| *n == name) {
                    add(&format!("suffix:{canon}"));
                }
            }
        }
    }
    let mut plain_text = true;
    for (i, b) in line.iter().enumerate() {
        match *b {
            0 => add("nul"),
            0x1b => add("esc"),
            b'\t' => add("tab"),
            b'\r' => add(if i + 1 == line.len() { "cr-at-end" } else { "cr" }),
            0x7f => add("del"),
            b'\\' => add("backslash"),
            1..=0x1f => add("ctrl"),
            0x80..=0xff => plain_text = false,
            _ => {}
        }
    }
    if !plain_text {
        match std::str::from_utf8(line) {
            Err(_) => add("invalid-utf8"),
            Ok(s) => {
                for c in s.chars() {
                    let u = c as u32;
                    if (0x80..=0x9f).contains(&u) {
                        add("c1");
                    } else if matches!(u, 0xad | 0x200b..=0x200f | 0x202a..=0x202e | 0x2060..=0x2064 | 0xfeff) {
                        add("format-char");
                    } else if (0xe000..=0xf8ff).contains(&u) {
                        add("private-use");
                    } else if u >= 0x80 {
                        add("non-ascii");
                    }
                }
            }
        }
    }
    drop(add);
    if t.is_empty() {
        t.push("text".to_string());
    }
    t
}

/// coarser classes for signatures: which control character it was does not make a new cause
fn sig_tag(tag: &str) -> &str {
    match tag {
        "nul" | "esc" | "ctrl" | "del" | "tab" => "c0",
        "cr" | "cr-at-end" => "cr",
        "c1" | "format-char" | "private-use" => "unicode-other",
        t => t,
    }
}

/// kind of an expectation line the harness wrote into the document that is updated
fn old_kind(line: &str) -> String {
    for (suffix, name) in [(" (glob)", "pattern"), (" (glob+)", "multiline"), (" (regex)", "pattern"), (" (regex+)", "multiline"), (" (?)", "optional")] {
        if line.ends_with(suffix) {
            return name.to_string();
        }
    }
    "plain".to_string()
}

fn is_hostile(tag: &str) -> bool {
    !matches!(tag, "text" | "non-ascii")
}

/// tags of the whole case (sorted, unique); `text` lines do not count
fn case_tags(case: &C09Case) -> Vec<String> {
    let mut tags: Vec<String> = vec![];
    for (i, l) in split_out(&case.out).iter().enumerate() {
        let body = l.strip_suffix(b"\n").unwrap_or(l);
        for t in line_tags(body, i == 0) {
            if t != "text" && !tags.contains(&t) {
                tags.push(t);
            }
        }
    }
    if !case.out.is_empty() && !case.out.ends_with(b"\n") {
        tags.push("no-final-eol".into());
    }
    if case.out.is_empty() {
        tags.push("no-output".into());
    }
    tags.sort();
    tags
}

// ---------------------------------------------------------------------------------------------
// workload
// ---------------------------------------------------------------------------------------------

fn hostile_line(rng: &mut Rng, k: usize) -> Vec<u8> {
    let s: Vec<u8> = match rng.below(76) {
        64 => b" ```".to_vec(),
        65 => b"  ```sh".to_vec(),
        66 => b"   ````".to_vec(),
        67 => format!("  `````text {k}").into_bytes(),
        68 => b"    ```".to_vec(),
        69 => format!("     ```` x{k}").into_bytes(),
        70 => b"   ```".to_vec(),
        71 => b"      ``````python".to_vec(),
        // a printable non-ASCII blank before something that reads like a modifier (the parser's `\s` accepts it)
        72 => format!("5 MB{k}\u{a0}(re)").into_bytes(),
        73 => format!("foo{k}\u{3000}(glob)").into_bytes(),
        74 => format!("bar{k}\u{2003}(?)").into_bytes(),
        75 => format!("baz{k}\u{a0}(regex+)").into_bytes(),
        0 => b"".to_vec(),
        1 => b"   ".to_vec(),
        2 => b" ".to_vec(),
        3 => format!("  lead {k}").into_bytes(),
        4 => format!("trail {k}  ").into_bytes(),
        5 => b"[1]".to_vec(),
        6 => b"[0]".to_vec(),
        7 => format!("[{}]", rng.below(300)).into_bytes(),
        8 => format!("$ x{k}").into_bytes(),
        9 => format!("> x{k}").into_bytes(),
        10 => format!("foo{k} (glob)").into_bytes(),
        11 => format!("foo{k} (?)").into_bytes(),
        12 => format!("foo{k} (*)").into_bytes(),
        13 => format!("foo{k} (+)").into_bytes(),
        14 => format!("foo{k} ()").into_bytes(),
        15 => format!("foo{k} (escaped)").into_bytes(),
        16 => format!("foo{k} (esc)").into_bytes(),
        17 => format!("foo{k} (no-eol)").into_bytes(),
        18 => format!("foo{k} (equal)").into_bytes(),
        19 => format!("foo{k} (eq)").into_bytes(),
        20 => format!("foo{k} (regex)").into_bytes(),
        21 => format!("fo+{k} (re)").into_bytes(),
        22 => format!("foo{k}* (gl)").into_bytes(),
        23 => format!("foo{k} (glob+)").into_bytes(),
        24 => format!("a*b?c[{k}] (glob*)").into_bytes(),
        25 => format!("foo{k} (bar)").into_bytes(),
        26 => format!("foo{k}(glob)").into_bytes(),
        27 => format!("foo{k} (glob) ").into_bytes(),
        28 => b"```".to_vec(),
        29 => b"````".to_vec(),
        30 => b"```scrut".to_vec(),
        31 => format!("`````` six {k}").into_bytes(),
        32 => format!("`` two {k}").into_bytes(),
        33 => format!("# heading {k}").into_bytes(),
        34 => b"#".to_vec(),
        35 => format!("a\0b{k}").into_bytes(),
        36 => format!("\x1b[31mred{k}\x1b[0m").into_bytes(),
        37 => format!("c1 \u{85}\u{9b} {k}").into_bytes(),
        38 => format!("\x01\x02 ctrl {k}").into_bytes(),
        39 => format!("del\x7f{k}").into_bytes(),
        40 => format!("a\tb{k}").into_bytes(),
        41 => b"\xff\xfe".to_vec(),
        42 => b"caf\xe9 latin1".to_vec(),
        43 => b"cut \xe2\x82".to_vec(),
        44 => format!("C:\\temp\\x{k}").into_bytes(),
        45 => format!("a\\tb{k}").into_bytes(),
        46 => format!("C:\\temp\tx{k}").into_bytes(),
        47 => format!("\\\x01{k}").into_bytes(),
        48 => format!("a\rb{k}").into_bytes(),
        49 => format!("line{k}\r").into_bytes(),
        50 => format!("ünï 日本 🎉 {k}").into_bytes(),
        51 => format!("a\u{a0}b{k}").into_bytes(),
        52 => format!("rtl\u{200f}mark{k}").into_bytes(),
        53 => format!("zw\u{200b}sp{k}").into_bytes(),
        54 => format!("pua\u{e000}{k}").into_bytes(),
        55 => b"---".to_vec(),
        56 => format!("\\x41 literal {k}").into_bytes(),
        57 => format!("tab\t(glob)").into_bytes(),
        58 => format!("\x07bell (glob)").into_bytes(),
        59 => format!("foo{k} (no-eol) (glob)").into_bytes(),
        60 => format!("back\\slash{k} (escaped)").into_bytes(),
        61 => b"\t".to_vec(),
        62 => format!("$x{k}").into_bytes(),
        _ => format!("[{k}] x").into_bytes(),
    };
    s
}

fn benign_line(rng: &mut Rng, k: usize) -> Vec<u8> {
    match rng.below(4) {
        0 => format!("out {k}").into_bytes(),
        1 => format!("hello world {k}").into_bytes(),
        2 => format!("value={k}; path=/a/b").into_bytes(),
        _ => format!("line {k}").into_bytes(),
    }
}

fn is_benign(line: &[u8]) -> bool {
    line_tags(line, false) == vec!["text".to_string()] && line.iter().all(|b| (0x20..0x7f).contains(b))
}

fn gen_case(rng: &mut Rng) -> C09Case {
    let n = *rng.pick(&[0usize, 1, 1, 2, 2, 3, 3, 4, 5, 6]);
    let style = *rng.pick(&[0, 0, 0, 1, 1, 2]); // 0 = one hostile line among benign ones, 1 = mixed, 2 = all hostile
    let hostile_at = if n > 0 { rng.below(n) } else { 0 };
    let mut out = vec![];
    for i in 0..n {
        let hostile = match style {
            0 => i == hostile_at,
            1 => rng.bool(),
            _ => true,
        };
        let l = if hostile { hostile_line(rng, i + 1) } else { benign_line(rng, i + 1) };
        out.extend_from_slice(&l);
        out.push(b'\n');
    }
    if n > 0 && rng.chance(1, 6) {
        out.pop();
    }
    let code = if rng.chance(1, 2) { 0 } else { *rng.pick(&[1, 2, 3, 80, 127, 255, 42]) };
    let cmd = match rng.below(6) {
        0 => vec!["cat <<EOF".to_string(), "text".into(), "EOF".into()],
        1 => vec!["echo a \\".to_string(), "  b".into()],
        2 => vec!["cat <<EOF".to_string(), "".into(), "```".into(), "EOF".into()],
        3 => vec!["echo '$ x' '> y' '[1]'".to_string()],
        _ => vec!["bash script.sh".to_string()],
    };
    let mode = *rng.pick(&["create", "create", "update", "update", "convert"]);
    let mut old: Vec<String> = vec![];
    let mut old_code = None;
    if mode != "create" {
        for l in split_out(&out) {
            let body = l.strip_suffix(b"\n").unwrap_or(l);
            let complete = l.ends_with(b"\n");
            if is_benign(body) && complete {
                let s = String::from_utf8_lossy(body).to_string();
                let cut = s.len() / 2;
                match rng.below(9) {
                    0 | 1 | 2 => old.push(s),
                    3 => old.push(format!("{}* (glob)", &s[..cut])),
                    4 => old.push(format!("{}.* (regex)", &s[..cut].replace(['(', ')', '[', ']', '.', '*', '+', '?', '|', '\\', '{', '}', '^', '$'], "."))),
                    5 => old.push(format!("{s} (?)")),
                    6 => old.push(format!("{}* (glob+)", &s[..cut])),
                    7 => old.push(format!("changed {s}")),
                    _ => {}
                }
            } else if rng.chance(1, 5) {
                old.push("something else".to_string());
            }
            if rng.chance(1, 12) {
                old.push("stale line".to_string());
            }
        }
        old_code = match rng.below(4) {
            0 => None,
            1 => Some(code),
            2 => Some(7),
            _ => {
                if code == 0 {
                    None
                } else {
                    Some(code)
                }
            }
        };
    }
    let mut out = out;
    if mode != "create" && rng.chance(1, 16) {
        // repeated lines described by a kept multi-line original, a stale line, and a kept
        // original that matches the repeated lines as well
        let w = *rng.pick(&["lin", "ab", "row 1"]);
        let reps = rng.range(2, 3);
        out = vec![];
        for _ in 0..reps {
            out.extend_from_slice(w.as_bytes());
            out.push(b'\n');
        }
        out.extend_from_slice(b"tail\n");
        old = vec![
            if rng.bool() { format!("{w}* (glob+)") } else { format!("{w}.* (regex+)") },
            "stale line".to_string(),
            if rng.bool() { "..* (regex)".to_string() } else { "?* (glob)".to_string() },
        ];
        if rng.bool() {
            old.remove(1);
            old.insert(0, "stale line".to_string());
        }
        old_code = if code == 0 { None } else { Some(code) };
    }
    C09Case {
        out,
        code,
        format: rng.pick(&["md", "cram"]).to_string(),
        escaper: rng.pick(&["ascii", "unicode"]).to_string(),
        cmd,
        mode: mode.to_string(),
        old,
        old_code,
        title: if rng.chance(1, 5) { String::new() } else { "A title".to_string() },
    }
}

// ---------------------------------------------------------------------------------------------
// the round trip
// ---------------------------------------------------------------------------------------------

enum Rt {
    /// the law holds; `result` = what validating the original test said
    Pass { result: &'static str },
    /// the law is broken
    Fail { clause: &'static str, detail: String },
    /// not a case of this property
    Skip(String),
}

fn escaper_of(case: &C09Case) -> Escaper {
    if case.escaper == "ascii" {
        Escaper::Ascii
    } else {
        Escaper::Unicode
    }
}

fn result_kind(r: &Result<(), TestCaseError>) -> &'static str {
    match r {
        Ok(()) => "success",
        Err(TestCaseError::MalformedOutput(_)) => "malformed-output",
        Err(TestCaseError::InvalidExitCode { .. }) => "invalid-exit-code",
        Err(TestCaseError::InternalError(_)) => "internal-error",
        Err(TestCaseError::Timeout) => "timeout",
        Err(TestCaseError::Skipped) => "skipped",
    }
}

fn source_document(case: &C09Case, cram: bool) -> String {
    let mut d = String::new();
    let indent = if cram { "  " } else { "" };
    if cram {
        if !case.title.is_empty() {
            d.push_str(&format!("{}\n", case.title));
        }
    } else {
        if !case.title.is_empty() {
            d.push_str(&format!("# {}\n\n", case.title));
        }
        d.push_str("```scrut\n");
    }
    for (i, c) in case.cmd.iter().enumerate() {
        d.push_str(&format!("{indent}{}{c}\n", if i == 0 { "$ " } else { "> " }));
    }
    for o in &case.old {
        d.push_str(&format!("{indent}{o}\n"));
    }
    if let Some(c) = case.old_code {
        d.push_str(&format!("{indent}[{c}]\n"));
    }
    if !cram {
        d.push_str("```\n");
    }
    d
}

fn roundtrip(case: &C09Case) -> Rt {
    let out_cram = case.format == "cram";
    let output = Output {
        stdout: case.out.clone().into(),
        stderr: vec![].into(),
        exit_code: ExitStatus::Code(case.code),
    };
    let shell = case.cmd.join("\n");
    if case.cmd.is_empty() || case.cmd.iter().any(|c| c.contains('\n')) || case.cmd[0].is_empty() {
        return Rt::Skip("shell expression lines must be single lines".into());
    }
    let (generated, result) = match case.mode.as_str() {
        "create" => {
            let testcase = TestCase {
                title: case.title.clone(),
                shell_expression: shell.clone(),
                expectations: vec![],
                exit_code: None,
                line_number: 0,
                config: if out_cram { TestCaseConfig::default_cram() } else { TestCaseConfig::default_markdown() },
            };
            let result = testcase.validate(&output);
            let kind = result_kind(&result);
            let outcome = Outcome {
                location: None,
                output: output.clone(),
                testcase,
                format: if out_cram { ParserType::Cram } else { ParserType::Markdown },
                escaping: escaper_of(case),
                result,
            };
            let g = if out_cram {
                CramTestCaseGenerator::default().generate_testcases(&[&outcome])
            } else {
                MarkdownTestCaseGenerator::default().generate_testcases(&[&outcome])
            };
            (g, kind)
        }
        "update" | "convert" => {
            // the document that is updated: in the written format (update) or in the other one (convert)
            let src_cram = if case.mode == "update" { out_cram } else { !out_cram };
            let doc = source_document(case, src_cram);
            let parsed = if src_cram { parse_cram(&doc) } else { parse_md(&doc) };
            let tests = match parsed {
                Ok(t) => t,
                Err(e) => return Rt::Skip(format!("source document does not parse: {e}")),
            };
            if tests.len() != 1 || tests[0].shell_expression != shell {
                return Rt::Skip("source document is not one test with the given command".into());
            }
            let testcase = tests[0].clone();
            let result = testcase.validate(&output);
            let kind = result_kind(&result);
            if result.is_ok() {
                return Rt::Skip("test passes: nothing is rewritten".into());
            }
            let outcome = Outcome {
                location: Some("doc".into()),
                output: output.clone(),
                testcase,
                format: if src_cram { ParserType::Cram } else { ParserType::Markdown },
                escaping: escaper_of(case),
                result,
            };
            let g = if case.mode == "update" {
                if out_cram {
                    CramUpdateGenerator::default().generate_update(&doc, &[&outcome])
                } else {
                    MarkdownUpdateGenerator::default().generate_update(&doc, &[&outcome])
                }
            } else if out_cram {
                CramTestCaseGenerator::default().generate_testcases(&[&outcome])
            } else {
                MarkdownTestCaseGenerator::new("scrut").generate_testcases(&[&outcome])
            };
            (g, kind)
        }
        other => return Rt::Skip(format!("unknown mode {other}")),
    };
    let generated = match generated {
        Ok(g) => g,
        Err(e) => {
            return Rt::Fail {
                clause: "generate-err",
                detail: format!("generator returned an error for an exit-code outcome: {e:#}"),
            }
        }
    };
    let reparsed = if out_cram { parse_cram(&generated) } else { parse_md(&generated) };
    let tests = match reparsed {
        Ok(t) => t,
        Err(e) => {
            return Rt::Fail {
                clause: "not-reparsed",
                detail: format!("generated document does not parse ({}): {:?}", clip(&e, 160), generated),
            }
        }
    };
    if tests.len() != 1 {
        return Rt::Fail {
            clause: "test-count",
            detail: format!("generated document parses to {} tests: {:?}", tests.len(), generated),
        };
    }
    if tests[0].shell_expression != shell {
        return Rt::Fail {
            clause: "shell-expression",
            detail: format!("shell expression {:?} came back as {:?}: {:?}", shell, tests[0].shell_expression, generated),
        };
    }
    match tests[0].validate(&output) {
        Ok(()) => Rt::Pass { result },
        Err(e) => Rt::Fail {
            clause: "not-passing",
            detail: format!("generated test fails against its own output ({}): {:?}", result_kind(&Err(e)), generated),
        },
    }
}

fn fails(case: &C09Case) -> Option<&'static str> {
    match quiet(|| roundtrip(case)) {
        Some(Rt::Fail { clause, .. }) => Some(clause),
        _ => None,
    }
}

fn rebuild(lines: &[Vec<u8>], final_eol: bool) -> Vec<u8> {
    let mut out = vec![];
    for l in lines {
        out.extend_from_slice(l);
        out.push(b'\n');
    }
    if !final_eol && !out.is_empty() {
        out.pop();
    }
    out
}

fn shrink_case(case: &C09Case) -> Vec<C09Case> {
    let mut v = vec![];
    let final_eol = case.out.is_empty() || case.out.ends_with(b"\n");
    let lines: Vec<Vec<u8>> = split_out(&case.out).iter().map(|l| l.strip_suffix(b"\n").unwrap_or(l).to_vec()).collect();
    let with_lines = |ls: &[Vec<u8>], eol: bool| C09Case {
        out: rebuild(ls, eol),
        ..case.clone()
    };
    for i in 0..lines.len() {
        let mut l2 = lines.clone();
        l2.remove(i);
        v.push(with_lines(&l2, final_eol));
    }
    if !final_eol {
        v.push(with_lines(&lines, true));
    }
    if case.code != 0 {
        v.push(C09Case { code: 0, ..case.clone() });
    }
    if case.code != 0 && case.old_code.is_some() {
        v.push(C09Case {
            code: 0,
            old_code: None,
            ..case.clone()
        });
    }
    if case.cmd.len() > 1 || case.cmd[0] != "true" {
        v.push(C09Case {
            cmd: vec!["true".into()],
            ..case.clone()
        });
    }
    for i in 0..case.old.len() {
        let mut o = case.old.clone();
        o.remove(i);
        v.push(C09Case { old: o, ..case.clone() });
    }
    if case.old_code.is_some() {
        v.push(C09Case {
            old_code: None,
            ..case.clone()
        });
    }
    if !case.title.is_empty() {
        v.push(C09Case {
            title: String::new(),
            ..case.clone()
        });
    }
    if case.mode == "convert" {
        v.push(C09Case {
            mode: "update".into(),
            ..case.clone()
        });
    }
    if case.mode == "update" && case.old.is_empty() && case.old_code.is_none() {
        v.push(C09Case {
            mode: "create".into(),
            ..case.clone()
        });
    }
    // simpler lines: drop control / non-ASCII bytes, drop a trailing "(...)" group, trim blanks,
    // replace the text before the suffix by "x"
    for i in 0..lines.len() {
        let l = &lines[i];
        let mut variants: Vec<Vec<u8>> = vec![];
        let stripped: Vec<u8> = l.iter().copied().filter(|b| (0x20..0x7f).contains(b)).collect();
        if &stripped != l {
            variants.push(stripped);
        }
        if l.ends_with(b")") {
            if let Some(p) = l.iter().rposition(|b| *b == b'(') {
                let mut head = l[..p].to_vec();
                while head.last() == Some(&b' ') {
                    head.pop();
                }
                variants.push(head);
                if p >= 2 && &l[..p - 1] != b"x" {
                    let mut short = b"x ".to_vec();
                    short.extend_from_slice(&l[p..]);
                    variants.push(short);
                }
            }
        }
        let trimmed: Vec<u8> = String::from_utf8_lossy(l).trim().as_bytes().to_vec();
        if std::str::from_utf8(l).is_ok() && &trimmed != l {
            variants.push(trimmed);
        }
        if l.len() > 1 {
            // halves
            variants.push(l[..l.len() / 2].to_vec());
            variants.push(l[l.len() / 2..].to_vec());
        }
        let own = line_tags(l, i == 0);
        for var in variants {
            if var.contains(&b'\n') {
                continue;
            }
            // a simpler line must not bring in a class the line did not have
            if line_tags(&var, i == 0).iter().any(|t| t != "text" && !own.contains(t)) {
                continue;
            }
            let mut l2 = lines.clone();
            l2[i] = var;
            v.push(with_lines(&l2, final_eol));
        }
    }
    v
}

fn text_sample(case: &C09Case) -> serde_json::Value {
    json!({
        "output": show(&case.out),
        "exit_code": case.code,
        "format": case.format,
        "escaper": case.escaper,
        "mode": case.mode,
        "command": case.cmd,
        "old_expectations": case.old,
        "old_exit_code": case.old_code,
        "line_classes": case_tags(case),
    })
}

impl Monitor for C09 {
    type Case = C09Case;

    fn id(&self) -> &'static str {
        "C09"
    }

    fn plan(&self, tier: Tier) -> Plan {
        let mut p = Plan::new(
            tier.pick(20_000, 1_500_000),
            "cases = (output bytes built from line classes {text, blank, whitespace-only, leading/trailing blanks, [n], `$ x`, `> x`, every documented suffix and near misses, backtick runs and fences, `#`, NUL/ESC/C0/C1/DEL, invalid UTF-8, backslashes next to control bytes, CR, CRLF, format characters}, with/without final newline; exit code; format md|cram; escaper ascii|unicode; mode create|update|convert with partially right old expectations); non-trivial = the output has >= 1 line of a hostile class and the round trip was carried out; distinct = hash of (sorted line classes, format, escaper, mode, code = 0?)",
        );
        p.floor_nontrivial = tier.pick(500, 5_000);
        p.floor_buckets = vec![
            ("roundtrip:md".into(), tier.pick(1000, 80_000)),
            ("roundtrip:cram".into(), tier.pick(1000, 80_000)),
            ("mode:create".into(), tier.pick(1000, 80_000)),
            ("mode:update".into(), tier.pick(500, 40_000)),
            ("mode:convert".into(), tier.pick(250, 20_000)),
            ("escaper:ascii".into(), tier.pick(1000, 80_000)),
            ("escaper:unicode".into(), tier.pick(1000, 80_000)),
            ("original:malformed-output".into(), tier.pick(1000, 80_000)),
            ("original:invalid-exit-code".into(), tier.pick(250, 20_000)),
            ("kept-original-expectation".into(), tier.pick(150, 10_000)),
            ("cls:indented-fence".into(), tier.pick(200, 12_000)),
            ("cls:indented-fence4".into(), tier.pick(100, 6_000)),
        ];
        p.assumptions = vec![
            "in-process part only: `scrut create` / `scrut update` end to end are not driven here".into(),
            "output_stream = stderr is not in the property's quantifier and not generated".into(),
            "an update of a test that already passes rewrites nothing and is skipped (C10 covers it)".into(),
            "the shell expression has no trailing line feed".into(),
        ];
        p
    }

    fn gen(&self, _env: &Env, _k: u64, rng: &mut Rng) -> C09Case {
        gen_case(rng)
    }

    fn check(&self, _env: &Env, case: &C09Case) -> Checked {
        let tags = case_tags(case);
        let hostile = tags.iter().any(|t| is_hostile(t));
        let shape = hash_str(&format!("{}|{}|{}|{}|{}", tags.join(","), case.format, case.escaper, case.mode, case.code == 0));
        let rt = match guarded("C09", "generate / parse / validate", || roundtrip(case)) {
            Ok(rt) => rt,
            Err(c) => return c.shape(hostile, shape),
        };
        match rt {
            Rt::Skip(reason) => Checked::out_of_scope(reason).bucket("skip"),
            Rt::Pass { result } => {
                let mut c = Checked::held()
                    .shape(hostile, shape)
                    .bucket(format!("roundtrip:{}", case.format))
                    .bucket(format!("mode:{}", case.mode))
                    .bucket(format!("escaper:{}", case.escaper))
                    .bucket(format!("original:{result}"))
                    .bucket(if case.code == 0 { "code=0" } else { "code!=0" });
                if case.mode != "create" && result == "malformed-output" && !case.old.is_empty() {
                    c = c.bucket("kept-original-expectation");
                }
                if hostile {
                    // a hostile line that survived the round trip is the near miss of this property
                    c = c.bucket("near-miss");
                }
                for t in &tags {
                    c = c.bucket(format!("cls:{t}"));
                }
                c
            }
            Rt::Fail { clause, detail } => {
                // attribute: smallest variant that still breaks the law (any clause), then name what is left
                let min = minimise(case, &shrink_case, &|c| fails(c).is_some(), 100);
                let min_clause = fails(&min).unwrap_or(clause);
                let mut coarse: Vec<&str> = vec![];
                let min_tags = case_tags(&min);
                for t in &min_tags {
                    let c = sig_tag(t);
                    if !coarse.contains(&c) {
                        coarse.push(c);
                    }
                }
                coarse.sort();
                let mut cause = coarse.join("+");
                if cause.is_empty() {
                    cause = "text".into();
                }
                if min.code != 0 {
                    cause.push_str("+code!=0");
                }
                if min.cmd.len() > 1 || min.cmd[0] != "true" {
                    cause.push_str("+command");
                }
                if !min.old.is_empty() || min.old_code.is_some() {
                    // which kinds of kept originals are involved
                    let mut kinds: Vec<String> = min.old.iter().map(|o| old_kind(o)).collect();
                    kinds.sort();
                    kinds.dedup();
                    if min.old_code.is_some() {
                        kinds.push("code".into());
                    }
                    cause.push_str(&format!("+old:{}", kinds.join(",")));
                }
                // does the other escaper show the same failure?
                let other = C09Case {
                    escaper: if min.escaper == "ascii" { "unicode".into() } else { "ascii".into() },
                    ..min.clone()
                };
                let esc = if fails(&other).is_some() { "any".to_string() } else { min.escaper.clone() };
                let mode = if min.mode == "create" { "create" } else { min.mode.as_str() };
                let sig = format!("C09/{min_clause}/format={}/mode={mode}/escaper={esc}/{cause}", min.format);
                Checked::violated(sig, format!("{detail}; minimal case: {}", text_sample(&min))).shape(hostile, shape)
            }
        }
    }

    fn shrink(&self, case: &C09Case) -> Vec<C09Case> {
        shrink_case(case)
    }

    fn sample(&self, case: &C09Case) -> serde_json::Value {
        text_sample(case)
    }
}
