//! C17 — configuration survives render -> parse (one-line `{...}` form on a code fence,
//! serde_yaml block form for test case and document configuration, front-matter, and the test
//! case generator that `create` / `--convert markdown` use to write the `{...}` form).

use std::time::Duration;

use scrut::config::DocumentConfig;
use scrut::config::TestCaseConfig;
use scrut::config::DEFAULT_DOCUMENT_TIMEOUT;
use scrut::escaping::Escaper;
use scrut::generators::generator::TestCaseGenerator;
use scrut::generators::markdown::MarkdownTestCaseGenerator;
use scrut::outcome::Outcome;
use scrut::parsers::markdown::MarkdownParser;
use scrut::parsers::parser::ParserType;
use scrut::testcase::TestCase;
use scrut::parsers::parser::Parser;
use serde::Deserialize;
use serde::Serialize;
use serde_json::json;
use serde_json::Value;

use super::cfgcommon::*;
use crate::core::*;
use crate::rng::hash_bytes;
use crate::rng::Rng;

pub struct C17;

#[derive(Clone, Debug, Default, Serialize, Deserialize)]
pub struct C17Case {
    /// "one-liner" | "block-testcase" | "block-document" | "front-matter" | "generator"
    pub mode: String,
    /// generator mode: the outcome comes from a Cram document (format defaults of Cram)
    #[serde(default)]
    pub cram: bool,
    /// used by one-liner and block-testcase
    #[serde(default)]
    pub tc: TcCfg,
    /// used by block-document and front-matter
    #[serde(default)]
    pub doc: DocCfg,
}

impl C17Case {
    fn uses_doc(&self) -> bool {
        self.mode == "block-document" || self.mode == "front-matter"
    }
}

struct Fail {
    clause: &'static str,
    keys: Vec<String>,
    detail: String,
}

/// keys on which two real test case configurations differ
fn diff_tc(got: &TestCaseConfig, want: &TestCaseConfig) -> Vec<String> {
    let mut v = vec![];
    if got.output_stream != want.output_stream {
        v.push("output_stream".into());
    }
    if got.keep_crlf != want.keep_crlf {
        v.push("keep_crlf".into());
    }
    if got.timeout != want.timeout {
        v.push("timeout".into());
    }
    if got.detached != want.detached {
        v.push("detached".into());
    }
    if got.skip_document_code != want.skip_document_code {
        v.push("skip_document_code".into());
    }
    if got.strip_ansi_escaping != want.strip_ansi_escaping {
        v.push("strip_ansi_escaping".into());
    }
    if got.wait != want.wait {
        v.push("wait".into());
    }
    if got.environment != want.environment {
        v.push("environment".into());
    }
    v
}

/// `None` and the documented default are the same document timeout (the renderer omits the default)
fn norm_total(t: Option<Duration>) -> Duration {
    t.unwrap_or(Duration::from_secs(DEFAULT_DOCUMENT_TIMEOUT))
}

fn diff_doc(got: &DocumentConfig, want: &DocumentConfig) -> Vec<String> {
    let mut v = vec![];
    if got.append != want.append {
        v.push("append".into());
    }
    if got.prepend != want.prepend {
        v.push("prepend".into());
    }
    if got.shell != want.shell {
        v.push("shell".into());
    }
    if norm_total(got.total_timeout) != norm_total(want.total_timeout) {
        v.push("total_timeout".into());
    }
    for k in diff_tc(&got.defaults, &want.defaults) {
        v.push(format!("defaults.{k}"));
    }
    v
}

fn differs(keys: Vec<String>, rendered: &str, got: String, want: String) -> Result<(), Fail> {
    if keys.is_empty() {
        return Ok(());
    }
    Err(Fail {
        clause: "differs",
        detail: format!("rendered as {rendered:?}; read back {got}; original {want}; differing keys {keys:?}"),
        keys,
    })
}

/// the four observed round trips; `Ok(rendered text)` if the configuration came back equal
fn run(case: &C17Case) -> Result<String, Fail> {
    let base_empty = Some(TestCaseConfig::empty());
    match case.mode.as_str() {
        "one-liner" => {
            let real = case.tc.to_real();
            let line = real.to_yaml_one_liner();
            let text = format!("```scrut {line}\n$ true\n```\n");
            let parser = MarkdownParser::new(maker(), &["scrut"], base_empty);
            let (_, tests) = parser.parse(&text).map_err(|e| Fail {
                clause: "parse-error",
                keys: vec![],
                detail: format!("one-liner {line:?} is rejected by the Markdown parser: {e:#}"),
            })?;
            if tests.len() != 1 {
                return Err(Fail {
                    clause: "test-count",
                    keys: vec![],
                    detail: format!("one-liner {line:?}: the document has {} tests instead of 1", tests.len()),
                });
            }
            differs(diff_tc(&tests[0].config, &real), &line, format!("{:?}", tests[0].config), format!("{real:?}"))?;
            Ok(line)
        }
        "block-testcase" => {
            let real = case.tc.to_real();
            let y = serde_yaml::to_string(&real).map_err(|e| Fail {
                clause: "render-error",
                keys: vec![],
                detail: format!("serde_yaml::to_string fails: {e}"),
            })?;
            let back: TestCaseConfig = serde_yaml::from_str(&y).map_err(|e| Fail {
                clause: "parse-error",
                keys: vec![],
                detail: format!("rendered YAML {y:?} is rejected: {e}"),
            })?;
            differs(diff_tc(&back, &real), &y, format!("{back:?}"), format!("{real:?}"))?;
            Ok(y)
        }
        "block-document" | "front-matter" => {
            let real = case.doc.to_real();
            let y = serde_yaml::to_string(&real).map_err(|e| Fail {
                clause: "render-error",
                keys: vec![],
                detail: format!("serde_yaml::to_string fails: {e}"),
            })?;
            let back: DocumentConfig = if case.mode == "block-document" {
                serde_yaml::from_str(&y).map_err(|e| Fail {
                    clause: "parse-error",
                    keys: vec![],
                    detail: format!("rendered YAML {y:?} is rejected: {e}"),
                })?
            } else {
                let text = format!("---\n{y}---\n\n```scrut\n$ true\n```\n");
                let parser = MarkdownParser::new(maker(), &["scrut"], base_empty);
                let (doc, tests) = parser.parse(&text).map_err(|e| Fail {
                    clause: "parse-error",
                    keys: vec![],
                    detail: format!("front-matter {y:?} is rejected by the Markdown parser: {e:#}"),
                })?;
                if tests.len() != 1 {
                    return Err(Fail {
                        clause: "test-count",
                        keys: vec![],
                        detail: format!("front-matter {y:?}: the document has {} tests instead of 1", tests.len()),
                    });
                }
                doc
            };
            differs(diff_doc(&back, &real), &y, format!("{back:?}"), format!("{real:?}"))?;
            Ok(y)
        }
        "generator" => {
            let original = generator_original(case);
            let outcome = Outcome {
                location: None,
                output: ("", "", Some(0)).into(),
                testcase: TestCase {
                    title: "generated".into(),
                    shell_expression: "true".into(),
                    expectations: vec![],
                    exit_code: None,
                    line_number: 1,
                    config: original.to_real(),
                },
                format: if case.cram { ParserType::Cram } else { ParserType::Markdown },
                escaping: Escaper::default(),
                result: Ok(()),
            };
            let text = MarkdownTestCaseGenerator::default().generate_testcases(&[&outcome]).map_err(|e| Fail {
                clause: "render-error",
                keys: vec![],
                detail: format!("generate_testcases fails: {e:#}"),
            })?;
            // a generated .md document is read with the Markdown format defaults, or with the Cram
            // defaults as base under `--cram-compat` (file_parser.rs)
            let md_default = TcCfg {
                output_stream: Some("stdout".into()),
                skip_document_code: Some(80),
                ..Default::default()
            };
            let cram_default = TcCfg {
                output_stream: Some("combined".into()),
                keep_crlf: Some(true),
                skip_document_code: Some(80),
                ..Default::default()
            };
            for cram_base in [false, true] {
                let (clause_parse, clause_count, clause_differs) = if cram_base {
                    ("parse-error-under-cram-base", "test-count-under-cram-base", "differs-under-cram-base")
                } else {
                    ("parse-error", "test-count", "differs")
                };
                let parser = MarkdownParser::new(maker(), &["scrut"], if cram_base { Some(cram_default.to_real()) } else { None });
                let (_, tests) = parser.parse(&text).map_err(|e| Fail {
                    clause: clause_parse,
                    keys: vec![],
                    detail: format!("generated document {text:?} is rejected by the Markdown parser: {e:#}"),
                })?;
                if tests.len() != 1 {
                    return Err(Fail {
                        clause: clause_count,
                        keys: vec![],
                        detail: format!("generated document {text:?} has {} tests instead of 1", tests.len()),
                    });
                }
                let keys: Vec<String> = match TcCfg::from_real(&tests[0].config) {
                    None => vec!["unrepresentable".to_string()],
                    Some(got) => {
                        if !cram_base {
                            let (g, w) = (effective(&got), effective(&original));
                            TC_KEYS.iter().filter(|k| !g.key_eq(&w, k)).map(|k| k.to_string()).collect()
                        } else {
                            // the writer may leave out what equals the Markdown default (the reader's
                            // other base then gives it another meaning: inherent); everything that is
                            // written down differently from the Markdown default must keep its
                            // effective value under the Cram base as well
                            let g = effective(&model_tc(&[&got, &cram_default]));
                            let w = effective(&model_tc(&[&original, &cram_default]));
                            TC_KEYS
                                .iter()
                                .filter(|k| !original.key_eq(&md_default, k))
                                .filter(|k| !g.key_eq(&w, k))
                                .map(|k| k.to_string())
                                .collect()
                        }
                    }
                };
                if !keys.is_empty() {
                    return Err(Fail {
                        clause: clause_differs,
                        detail: format!(
                            "generated document {text:?} read with the {} base gives {:?}; original {:?}; differing effective keys {keys:?}",
                            if cram_base { "Cram (--cram-compat)" } else { "Markdown" },
                            tests[0].config,
                            original.to_real()
                        ),
                        keys,
                    });
                }
            }
            Ok(text)
        }
        _ => Ok(String::new()),
    }
}

/// generator mode: the configuration of the original test case = its own keys over the defaults of
/// the format it was written in (Markdown: stdout; Cram: combined, CRLF kept; both: skip code 80)
fn generator_original(case: &C17Case) -> TcCfg {
    let format_default = if case.cram {
        TcCfg {
            output_stream: Some("combined".into()),
            keep_crlf: Some(true),
            skip_document_code: Some(80),
            ..Default::default()
        }
    } else {
        TcCfg {
            output_stream: Some("stdout".into()),
            skip_document_code: Some(80),
            ..Default::default()
        }
    };
    model_tc(&[&case.tc, &format_default])
}

/// effective values: an unset key means what the documentation says it means
fn effective(t: &TcCfg) -> TcCfg {
    TcCfg {
        output_stream: Some(t.output_stream.clone().unwrap_or_else(|| "stdout".into())),
        keep_crlf: Some(t.keep_crlf.unwrap_or(false)),
        detached: Some(t.detached.unwrap_or(false)),
        skip_document_code: Some(t.skip_document_code.unwrap_or(80)),
        strip_ansi_escaping: Some(t.strip_ansi_escaping.unwrap_or(false)),
        ..t.clone()
    }
}

// ---------------------------------------------------------------------------------------------
// string features (for signatures, buckets and shapes)

const YAML_ESCAPE_LETTERS: &str = "0abtnvfre \"/\\N_LPxuU\t";

/// (feature, canonical probe string)
const FEATURES: &[(&str, &str)] = &[
    ("empty", ""),
    ("dquote", "a\"b"),
    ("squote", "a'b"),
    ("backslash-escape", "a\\tb"),
    ("backslash", "a\\sb"),
    ("colon-space", "a: b"),
    ("colon-end", "a:"),
    ("colon", "a:b"),
    ("lbrace", "a{b"),
    ("rbrace", "a}b"),
    ("lbracket", "a[b"),
    ("rbracket", "a]b"),
    ("comma", "a,b"),
    ("space-hash", "a #b"),
    ("lead-hash", "#a"),
    ("hash", "a#b"),
    ("lead-colon", ":a"),
    ("lead-space", " a"),
    ("trail-space", "a "),
    ("inner-space", "a b"),
    ("non-ascii", "\u{e4}"),
    ("lead-star", "*a"),
    ("lead-amp", "&a"),
    ("lead-bang", "!a"),
    ("lead-pipe", "|a"),
    ("lead-gt", ">a"),
    ("lead-percent", "%a"),
    ("lead-at", "@a"),
    ("lead-backtick", "`a"),
    ("lead-dash-space", "- a"),
    ("lead-question-space", "? a"),
    ("lead-lbrace", "{a"),
    ("lead-lbracket", "[a"),
    ("lead-dquote", "\"a"),
    ("lead-squote", "'a"),
    ("kw-null", "null"),
    ("kw-tilde", "~"),
    ("kw-bool", "true"),
    ("kw-yes-no", "no"),
    ("numeric", "123"),
    ("dollar", "a$b"),
    ("equals", "a=b"),
    ("multi-line", "a\nb"),
    ("line-dashes", "a\n---\nb"),
    ("line-dots", "a\n...\nb"),
    ("line-lead-blank", "a\n  b"),
    ("first-line-lead-blank", "  a\nb"),
    ("trail-newline", "a\n"),
    ("lead-newline", "\na"),
    ("empty-line", "a\n\nb"),
    ("nel", "a\u{85}b"),
    ("line-separator", "a \u{2028} b"),
    ("paragraph-separator", "a \u{2029} b"),
    ("bom", "a\u{feff}b"),
    ("del", "a\u{7f}b"),
    ("c1-control", "a\u{9b}b"),
    ("noncharacter", "a\u{ffff}b"),
];

/// coarse class of a feature: what a correct renderer has to do about it. Signatures carry the class
/// (one root cause = one signature), details carry the feature.
fn class_of(feature: &str) -> &'static str {
    match feature {
        "dquote" | "backslash" | "backslash-escape" => "dquote-unsafe",
        "non-ascii" => "non-ascii",
        "nel" | "line-separator" | "paragraph-separator" => "unicode-line-break",
        "del" | "c1-control" | "noncharacter" => "yaml-non-printable",
        "bom" => "bom",
        "multi-line" | "line-dashes" | "line-dots" | "line-lead-blank" | "first-line-lead-blank" | "trail-newline" | "lead-newline" | "empty-line" => "multi-line",
        "squote" | "colon" | "hash" | "inner-space" | "dollar" | "equals" => "plain-safe",
        _ => "plain-unsafe",
    }
}

const CLASS_ORDER: [&str; 8] = ["unicode-line-break", "yaml-non-printable", "bom", "multi-line", "dquote-unsafe", "plain-unsafe", "non-ascii", "plain-safe"];

fn probe_of(feature: &str) -> &'static str {
    FEATURES.iter().find(|(f, _)| *f == feature).map(|(_, p)| *p).unwrap_or("a")
}

fn features(s: &str) -> Vec<&'static str> {
    let mut v = vec![];
    let mut add = |f: &'static str, cond: bool| {
        if cond {
            v.push(f);
        }
    };
    let chars: Vec<char> = s.chars().collect();
    let first = chars.first().copied();
    add("empty", s.is_empty());
    add("dquote", s.contains('"'));
    add("squote", s.contains('\''));
    let mut esc = false;
    let mut other = false;
    for (i, c) in chars.iter().enumerate() {
        if *c == '\\' {
            match chars.get(i + 1) {
                Some(n) if YAML_ESCAPE_LETTERS.contains(*n) => esc = true,
                _ => other = true,
            }
        }
    }
    add("backslash-escape", esc);
    add("backslash", other);
    add("colon-space", s.contains(": "));
    add("colon-end", s.ends_with(':'));
    add("colon", s.contains(':'));
    add("lbrace", s.contains('{'));
    add("rbrace", s.contains('}'));
    add("lbracket", s.contains('['));
    add("rbracket", s.contains(']'));
    add("comma", s.contains(','));
    add("space-hash", s.contains(" #"));
    add("lead-hash", first == Some('#'));
    add("hash", s.contains('#'));
    add("lead-colon", first == Some(':'));
    add("lead-space", first == Some(' '));
    add("trail-space", s.ends_with(' '));
    add("inner-space", s.trim_matches(' ').contains(' '));
    add("non-ascii", !s.is_ascii());
    add("lead-star", first == Some('*'));
    add("lead-amp", first == Some('&'));
    add("lead-bang", first == Some('!'));
    add("lead-pipe", first == Some('|'));
    add("lead-gt", first == Some('>'));
    add("lead-percent", first == Some('%'));
    add("lead-at", first == Some('@'));
    add("lead-backtick", first == Some('`'));
    add("lead-dash-space", s.starts_with("- ") || s == "-");
    add("lead-question-space", s.starts_with("? ") || s == "?");
    add("lead-lbrace", first == Some('{'));
    add("lead-lbracket", first == Some('['));
    add("lead-dquote", first == Some('"'));
    add("lead-squote", first == Some('\''));
    let low = s.to_ascii_lowercase();
    add("kw-null", low == "null");
    add("kw-tilde", s == "~");
    add("kw-bool", low == "true" || low == "false");
    add("kw-yes-no", matches!(low.as_str(), "yes" | "no" | "on" | "off" | "y" | "n"));
    add(
        "numeric",
        !s.is_empty() && first.is_some_and(|c| c.is_ascii_digit() || "+-.".contains(c)) && s.chars().any(|c| c.is_ascii_digit()) && s.chars().all(|c| c.is_ascii_hexdigit() || "+-._xXoe".contains(c)),
    );
    add("dollar", s.contains('$'));
    add("equals", s.contains('='));
    add("nel", s.contains('\u{85}'));
    add("line-separator", s.contains('\u{2028}'));
    add("paragraph-separator", s.contains('\u{2029}'));
    add("bom", s.contains('\u{feff}'));
    add("del", s.contains('\u{7f}'));
    add("c1-control", s.chars().any(|c| matches!(c, '\u{80}'..='\u{84}' | '\u{86}'..='\u{9f}')));
    add("noncharacter", s.contains('\u{ffff}') || s.contains('\u{fffe}'));
    if s.contains('\n') {
        let lines: Vec<&str> = s.split('\n').collect();
        let inner = &lines[..lines.len() - if s.ends_with('\n') { 1 } else { 0 }];
        add("multi-line", true);
        add("line-dashes", lines.iter().any(|l| *l == "---"));
        add("line-dots", lines.iter().any(|l| *l == "..."));
        add("line-lead-blank", lines.iter().skip(1).any(|l| l.starts_with(' ')));
        add("first-line-lead-blank", lines[0].starts_with(' '));
        add("trail-newline", s.ends_with('\n'));
        add("lead-newline", s.starts_with('\n'));
        add("empty-line", inner.iter().skip(1).any(|l| l.is_empty()));
    }
    v
}

/// coarse duration class used in signatures (one root cause = one signature)
fn duration_sig(ms: u64, is_total: bool) -> &'static str {
    if is_total && ms / 1000 == DEFAULT_DOCUMENT_TIMEOUT {
        return if ms % 1000 == 0 { "default-900s" } else { "default-900s-plus-fraction" };
    }
    if ms % 1000 != 0 {
        "with-milliseconds"
    } else {
        "whole-seconds"
    }
}

fn duration_class(ms: u64, is_total: bool) -> &'static str {
    if is_total && ms / 1000 == DEFAULT_DOCUMENT_TIMEOUT {
        return if ms % 1000 == 0 { "default-900s" } else { "default-900s-plus-fraction" };
    }
    let frac = ms % 1000 != 0;
    match (ms / 1000, frac) {
        (0, _) => "sub-second",
        (1..=59, false) => "seconds",
        (1..=59, true) => "seconds-ms",
        (60..=3599, false) => "minutes",
        (60..=3599, true) => "minutes-ms",
        (3600..=86_399, false) => "hours",
        (3600..=86_399, true) => "hours-ms",
        (86_400..=2_629_999, _) => "days",
        (2_630_000..=31_557_599, _) => "months",
        _ => "years",
    }
}

// ---------------------------------------------------------------------------------------------
// key paths, restriction to one key, probes

fn set_paths(case: &C17Case) -> Vec<String> {
    if case.uses_doc() {
        let mut v: Vec<String> = ["append", "prepend", "shell", "total_timeout"]
            .iter()
            .filter(|k| case.doc.is_set(k))
            .map(|k| k.to_string())
            .collect();
        v.extend(case.doc.defaults.set_keys().iter().map(|k| format!("defaults.{k}")));
        v
    } else {
        case.tc.set_keys().iter().map(|k| k.to_string()).collect()
    }
}

fn restrict(case: &C17Case, path: &str) -> C17Case {
    let mut c = C17Case {
        mode: case.mode.clone(),
        cram: case.cram,
        ..Default::default()
    };
    if case.uses_doc() {
        match path {
            "append" => c.doc.append = case.doc.append.clone(),
            "prepend" => c.doc.prepend = case.doc.prepend.clone(),
            "shell" => c.doc.shell = case.doc.shell.clone(),
            "total_timeout" => c.doc.total_timeout_ms = case.doc.total_timeout_ms,
            p => {
                if let Some(k) = p.strip_prefix("defaults.") {
                    c.doc.defaults = case.doc.defaults.only(k);
                }
            }
        }
    } else {
        c.tc = case.tc.only(path);
    }
    c
}

/// copy of the case with one key unset
fn without_path(case: &C17Case, path: &str) -> C17Case {
    let mut c = case.clone();
    if case.uses_doc() {
        match path {
            "append" => c.doc.append.clear(),
            "prepend" => c.doc.prepend.clear(),
            "shell" => c.doc.shell = None,
            "total_timeout" => c.doc.total_timeout_ms = None,
            p => {
                if let Some(k) = p.strip_prefix("defaults.") {
                    c.doc.defaults = case.doc.defaults.without(k);
                }
            }
        }
    } else {
        c.tc = case.tc.without(path);
    }
    c
}

fn tc_of<'a>(case: &'a C17Case, path: &str) -> (&'a TcCfg, String) {
    match path.strip_prefix("defaults.") {
        Some(k) => (&case.doc.defaults, k.to_string()),
        None => (&case.tc, path.to_string()),
    }
}

/// the strings carried by one key: (role, text)
fn strings_of(case: &C17Case, path: &str) -> Vec<(&'static str, String)> {
    if case.uses_doc() {
        match path {
            "append" => return case.doc.append.iter().map(|s| ("path", s.clone())).collect(),
            "prepend" => return case.doc.prepend.iter().map(|s| ("path", s.clone())).collect(),
            "shell" => return case.doc.shell.iter().map(|s| ("path", s.clone())).collect(),
            "total_timeout" => return vec![],
            _ => {}
        }
    }
    let (tc, key) = tc_of(case, path);
    match key.as_str() {
        "environment" => tc.environment.iter().flat_map(|(k, v)| [("name", k.clone()), ("value", v.clone())]).collect(),
        "wait" => tc.wait.iter().filter_map(|w| w.path.clone()).map(|p| ("path", p)).collect(),
        _ => vec![],
    }
}

fn all_strings(case: &C17Case) -> Vec<String> {
    set_paths(case).iter().flat_map(|p| strings_of(case, p)).map(|(_, s)| s).collect()
}

/// a configuration that carries exactly one string `s` in the position (path, role)
fn probe_case(mode: &str, cram: bool, path: &str, role: &str, s: &str) -> C17Case {
    let mut c = C17Case {
        mode: mode.to_string(),
        cram,
        ..Default::default()
    };
    let mut tc = TcCfg::default();
    let key = path.strip_prefix("defaults.").unwrap_or(path);
    match (key, role) {
        ("environment", "name") => {
            tc.environment.insert(s.to_string(), "v".into());
        }
        ("environment", _) => {
            tc.environment.insert("V".into(), s.to_string());
        }
        ("wait", _) => {
            tc.wait = Some(WaitCfg {
                timeout_ms: 1000,
                path: Some(s.to_string()),
            })
        }
        ("append", _) => c.doc.append = vec![s.to_string()],
        ("prepend", _) => c.doc.prepend = vec![s.to_string()],
        ("shell", _) => c.doc.shell = Some(s.to_string()),
        _ => {}
    }
    if path.starts_with("defaults.") {
        c.doc.defaults = tc;
    } else if !c.uses_doc() {
        c.tc = tc;
    }
    c
}

/// structural cause of a failure of the one-key configuration `r`
fn isolate_feature(r: &C17Case, path: &str, clause: &str) -> String {
    let items = strings_of(r, path);
    if items.is_empty() {
        // value class of a scalar key
        let (tc, key) = tc_of(r, path);
        return match (path, key.as_str()) {
            ("total_timeout", _) if r.uses_doc() => duration_sig(r.doc.total_timeout_ms.unwrap_or(0), true).to_string(),
            (_, "timeout") => duration_sig(tc.timeout_ms.unwrap_or(0), false).to_string(),
            (_, "wait") => format!("timeout:{}", duration_sig(tc.wait.as_ref().map(|w| w.timeout_ms).unwrap_or(0), false)),
            (_, "output_stream") => tc.output_stream.clone().unwrap_or_default(),
            (_, "skip_document_code") => "code".into(),
            _ => "value".into(),
        };
    }
    for same_clause in [true, false] {
        for class in CLASS_ORDER {
            for (role, s) in &items {
                for f in features(s).into_iter().filter(|f| class_of(f) == class) {
                    let pc = probe_case(&r.mode, r.cram, path, role, probe_of(f));
                    if let Err(pf) = run(&pc) {
                        if !same_clause || pf.clause == clause {
                            return format!("{role}:{class}");
                        }
                    }
                }
            }
        }
    }
    // no single feature reproduces it; is it the timeout of a wait?
    let (tc, key) = tc_of(r, path);
    if key == "wait" {
        let mut c = r.clone();
        let w = WaitCfg {
            timeout_ms: tc.wait.as_ref().map(|w| w.timeout_ms).unwrap_or(1000),
            path: None,
        };
        if path.starts_with("defaults.") {
            c.doc.defaults.wait = Some(w.clone());
        } else {
            c.tc.wait = Some(w.clone());
        }
        if run(&c).is_err() {
            return format!("timeout:{}", duration_sig(w.timeout_ms, false));
        }
    }
    "other".to_string()
}

// ---------------------------------------------------------------------------------------------
// generators

const PLAIN: &[&str] = &["bar", "zoing", "/tmp/wait", "the-wait-path", "x1", "some/file/name", "v", "a.b-c_d", "/usr/bin/env"];
const SPECIAL: &[&str] = &[
    "\"", "\\", ":", ": ", "{", "}", ",", "#", " #", "'", "[", "]", "\\t", "\\n", "\\x41", "\\\\", "\\\"", "*", "&", "!", "|", ">", "%", "@", "`", "- ",
    "? ", "~", "null", "true", "no", "123", "1.5", "0x1f", "$HOME", "=", " ", "  ", "a b", "\u{fc}", "\u{65e5}\u{672c}", "e\u{301}", "\u{1f602}", "\u{a0}",
    "\u{df}", "\u{416}", "\u{3000}", "\u{e9}t\u{e9}",
];
const NAMES: &[&str] = &["FOO", "BAR", "BAZ", "foo", "_x1", "a", "PATH", "LC_ALL", "My_Var9", "A", "__"];
const ODD_NAMES: &[&str] = &["null", "true", "no", "y", "NULL", "On", "False", "n"];

pub fn gen_string(rng: &mut Rng) -> String {
    match rng.weighted(&[35, 3, 62]) {
        0 => rng.pick(PLAIN).to_string(),
        1 => String::new(),
        _ => {
            let mut s = String::new();
            if rng.chance(1, 8) {
                s.push(' ');
            }
            for _ in 0..1 + rng.below(3) {
                if rng.chance(1, 3) {
                    s.push_str(*rng.pick(PLAIN));
                } else {
                    s.push_str(*rng.pick(SPECIAL));
                }
            }
            if rng.chance(1, 8) {
                s.push(' ');
            }
            s
        }
    }
}

const ML_LINES: &[&str] = &[
    "---", "...", "--- ", " ---", "----", "title: x", "body", "", "  indented", " one blank", "- item", "# comment", "key: |", "a \"quoted\" word",
    "back\\slash", "\u{fc}ber", "trailing blank ", "{not: flow}", "```", "```scrut", "$ echo", "%YAML 1.2",
];

const ODD_CHARS: &[char] = &['\u{85}', '\u{2028}', '\u{2029}', '\u{feff}', '\u{7f}', '\u{80}', '\u{9b}', '\u{9f}', '\u{ffff}', '\u{fffe}'];

/// now and then a character that YAML readers treat as a line break or refuse unless escaped
fn with_odd(s: String, rng: &mut Rng) -> String {
    if !rng.chance(1, 12) {
        return s;
    }
    let mut chars: Vec<char> = s.chars().collect();
    let at = rng.below(chars.len() + 1);
    chars.insert(at, *rng.pick(ODD_CHARS));
    chars.into_iter().collect()
}

/// a value of two to four lines, with or without a final line break
pub fn gen_multiline(rng: &mut Rng) -> String {
    let n = 2 + rng.below(3);
    let mut lines: Vec<&str> = (0..n).map(|_| *rng.pick(ML_LINES)).collect();
    if rng.chance(1, 3) {
        let at = rng.below(n);
        lines[at] = "---";
    }
    let mut s = lines.join("\n");
    match rng.below(6) {
        0 | 1 => s.push('\n'),
        2 => s.push_str("\n\n"),
        _ => {}
    }
    s
}

fn gen_name(rng: &mut Rng) -> String {
    if rng.chance(1, 20) {
        rng.pick(ODD_NAMES).to_string()
    } else {
        rng.pick(NAMES).to_string()
    }
}

/// 1 ms .. 400 days, millisecond granularity
pub fn gen_duration_ms(rng: &mut Rng, near_default: bool) -> u64 {
    if near_default && rng.chance(1, 4) {
        return *rng.pick(&[900_000u64, 900_001, 900_500, 900_999, 899_999, 901_000]);
    }
    const DAY: u64 = 86_400_000;
    match rng.below(9) {
        0 => 1 + rng.below(999) as u64,
        1 => 1000 * (1 + rng.below(59) as u64),
        2 => 60_000 * (1 + rng.below(59) as u64) + 1000 * rng.below(60) as u64,
        3 => 3_600_000 * (1 + rng.below(23) as u64) + 60_000 * rng.below(60) as u64,
        4 => DAY * (1 + rng.below(400) as u64),
        5 => DAY * rng.below(400) as u64 + 1 + rng.below(DAY as usize - 1) as u64,
        6 => *rng.pick(&[1u64, 999, 1000, 1001, 59_999, 60_000, 3_600_000, DAY, 30 * DAY, 31 * DAY, 365 * DAY, 366 * DAY, 400 * DAY, 2_629_800_000, 31_557_600_000]),
        7 => 1000 * (1 + rng.below(100_000) as u64) + rng.below(1000) as u64,
        _ => 1 + rng.below((400 * DAY) as usize - 1) as u64,
    }
}

pub fn gen_tc(rng: &mut Rng) -> TcCfg {
    let mask = rng.below(256);
    let mask = if rng.chance(1, 6) { 1 << rng.below(8) } else { mask };
    let mut t = TcCfg::default();
    if mask & 1 != 0 {
        t.output_stream = Some(STREAMS[rng.below(3)].to_string());
    }
    if mask & 2 != 0 {
        t.keep_crlf = Some(rng.bool());
    }
    if mask & 4 != 0 {
        t.timeout_ms = Some(gen_duration_ms(rng, false));
    }
    if mask & 8 != 0 {
        t.detached = Some(rng.bool());
    }
    if mask & 16 != 0 {
        t.skip_document_code = Some(if rng.chance(1, 4) { *rng.pick(&[0, 1, 80, 255]) } else { rng.below(256) as i32 });
    }
    if mask & 32 != 0 {
        t.strip_ansi_escaping = Some(rng.bool());
    }
    if mask & 64 != 0 {
        t.wait = Some(WaitCfg {
            timeout_ms: gen_duration_ms(rng, false),
            path: if rng.bool() { Some(with_odd(gen_string(rng), rng)) } else { None },
        });
    }
    if mask & 128 != 0 {
        for _ in 0..1 + rng.below(3) {
            let name = gen_name(rng);
            let value = if rng.chance(1, 5) { gen_multiline(rng) } else { with_odd(gen_string(rng), rng) };
            t.environment.insert(name, value);
        }
    }
    t
}

pub fn gen_doc(rng: &mut Rng) -> DocCfg {
    let mask = if rng.chance(1, 6) { 1 << rng.below(5) } else { rng.below(32) };
    let mut d = DocCfg::default();
    if mask & 1 != 0 {
        d.append = (0..1 + rng.below(3)).map(|_| gen_string(rng)).collect();
    }
    if mask & 2 != 0 {
        d.prepend = (0..1 + rng.below(3)).map(|_| gen_string(rng)).collect();
    }
    if mask & 4 != 0 {
        d.shell = Some(gen_string(rng));
    }
    if mask & 8 != 0 {
        d.total_timeout_ms = Some(gen_duration_ms(rng, true));
    }
    if mask & 16 != 0 {
        d.defaults = gen_tc(rng);
    }
    d
}

fn shrink_string(s: &str) -> Vec<String> {
    let chars: Vec<char> = s.chars().collect();
    let mut v = vec![];
    if chars.len() > 3 {
        v.push(chars[..chars.len() / 2].iter().collect());
        v.push(chars[chars.len() / 2..].iter().collect());
    }
    for i in 0..chars.len() {
        let mut c = chars.clone();
        c.remove(i);
        v.push(c.into_iter().collect());
    }
    v
}

fn shrink_tc(t: &TcCfg) -> Vec<TcCfg> {
    let mut out = vec![];
    for k in t.set_keys() {
        out.push(t.without(k));
    }
    if t.environment.len() > 1 {
        for name in t.environment.keys() {
            let mut c = t.clone();
            c.environment.remove(name);
            out.push(c);
        }
    }
    for (name, value) in &t.environment {
        for s in shrink_string(value) {
            let mut c = t.clone();
            c.environment.insert(name.clone(), s);
            out.push(c);
        }
        if name != "V" && !t.environment.contains_key("V") {
            let mut c = t.clone();
            c.environment.remove(name);
            c.environment.insert("V".into(), value.clone());
            out.push(c);
        }
    }
    if let Some(w) = &t.wait {
        if let Some(p) = &w.path {
            let mut c = t.clone();
            c.wait = Some(WaitCfg {
                timeout_ms: w.timeout_ms,
                path: None,
            });
            out.push(c);
            for s in shrink_string(p) {
                let mut c = t.clone();
                c.wait = Some(WaitCfg {
                    timeout_ms: w.timeout_ms,
                    path: Some(s),
                });
                out.push(c);
            }
        }
        if w.timeout_ms != 1000 {
            let mut c = t.clone();
            c.wait = Some(WaitCfg {
                timeout_ms: 1000,
                path: w.path.clone(),
            });
            out.push(c);
        }
    }
    if t.timeout_ms.is_some_and(|ms| ms != 1000) {
        let mut c = t.clone();
        c.timeout_ms = Some(1000);
        out.push(c);
    }
    out
}

impl Monitor for C17 {
    type Case = C17Case;

    fn id(&self) -> &'static str {
        "C17"
    }

    fn plan(&self, tier: Tier) -> Plan {
        let mut p = Plan::new(
            tier.pick(50_000, 3_000_000),
            "cases = a random subset of the configuration keys with durations 1 ms .. 400 days, booleans, streams, codes 0..255, wait with and without path, paths and environment values composed of plain words and YAML-significant snippets (quotes, backslashes, colon, braces, comma, #, blanks at the ends, keyword and number look-alikes, non-ASCII), rendered by to_yaml_one_liner onto a code fence / by serde_yaml as block YAML (alone and as front-matter) and read back by the real parsers; non-trivial = at least one key set; distinct = hash of (mode, set keys, string feature set, duration classes)",
        );
        p.floor_nontrivial = tier.pick(3_000, 30_000);
        p.floor_buckets = vec![
            ("mode:one-liner".into(), tier.pick(3_500, 210_000)),
            ("mode:block-testcase".into(), tier.pick(1_200, 72_000)),
            ("mode:block-document".into(), tier.pick(1_000, 60_000)),
            ("mode:front-matter".into(), tier.pick(1_000, 60_000)),
            ("mode:generator".into(), tier.pick(1_000, 60_000)),
            ("generator:from-cram".into(), tier.pick(500, 30_000)),
            ("generator:from-markdown".into(), tier.pick(500, 30_000)),
            ("str:multi-line".into(), tier.pick(1_000, 60_000)),
            ("str:nel".into(), tier.pick(50, 3_000)),
            ("str:line-separator".into(), tier.pick(50, 3_000)),
            ("str:paragraph-separator".into(), tier.pick(50, 3_000)),
            ("str:bom".into(), tier.pick(50, 3_000)),
            ("str:del".into(), tier.pick(50, 3_000)),
            ("str:c1-control".into(), tier.pick(150, 9_000)),
            ("str:noncharacter".into(), tier.pick(100, 6_000)),
            ("str:line-dashes".into(), tier.pick(400, 24_000)),
            ("str:line-dots".into(), tier.pick(120, 7_200)),
            ("str:line-lead-blank".into(), tier.pick(250, 15_000)),
            ("str:trail-newline".into(), tier.pick(500, 30_000)),
            ("key:environment".into(), tier.pick(3_000, 180_000)),
            ("key:wait.path".into(), tier.pick(1_200, 72_000)),
            ("str:dquote".into(), tier.pick(400, 24_000)),
            ("str:backslash".into(), tier.pick(300, 18_000)),
            ("str:non-ascii".into(), tier.pick(1_000, 60_000)),
            ("str:lead-space".into(), tier.pick(400, 24_000)),
            ("duration:days".into(), tier.pick(400, 24_000)),
            ("duration:sub-second".into(), tier.pick(300, 18_000)),
        ];
        p.assumptions = vec![
            "strings contain no control characters (Cc) and no U+2028/U+2029/U+FEFF, except line feeds in environment values (multi-line values, with lines `---`, `...`, leading blanks, with and without final line feed) and U+0085, U+2028, U+2029, U+FEFF, DEL, C1 controls, U+FFFE/U+FFFF in environment values and wait.path; variable names are shell identifiers".into(),
            "generator mode: the generated document is read with the Markdown base and with the Cram base (--cram-compat); under the Cram base only keys that differ literally from the Markdown default are judged (the writer may omit Markdown defaults); effective values are compared (an unset key = the documented meaning: stdout, CRLF translated, not detached, skip code 80, no ANSI stripping)".into(),
            "DocumentConfig.total_timeout: None and the documented default 900 s are identified (the renderer omits the default)".into(),
            "paths are valid UTF-8".into(),
        ];
        p
    }

    fn gen(&self, _env: &Env, _k: u64, rng: &mut Rng) -> C17Case {
        let mode = ["one-liner", "block-testcase", "block-document", "front-matter", "generator"][rng.weighted(&[40, 15, 15, 15, 15])];
        let mut c = C17Case {
            mode: mode.into(),
            ..Default::default()
        };
        if mode == "generator" {
            c.cram = rng.bool();
        }
        if c.uses_doc() {
            c.doc = gen_doc(rng);
            if rng.chance(1, 25) {
                // a multi-line value as the very last item of the rendered YAML (the default
                // total_timeout is omitted by the renderer)
                let mut d = DocCfg::default();
                if rng.bool() {
                    d.defaults.detached = Some(rng.bool());
                }
                d.defaults.environment.insert(gen_name(rng), gen_multiline(rng));
                d.total_timeout_ms = Some(900_000);
                if rng.bool() {
                    d.append = vec![gen_string(rng)];
                }
                c.doc = d;
            }
        } else {
            c.tc = gen_tc(rng);
        }
        c
    }

    fn check(&self, _env: &Env, case: &C17Case) -> Checked {
        if !matches!(case.mode.as_str(), "one-liner" | "block-testcase" | "block-document" | "front-matter" | "generator") {
            return Checked::out_of_scope("unknown mode");
        }
        let strings = all_strings(case);
        let paths = set_paths(case);
        // guard: the workload of the property has no control characters; line feeds only in
        // environment values (multi-line values)
        for p in &paths {
            for (role, s) in strings_of(case, p) {
                // DEL, C1 controls, U+2028/9, U+FEFF, U+FFFE/F: in environment values and wait.path
                let odd = |c: char| matches!(c, '\u{7f}'..='\u{9f}' | '\u{2028}' | '\u{2029}' | '\u{feff}' | '\u{fffe}' | '\u{ffff}');
                let odd_ok = role == "value" || (role == "path" && p.ends_with("wait"));
                if s.chars().any(|c| (odd(c) && !odd_ok) || (c.is_control() && !odd(c) && !(c == '\n' && role == "value"))) {
                    return Checked::out_of_scope("string with control character or line separator");
                }
            }
        }
        let rendered = match run(case) {
            Ok(r) => r,
            Err(fail) => {
                // generator mode: is it the format layer alone (no own key)?
                if case.mode == "generator" {
                    let bare = C17Case {
                        mode: case.mode.clone(),
                        cram: case.cram,
                        ..Default::default()
                    };
                    if let Err(f) = run(&bare) {
                        let from = if case.cram { "from-cram" } else { "from-markdown" };
                        return Checked::violated(format!("C17/generator/{}/format-defaults/{from}", f.clause), f.detail);
                    }
                }
                // isolate the key, then the feature class
                let mut culprit = None;
                for p in &paths {
                    let r = restrict(case, p);
                    if let Err(f) = run(&r) {
                        culprit = Some((p.clone(), f, r));
                        break;
                    }
                }
                let (key, clause, feature) = match culprit {
                    None => {
                        // no single key fails alone: smallest failing key set by greedy removal
                        let mut cur = case.clone();
                        let mut clause = fail.clause;
                        for p in &paths {
                            let cand = without_path(&cur, p);
                            if let Err(f) = run(&cand) {
                                cur = cand;
                                clause = f.clause;
                            }
                        }
                        let keys = set_paths(&cur);
                        let class = CLASS_ORDER
                            .iter()
                            .find(|c| all_strings(&cur).iter().any(|s| features(s).iter().any(|f| class_of(f) == **c)))
                            .copied()
                            .unwrap_or("-");
                        (keys.join("+"), clause, class.to_string())
                    }
                    Some((p, f, r)) => {
                        let feat = isolate_feature(&r, &p, f.clause);
                        let key = {
                            let (tc, k) = tc_of(&r, &p);
                            if k == "wait" && tc.wait.as_ref().is_some_and(|w| w.path.is_some()) && feat.starts_with("path:") {
                                format!("{p}.path")
                            } else {
                                p.clone()
                            }
                        };
                        (key, f.clause, feat)
                    }
                };
                let feature = feature.replace("path:", "").replace(' ', "");
                return Checked::violated(format!("C17/{}/{}/{}/{}", case.mode, clause, key, feature), fail.detail);
            }
        };
        if case.mode == "front-matter" && rendered.lines().any(|l| l == "---") {
            return Checked::out_of_scope("rendered YAML contains a `---` line");
        }
        let mut feats: Vec<&'static str> = strings.iter().flat_map(|s| features(s)).collect();
        feats.sort();
        feats.dedup();
        let mut durs: Vec<String> = vec![];
        {
            let tc = if case.uses_doc() { &case.doc.defaults } else { &case.tc };
            if let Some(ms) = tc.timeout_ms {
                durs.push(duration_class(ms, false).into());
            }
            if let Some(w) = &tc.wait {
                durs.push(duration_class(w.timeout_ms, false).into());
            }
            if case.uses_doc() {
                if let Some(ms) = case.doc.total_timeout_ms {
                    durs.push(duration_class(ms, true).into());
                }
            }
        }
        durs.sort();
        durs.dedup();
        let shape = hash_bytes(format!("{}|{:?}|{:?}|{:?}", case.mode, paths, feats, durs).as_bytes());
        let mut c = Checked::held().shape(!paths.is_empty(), shape).bucket(format!("mode:{}", case.mode));
        if case.mode == "generator" {
            c = c.bucket(if case.cram { "generator:from-cram" } else { "generator:from-markdown" });
        }
        for p in &paths {
            c = c.bucket(format!("key:{}", p.strip_prefix("defaults.").unwrap_or(p)));
        }
        {
            let tc = if case.uses_doc() { &case.doc.defaults } else { &case.tc };
            if tc.wait.as_ref().is_some_and(|w| w.path.is_some()) {
                c = c.bucket("key:wait.path");
            }
        }
        for f in feats {
            c = c.bucket(format!("str:{f}"));
        }
        for d in durs {
            c = c.bucket(format!("duration:{d}"));
        }
        if paths.is_empty() {
            c = c.bucket("empty-config");
        }
        c
    }

    fn sidecar(&self, env: &Env) -> Vec<SidecarReport> {
        // thorough: configuration -> one-liner / block YAML -> configuration on 16 x 150 generated
        // configurations, interpreted by Miri (serde_yaml's unsafe-libyaml back end is the only
        // hand-written unsafe code that handles document text)
        if env.tier == Tier::Thorough {
            vec![crate::miri::run_miri("C17", "config", 16, 150)]
        } else {
            vec![]
        }
    }

    fn shrink(&self, case: &C17Case) -> Vec<C17Case> {
        let mut v = vec![];
        if case.uses_doc() {
            let d = &case.doc;
            let mut push = |doc: DocCfg| {
                v.push(C17Case {
                    mode: case.mode.clone(),
                    cram: false,
                    tc: TcCfg::default(),
                    doc,
                })
            };
            for key in ["append", "prepend", "shell", "total_timeout", "defaults"] {
                if d.is_set(key) {
                    let mut c = d.clone();
                    match key {
                        "append" => c.append.clear(),
                        "prepend" => c.prepend.clear(),
                        "shell" => c.shell = None,
                        "total_timeout" => c.total_timeout_ms = None,
                        _ => c.defaults = TcCfg::default(),
                    }
                    push(c);
                }
            }
            for (which, list) in [(0, &d.append), (1, &d.prepend)] {
                for i in 0..list.len() {
                    let mut l = list.clone();
                    if l.len() > 1 {
                        l.remove(i);
                        let mut c = d.clone();
                        if which == 0 {
                            c.append = l;
                        } else {
                            c.prepend = l;
                        }
                        push(c);
                    }
                    for s in shrink_string(&list[i]) {
                        let mut l = list.clone();
                        l[i] = s;
                        let mut c = d.clone();
                        if which == 0 {
                            c.append = l;
                        } else {
                            c.prepend = l;
                        }
                        push(c);
                    }
                }
            }
            if let Some(s) = &d.shell {
                for s in shrink_string(s) {
                    push(DocCfg {
                        shell: Some(s),
                        ..d.clone()
                    });
                }
            }
            for t in shrink_tc(&d.defaults) {
                push(DocCfg {
                    defaults: t,
                    ..d.clone()
                });
            }
        } else {
            if case.cram {
                v.push(C17Case { cram: false, ..case.clone() });
            }
            for t in shrink_tc(&case.tc) {
                v.push(C17Case {
                    mode: case.mode.clone(),
                    cram: case.cram,
                    tc: t,
                    doc: DocCfg::default(),
                });
            }
        }
        v
    }

    fn sample(&self, case: &C17Case) -> Value {
        let rendered = if case.uses_doc() {
            serde_yaml::to_string(&case.doc.to_real()).unwrap_or_else(|e| format!("<render error {e}>"))
        } else if case.mode == "one-liner" {
            case.tc.to_real().to_yaml_one_liner()
        } else if case.mode == "generator" {
            return json!({"mode": case.mode, "source_format": if case.cram { "cram" } else { "markdown" }, "own_keys": case.tc,
                "original_config": generator_original(case), "generated": run(case).unwrap_or_else(|f| f.detail)});
        } else {
            serde_yaml::to_string(&case.tc.to_real()).unwrap_or_else(|e| format!("<render error {e}>"))
        };
        if case.uses_doc() {
            json!({"mode": case.mode, "config": case.doc, "rendered": rendered})
        } else {
            json!({"mode": case.mode, "config": case.tc, "rendered": rendered})
        }
    }
}
