//! C19 (end-to-end part): `scrut test -r pretty|diff|json|yaml` on documents with failing tests
//! whose output / expectations contain hostile text: the run must end with status 50 (not a
//! panic, not an internal error), json/yaml must be well-formed with one entry per outcome.

use std::time::Duration;

use serde::Deserialize;
use serde::Serialize;
use serde_json::json;

use crate::core::*;
use crate::e2e::result_kind;
use crate::e2e::Sandbox;
use crate::e2e::ScrutCmd;
use crate::gen::lines;
use crate::mon::c09e::HexLine;
use crate::rng::hash_str;
use crate::rng::show;
use crate::rng::Rng;

pub struct C19e;

#[derive(Clone, Debug, Serialize, Deserialize)]
pub struct Case {
    pub renderer: String,
    pub absolute: bool,
    /// what the failing command prints
    pub lines: Vec<HexLine>,
    pub final_newline: bool,
    /// expectation lines of the failing test (printable text)
    pub expectations: Vec<String>,
    /// exit code of the failing command (0 = fails on output only)
    pub code: u8,
}

impl Case {
    fn payload(&self) -> Vec<u8> {
        let mut out = vec![];
        for (i, l) in self.lines.iter().enumerate() {
            out.extend_from_slice(&l.0);
            if i + 1 < self.lines.len() || self.final_newline {
                out.push(b'\n');
            }
        }
        out
    }
    fn class_sig(&self) -> String {
        let mut c: Vec<&'static str> = self.lines.iter().map(|l| lines::classify(&l.0)).collect();
        c.sort();
        c.dedup();
        let mut c: Vec<String> = c.iter().map(|s| s.to_string()).collect();
        let mut e: Vec<&'static str> = self.expectations.iter().map(|l| lines::classify(l.as_bytes())).collect();
        e.sort();
        e.dedup();
        for x in e {
            c.push(format!("exp:{x}"));
        }
        if c.is_empty() {
            "empty".into()
        } else {
            c.join("+")
        }
    }
}

const EXP_TEXTS: &[&str] = &[
    "expected line",
    "other",
    "tr\u{e4}iling\u{a0}",
    "wide \u{65e5}\u{672c}\u{8a9e}\u{3000}",
    "emsp\u{2003}",
    "x  ",
    "\u{1f600}",
    "q* (glob)",
    "z.* (regex+)",
    "opt (?)",
    "combining e\u{301}",
    "",
];

impl Monitor for C19e {
    type Case = Case;

    fn id(&self) -> &'static str {
        "C19"
    }

    fn plan(&self, tier: Tier) -> Plan {
        let mut p = Plan::new(
            tier.pick(240, 6000),
            "e2e: a Markdown document with one passing and one failing test; the failing command prints 0..6 lines from 18 hostile line classes, its expectations are 0..4 printable texts (incl. trailing NBSP / ideographic space, wide and combining characters); renderer in {pretty, diff, json, yaml}, relative/absolute line numbers; non-trivial = hostile class present; distinct = (renderer, absolute, class set)",
        );
        p.chunk = 2;
        p.case_timeout_s = 120;
        p.floor_nontrivial = tier.pick(40, 300);
        p.floor_buckets = vec![("e2e:exit-50".into(), tier.pick(100, 3000))];
        p
    }

    fn gen(&self, _env: &Env, _k: u64, rng: &mut Rng) -> Case {
        let (mut ls, fin) = lines::payload(rng, 6);
        if rng.chance(1, 10) {
            ls.push(vec![b'x'; 5000]);
        }
        let n_exp = rng.below(5);
        let expectations = (0..n_exp).map(|_| rng.pick(EXP_TEXTS).to_string()).collect();
        Case {
            renderer: rng.pick(&["pretty", "diff", "json", "yaml", "pretty", "diff"]).to_string(),
            absolute: rng.chance(1, 3),
            lines: ls.into_iter().map(HexLine).collect(),
            final_newline: fin,
            expectations,
            code: *rng.pick(&[0u8, 0, 0, 3]),
        }
    }

    fn check(&self, env: &Env, case: &Case) -> Checked {
        let sb = Sandbox::new(env, "c19e");
        let p = sb.write_payload("P", &case.payload());
        let mut doc = String::new();
        doc.push_str("# Passing PASSTOKENq7\n\n```scrut\n$ echo ok\nok\n```\n\n# Failing FAILTOKENz3\n\n```scrut\n");
        doc.push_str(&format!("$ cat {}; (exit {})\n", p.display(), case.code));
        // the expectations are made wrong on purpose by a unique prefix line that the output never has
        doc.push_str("NEVER-IN-OUTPUT-5d1c\n");
        for e in &case.expectations {
            doc.push_str(e);
            doc.push('\n');
        }
        doc.push_str("```\n");
        sb.write_doc("doc.md", doc.as_bytes());
        let mut cmd = ScrutCmd::new(&sb, &["test", "--no-color", "-r", &case.renderer]);
        if case.absolute {
            cmd = cmd.arg("--absolute-line-numbers");
        }
        let run = cmd.arg("doc.md").watchdog(Duration::from_secs(60)).run(env);
        if run.watchdog_fired {
            return Checked::inconclusive("watchdog");
        }
        let nontrivial = self_nontrivial(case);
        let shape = hash_str(&format!("{}|{}|{}", case.renderer, case.absolute, case.class_sig()));
        let ctx = |what: &str| {
            format!(
                "{what}; renderer={} absolute={} payload={} expectations={:?} rc={:?} signal={:?} stderr: {}",
                case.renderer,
                case.absolute,
                show(&case.payload()).chars().take(300).collect::<String>(),
                case.expectations,
                run.code,
                run.signal,
                run.stderr_str().lines().filter(|l| l.contains("panicked") || l.contains("Error") || l.contains("rror:")).take(3).collect::<Vec<_>>().join(" | ")
            )
        };
        match (run.code, run.signal) {
            (Some(50), _) => {}
            (Some(101), _) | (None, Some(_)) => {
                return Checked::violated(format!("C19/e2e/{}/crash//{}", case.renderer, case.class_sig()), ctx("scrut crashed while rendering"));
            }
            (Some(1), _) => {
                return Checked::violated(format!("C19/e2e/{}/error//{}", case.renderer, case.class_sig()), ctx("scrut ended with an internal error instead of a rendering"));
            }
            _ => {
                return Checked::violated(format!("C19/e2e/{}/status//{}", case.renderer, case.class_sig()), ctx("unexpected exit status for a run with one failed test"));
            }
        }
        let out = run.stdout_str();
        match case.renderer.as_str() {
            "json" => match run.json() {
                Ok(arr) => {
                    let kinds: Vec<String> = arr.iter().map(result_kind).collect();
                    let want = if case.code == 0 { "malformed_output" } else { "invalid_exit_code" };
                    if kinds != vec!["success".to_string(), want.to_string()] {
                        return Checked::violated(format!("C19/e2e/json/entries//{}", case.class_sig()), ctx(&format!("result kinds {kinds:?}")));
                    }
                }
                Err(e) => return Checked::violated(format!("C19/e2e/json/malformed//{}", case.class_sig()), ctx(&e)),
            },
            "yaml" => match serde_yaml::from_str::<serde_yaml::Value>(&out) {
                Ok(v) => {
                    let n = v.as_sequence().map(|s| s.len()).unwrap_or(0);
                    if n != 2 {
                        return Checked::violated(format!("C19/e2e/yaml/entries//{}", case.class_sig()), ctx(&format!("{n} entries")));
                    }
                }
                Err(e) => return Checked::violated(format!("C19/e2e/yaml/malformed//{}", case.class_sig()), ctx(&e.to_string())),
            },
            _ => {
                if out.contains("PASSTOKENq7") {
                    return Checked::violated(format!("C19/e2e/{}/passed-test-shown//{}", case.renderer, case.class_sig()), ctx("the passing test appears in the failure report"));
                }
                if case.code == 0 {
                    // every unmatched expectation and every unexpected line with plain printable text must be visible
                    if !out.contains("NEVER-IN-OUTPUT-5d1c") {
                        return Checked::violated(format!("C19/e2e/{}/unmatched-missing//{}", case.renderer, case.class_sig()), ctx("the unmatched expectation is not shown"));
                    }
                    for l in &case.lines {
                        if lines::classify(&l.0) == "plain" && l.0.len() < 100 {
                            let t = String::from_utf8_lossy(&l.0).to_string();
                            if !out.contains(&t) {
                                return Checked::violated(
                                    format!("C19/e2e/{}/unexpected-missing//{}", case.renderer, case.class_sig()),
                                    ctx(&format!("output line `{t}` is not shown")),
                                );
                            }
                        }
                    }
                }
            }
        }
        Checked::held().shape(nontrivial, shape).bucket("e2e:exit-50").bucket(format!("e2e:renderer:{}", case.renderer))
    }

    fn shrink(&self, case: &Case) -> Vec<Case> {
        let mut v = vec![];
        for i in 0..case.lines.len() {
            let mut c = case.clone();
            c.lines.remove(i);
            v.push(c);
        }
        for i in 0..case.expectations.len() {
            let mut c = case.clone();
            c.expectations.remove(i);
            v.push(c);
        }
        if case.absolute {
            let mut c = case.clone();
            c.absolute = false;
            v.push(c);
        }
        if !case.final_newline {
            let mut c = case.clone();
            c.final_newline = true;
            v.push(c);
        }
        v
    }

    fn sample(&self, case: &Case) -> serde_json::Value {
        json!({"renderer": case.renderer, "absolute": case.absolute, "payload": show(&case.payload()).chars().take(200).collect::<String>(), "expectations": case.expectations, "code": case.code})
    }
}

fn self_nontrivial(case: &Case) -> bool {
    case.lines.iter().any(|l| lines::classify(&l.0) != "plain") || case.expectations.iter().any(|e| !e.is_ascii())
}
