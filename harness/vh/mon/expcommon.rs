//! Shared helpers for C04 / C08 / C11: the two expectation makers (default registry and the Cram-compat
//! registry of the binary), character pools, coarse content classes for signatures.

use scrut::expectation::Expectation;
use scrut::expectation::ExpectationMaker;
use scrut::rules::glob_cram::CramGlobRule;
use scrut::rules::registry::RuleRegistry;
use scrut::rules::rule::RuleMaker;

use crate::oracle::unicode_tables as ut;

thread_local! {
    static DEFAULT_MAKER: ExpectationMaker = ExpectationMaker::new(RuleRegistry::default());
    // replica of bin/utils/file_parser.rs::make_expectation_maker(true) (the function lives in the binary)
    static CRAM_MAKER: ExpectationMaker = {
        let mut registry = RuleRegistry::default();
        registry.register(CramGlobRule::make, &["glob", "gl"]);
        ExpectationMaker::new(registry)
    };
}

pub fn parse_with(cram: bool, line: &str) -> Result<Expectation, String> {
    let r = if cram {
        CRAM_MAKER.with(|m| m.parse(line))
    } else {
        DEFAULT_MAKER.with(|m| m.parse(line))
    };
    r.map_err(|e| format!("{e:#}"))
}

pub use crate::gen::exprs::*;

/// coarse classes of the content of a byte string, for signatures:
/// `bs` backslash, `np` a byte outside printable ASCII (control, DEL, anything >= 0x80),
/// `tail=<group>` the text ends in a blank and a parenthesised group
pub fn content_classes(b: &[u8]) -> Vec<String> {
    let mut v: Vec<String> = vec![];
    if b.contains(&b'\\') {
        v.push("bs".into());
    }
    if b.iter().any(|x| !(0x20..=0x7e).contains(x)) {
        v.push("np".into());
    }
    if let Some(t) = paren_tail(b) {
        v.push(format!("tail={t}"));
    }
    if v.is_empty() {
        v.push("plain".into());
    }
    v
}

/// class of a final ` (…)` group: `(no-eol)`, `(mod)` any other documented modifier, `()`, `(other)`;
/// prefixed with `ub` when the blank before the group is not U+0020 but another Unicode white-space character
pub fn paren_tail(b: &[u8]) -> Option<String> {
    if b.last() != Some(&b')') {
        return None;
    }
    let open = b.iter().rposition(|x| *x == b'(')?;
    // the blank before the group: U+0020, or (prefix `ub`) another White_Space character
    let before = String::from_utf8_lossy(&b[..open]).chars().last()?;
    let prefix = if before == ' ' {
        ""
    } else if crate::oracle::rulematch::OTHER_BLANKS.contains(&before) {
        "ub"
    } else {
        return None;
    };
    let content = String::from_utf8_lossy(&b[open + 1..b.len() - 1]).to_string();
    let class = match crate::oracle::rulematch::modifier_of(&content) {
        Some(("no-eol", _)) => "(no-eol)",
        Some(_) => "(mod)",
        None if content.is_empty() => "()",
        None => "(other)",
    };
    Some(format!("{prefix}{class}"))
}

/// finer class of one scalar under the Unicode table of the harness
pub fn scalar_class(c: char) -> &'static str {
    if c == '\\' {
        "bs"
    } else if ut::is_cc(c) {
        if (c as u32) < 0x80 {
            "cc"
        } else {
            "c1"
        }
    } else if ut::is_cf(c) {
        "cf"
    } else if ut::is_co(c) {
        "co"
    } else if ut::is_cn(c) {
        "cn"
    } else if c.is_ascii() {
        "ascii"
    } else {
        "nonascii"
    }
}

/// greedy deletion: a locally minimal sub-sequence of `items` for which `fails` still holds (bounded effort).
/// Windows of decreasing width are removed; narrow windows (<= 4, e.g. one UTF-8 sequence) slide by one item.
pub fn minimise_seq<T: Clone>(items: &[T], mut fails: impl FnMut(&[T]) -> bool, mut budget: usize) -> Vec<T> {
    let mut cur: Vec<T> = items.to_vec();
    loop {
        let mut progressed = false;
        let mut widths: Vec<usize> = vec![];
        let mut w = cur.len();
        while w > 4 {
            widths.push(w);
            w /= 2;
        }
        widths.extend([4usize, 3, 2, 1]);
        for width in widths {
            if width == 0 || width > cur.len() {
                continue;
            }
            let step = if width <= 4 { 1 } else { width };
            let mut i = 0;
            while i + width <= cur.len() {
                if budget == 0 {
                    return cur;
                }
                let mut cand = cur.clone();
                cand.drain(i..i + width);
                budget -= 1;
                if fails(&cand) {
                    cur = cand;
                    progressed = true;
                } else {
                    i += step;
                }
            }
        }
        if !progressed {
            return cur;
        }
    }
}
