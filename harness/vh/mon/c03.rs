//! C03 — no false failure when the expectation list is deterministic for the output.

use scrut::diff::DiffTool;

use super::diffcommon::*;
use crate::core::*;
use crate::oracle::lang::det_member;
use crate::oracle::lang::member;
use crate::oracle::lang::Det;
use crate::rng::Rng;

pub struct C03;

impl Monitor for C03 {
    type Case = DiffCase;

    fn id(&self) -> &'static str {
        "C03"
    }

    fn plan(&self, tier: Tier) -> Plan {
        let mut p = Plan::new(
            tier.pick(1_000_000, 40_000_000),
            "cases as C01 (biased to disjoint match sets and own-lines); judged only when the one-line-look-ahead determinism oracle says in scope; non-trivial = in-scope member with >= 1 quantifier, or in-scope non-member; distinct = hash of (quantifier vector, match matrix, final-newline flag)",
        );
        p.floor_nontrivial = tier.pick(2_000, 20_000);
        p.floor_buckets = vec![
            ("in-scope".into(), tier.pick(60_000, 3_000_000)),
            ("in-scope:member".into(), tier.pick(10_000, 100_000)),
            ("family:own-lines".into(), tier.pick(10_000, 100_000)),
        ];
        p.assumptions = vec![
            "scope test is conservative: any line matched by two candidate expectations puts the case out of scope".into(),
            "the match matrix is taken as data".into(),
        ];
        p
    }

    fn gen(&self, env: &Env, k: u64, rng: &mut Rng) -> DiffCase {
        // thorough: the first SWEEP_SIZE case numbers are the complete sweep of small shapes
        if env.tier == Tier::Thorough && k < SWEEP_SIZE {
            return sweep_case(k);
        }
        gen_case(rng, true, env.tier == Tier::Thorough)
    }

    fn panic_is_violation(&self) -> bool {
        false
    }

    fn check(&self, _env: &Env, case: &DiffCase) -> Checked {
        let Some(p) = prepare(case) else {
            return Checked::out_of_scope("expectation does not parse");
        };
        let det = det_member(&p.quants, &p.matrix, p.n_lines);
        if det == Det::OutOfScope {
            return Checked::out_of_scope("not deterministic").bucket("out-of-scope");
        }
        let dp = member(&p.quants, &p.matrix, p.n_lines);
        if dp != (det == Det::Member) {
            return Checked::inconclusive(format!("oracle self-check failed: DP={dp} det={det:?} on {:?}", sample(case)));
        }
        let diff = match DiffTool::new(p.exps.clone()).diff(&case.out) {
            Ok(d) => d,
            Err(e) => return Checked::out_of_scope(format!("diff error {e}")),
        };
        let pass = !diff.has_differences();
        if dp && !pass {
            return Checked::violated(
                "C03/false-failure",
                format!("deterministic list describes the output but scrut reports differences: {:?} diff={:?}", sample(case), diff),
            );
        }
        if !dp && pass {
            return Checked::violated("C03/false-pass", format!("deterministic list, non-member, reported as match: {:?}", sample(case)));
        }
        let has_quant = p.quants.iter().any(|q| q.optional || q.multiline);
        let mut c = Checked::held()
            .shape((dp && has_quant) || !dp, shape_hash(&p, &case.out))
            .bucket("in-scope")
            .bucket(if dp { "in-scope:member" } else { "in-scope:non-member" });
        if case.family.contains("near") {
            c = c.bucket("near-miss");
        }
        c.bucket(format!("family:{}", case.family))
    }

    fn shrink(&self, case: &DiffCase) -> Vec<DiffCase> {
        shrink(case)
    }

    fn sample(&self, case: &DiffCase) -> serde_json::Value {
        sample(case)
    }
}
