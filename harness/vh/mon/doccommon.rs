//! Shared helpers of the document monitors (C06, C07, C09, C10): the parsers as the binary
//! builds them, observation of parsed test cases, comparison with the expected reading,
//! cause attribution by internal minimisation.

#![allow(dead_code)]

use std::sync::Arc;

use scrut::config::OutputStreamControl;
use scrut::config::TestCaseConfig;
use scrut::expectation::ExpectationMaker;
use scrut::parsers::cram::CramParser;
use scrut::parsers::markdown::MarkdownParser;
use scrut::parsers::parser::Parser;
use scrut::rules::glob_cram::CramGlobRule;
use scrut::rules::registry::RuleRegistry;
use scrut::rules::rule::RuleMaker;
use scrut::testcase::TestCase;

use crate::gen::docgen::Cfg;
use crate::gen::docgen::ExpTest;
use crate::gen::docgen::Expected;

/// `make_expectation_maker(false)` of src/bin/utils/file_parser.rs
pub fn md_maker() -> Arc<ExpectationMaker> {
    Arc::new(ExpectationMaker::new(RuleRegistry::default()))
}

/// `make_expectation_maker(true)` of src/bin/utils/file_parser.rs (that code lives in the binary)
pub fn cram_maker() -> Arc<ExpectationMaker> {
    let mut registry = RuleRegistry::default();
    registry.register(CramGlobRule::make, &["glob", "gl"]);
    Arc::new(ExpectationMaker::new(registry))
}

thread_local! {
    static MD: MarkdownParser = MarkdownParser::new(md_maker(), &["scrut"], None);
    static CRAM: CramParser = CramParser::new(cram_maker(), 2);
}

pub fn parse_md(text: &str) -> Result<Vec<TestCase>, String> {
    MD.with(|p| p.parse(text)).map(|(_, t)| t).map_err(|e| format!("{e:#}"))
}

pub fn parse_cram(text: &str) -> Result<Vec<TestCase>, String> {
    CRAM.with(|p| p.parse(text)).map(|(_, t)| t).map_err(|e| format!("{e:#}"))
}

/// field-by-field reading of a parsed configuration into the harness model
pub fn observe_cfg(c: &TestCaseConfig) -> Cfg {
    Cfg {
        timeout_ms: c.timeout.map(|d| d.as_millis() as u64),
        keep_crlf: c.keep_crlf,
        output_stream: c.output_stream.as_ref().map(|o| {
            match o {
                OutputStreamControl::Stdout => "stdout",
                OutputStreamControl::Stderr => "stderr",
                OutputStreamControl::Combined => "combined",
            }
            .to_string()
        }),
        skip_document_code: c.skip_document_code,
        strip_ansi_escaping: c.strip_ansi_escaping,
        detached: c.detached,
        wait_ms: c.wait.as_ref().map(|w| w.timeout.as_millis() as u64),
        wait_path: c.wait.as_ref().and_then(|w| w.path.as_ref().map(|p| p.to_string_lossy().to_string())),
        environment: c.environment.clone(),
    }
}

#[derive(Clone, Debug)]
pub struct Obs {
    pub shell: String,
    /// (line as written, kind, optional, multiline)
    pub exps: Vec<(String, String, bool, bool)>,
    /// for every expectation: does it match its own line text followed by a newline? (judged for plain `equal` lines only)
    pub self_match: Vec<bool>,
    pub exit: Option<i32>,
    pub cfg: Cfg,
    pub line: usize,
    pub title: String,
}

pub fn observe(tc: &TestCase) -> Obs {
    Obs {
        shell: tc.shell_expression.clone(),
        exps: tc
            .expectations
            .iter()
            .map(|e| {
                let (kind, _, optional, multiline) = e.unmake();
                (e.original_string(), kind, optional, multiline)
            })
            .collect(),
        self_match: tc
            .expectations
            .iter()
            .map(|e| {
                let mut line = e.original_string().into_bytes();
                line.push(b'\n');
                e.matches(&line)
            })
            .collect(),
        exit: tc.exit_code,
        cfg: observe_cfg(&tc.config),
        line: tc.line_number,
        title: tc.title.clone(),
    }
}

fn title_ok(exp: &ExpTest, got: &str, prev: Option<&str>) -> bool {
    if exp.title.exact.iter().any(|t| t == got) {
        return true;
    }
    if exp.title.allow_prev && prev == Some(got) {
        return true;
    }
    if let Some(lines) = &exp.title.relaxed {
        if got.is_empty() {
            return true;
        }
        // every line of the title is a line of the segment, in order
        let mut it = lines.iter();
        return got.split('\n').all(|g| it.any(|l| l == g));
    }
    false
}

/// compares what the parser returned with the expected reading; `None` = nothing to object
pub fn judge(exp: &Expected, parsed: &Result<Vec<Obs>, String>) -> Option<(String, String)> {
    if exp.nocrash_only.is_some() {
        return None;
    }
    if let Some(kind) = &exp.must_err {
        return match parsed {
            Ok(t) => Some((format!("ok-on-invalid/{kind}"), format!("document with {kind} parsed to {} tests instead of an error", t.len()))),
            Err(_) => None,
        };
    }
    let got = match parsed {
        Err(msg) => {
            return if exp.err_ok.is_some() {
                None
            } else {
                Some(("err-on-wellformed".into(), format!("well-formed document rejected: {}", msg.chars().take(200).collect::<String>())))
            }
        }
        Ok(t) => t,
    };
    let want = &exp.tests;
    if got.len() != want.len() {
        let got_cmds: Vec<&str> = got.iter().map(|t| t.shell.as_str()).collect();
        let want_cmds: Vec<&str> = want.iter().map(|t| t.shell.as_str()).collect();
        let clause = if got.len() < want.len() { "missing-test" } else { "extra-test" };
        return Some((clause.into(), format!("expected {} tests {:?}, parser returned {} tests {:?}", want.len(), want_cmds, got.len(), got_cmds)));
    }
    let mut prev: Option<&str> = None;
    for (i, (w, g)) in want.iter().zip(got.iter()).enumerate() {
        let bad = |field: &str, what: String| Some((format!("mismatch/{field}"), format!("test #{} ({:?}): {what}", i + 1, w.shell)));
        if w.shell != g.shell {
            return bad("shell-expression", format!("expected {:?}, got {:?}", w.shell, g.shell));
        }
        let wl: Vec<&str> = w.exps.iter().map(|(t, _)| t.as_str()).collect();
        let gl: Vec<&str> = g.exps.iter().map(|(t, _, _, _)| t.as_str()).collect();
        if wl != gl {
            return bad("expectations", format!("expected lines {wl:?}, got {gl:?}"));
        }
        for ((_, wk), (text, gk, go, gm)) in w.exps.iter().zip(g.exps.iter()) {
            if let Some((k, o, m)) = wk {
                if k != gk || o != go || m != gm {
                    return bad("expectation-kind", format!("line {text:?}: expected ({k},{o},{m}), got ({gk},{go},{gm})"));
                }
            }
        }
        // an expectation line without a documented modifier is an `equal` expectation for the whole line as
        // written: it has to match exactly that text followed by a newline
        for ((text, gk, go, gm), ok) in g.exps.iter().zip(g.self_match.iter()) {
            let plain_equal = gk == "equal" && !go && !gm && !text.ends_with(" (equal)") && !text.ends_with(" (eq)");
            if plain_equal && !ok {
                return bad("expectation-content", format!("line {text:?} was read as an equal expectation that does not match its own text"));
            }
        }
        if w.exit != g.exit {
            return bad("exit-code", format!("expected {:?}, got {:?}", w.exit, g.exit));
        }
        if !exp.cfg_unknown && w.cfg != g.cfg {
            return bad("config", format!("expected {:?}, got {:?}", w.cfg, g.cfg));
        }
        if w.line != g.line {
            return bad("line-number", format!("expected {}, got {}", w.line, g.line));
        }
        if !title_ok(w, &g.title, prev) {
            return bad("title", format!("got {:?}, acceptable {:?} (relaxed: {:?})", g.title, w.title.exact, w.title.relaxed));
        }
        prev = Some(g.title.as_str());
    }
    None
}

/// greedy minimisation: `shrink` proposes smaller variants, `fails` tells whether the variant
/// still shows the failure; at most `budget` calls of `fails`
pub fn minimise<D: Clone>(doc: &D, shrink: &dyn Fn(&D) -> Vec<D>, fails: &dyn Fn(&D) -> bool, mut budget: usize) -> D {
    let mut cur = doc.clone();
    let mut idx = 0usize;
    loop {
        let cands = shrink(&cur);
        let mut advanced = false;
        let mut j = idx.min(cands.len());
        // candidates are position-ordered; continue where the last success was, then wrap once
        let order: Vec<usize> = (j..cands.len()).chain(0..j).collect();
        for k in order {
            if budget == 0 {
                return cur;
            }
            budget -= 1;
            if fails(&cands[k]) {
                cur = cands[k].clone();
                j = k;
                advanced = true;
                break;
            }
        }
        if !advanced {
            return cur;
        }
        idx = j;
    }
}

/// a panic while looking at a *variant* of a case is not the failure under study
pub fn quiet<T>(f: impl FnOnce() -> T) -> Option<T> {
    crate::core::catch(f).ok()
}

/// stable signature of a panic raised by scrut: file without line number, message without
/// numbers and without the offending text (`... of `<line>``)
pub fn panic_sig(id: &str, loc: &str, msg: &str) -> String {
    let file = loc.rsplit_once(':').map(|(f, _)| f).unwrap_or(loc);
    let file = match file.find("/src/") {
        Some(i) => &file[i + 1..],
        None => file,
    };
    let mut m = msg;
    for cut in ["; it is inside", " of `", ": `", "\n"] {
        if let Some(i) = m.find(cut) {
            m = &m[..i];
        }
    }
    let mut out = String::new();
    let mut in_digits = false;
    for c in m.chars().take(80) {
        if c.is_ascii_digit() {
            if !in_digits {
                out.push('N');
            }
            in_digits = true;
        } else {
            in_digits = false;
            out.push(if c.is_whitespace() { '-' } else { c });
        }
    }
    format!("{id}/panic/{file}/{out}")
}

/// runs scrut code; a panic becomes a violation of the no-crash clause with a stable signature
pub fn guarded<T>(id: &str, what: &str, f: impl FnOnce() -> T) -> Result<T, crate::core::Checked> {
    crate::core::catch(f).map_err(|(loc, msg)| {
        if loc.starts_with("vh/") || loc.contains("/harness/vh/") {
            crate::core::Checked::inconclusive(format!("harness panic at {loc}: {msg}"))
        } else {
            crate::core::Checked::violated(panic_sig(id, &loc, &msg), format!("panic in {what} at {loc}: {msg}"))
        }
    })
}

pub fn clip(s: &str, n: usize) -> String {
    if s.chars().count() <= n {
        s.to_string()
    } else {
        format!("{}…", s.chars().take(n).collect::<String>())
    }
}
