//! C16 (end-to-end part): command line > test case > document defaults > format default,
//! observed on the behaviour of `scrut test` (which stream is recorded, whether CR LF survives,
//! what `$VAR` expands to, which document time limit is in effect) and on the effective
//! configuration that `-r json` prints for failing tests.

use std::collections::BTreeMap;
use std::time::Duration;

use serde::Deserialize;
use serde::Serialize;
use serde_json::json;
use serde_json::Value;

use crate::core::*;
use crate::e2e::Sandbox;
use crate::e2e::ScrutCmd;
use crate::rng::hash_str;
use crate::rng::Rng;

pub struct C16e;

#[derive(Clone, Debug, Default, Serialize, Deserialize, PartialEq)]
pub struct Layer {
    /// "" | stdout | stderr | combined
    pub output_stream: String,
    /// "" | true | false
    pub keep_crlf: String,
    /// environment variables VA / VB / VC -> value
    pub env: BTreeMap<String, String>,
}

impl Layer {
    fn is_empty(&self) -> bool {
        self.output_stream.is_empty() && self.keep_crlf.is_empty() && self.env.is_empty()
    }
    fn yaml_inline(&self) -> String {
        let mut parts = vec![];
        if !self.output_stream.is_empty() {
            parts.push(format!("output_stream: {}", self.output_stream));
        }
        if !self.keep_crlf.is_empty() {
            parts.push(format!("keep_crlf: {}", self.keep_crlf));
        }
        if !self.env.is_empty() {
            let e: Vec<String> = self.env.iter().map(|(k, v)| format!("{k}: {v}")).collect();
            parts.push(format!("environment: {{{}}}", e.join(", ")));
        }
        format!("{{{}}}", parts.join(", "))
    }
    fn yaml_block(&self, indent: &str) -> String {
        let mut s = String::new();
        if !self.output_stream.is_empty() {
            s.push_str(&format!("{indent}output_stream: {}\n", self.output_stream));
        }
        if !self.keep_crlf.is_empty() {
            s.push_str(&format!("{indent}keep_crlf: {}\n", self.keep_crlf));
        }
        if !self.env.is_empty() {
            s.push_str(&format!("{indent}environment:\n"));
            for (k, v) in &self.env {
                s.push_str(&format!("{indent}  {k}: {v}\n"));
            }
        }
        s
    }
}

#[derive(Clone, Debug, Serialize, Deserialize)]
pub struct Case {
    /// md | cram
    pub format: String,
    pub cram_compat: bool,
    /// "" | combine | no-combine
    pub cli_combine: String,
    /// "" | keep | no-keep
    pub cli_crlf: String,
    /// --timeout-seconds
    pub cli_timeout_s: Option<u64>,
    /// front-matter total_timeout (seconds)
    pub doc_timeout_s: Option<u64>,
    pub defaults: Layer,
    pub tests: Vec<Layer>,
}

fn gen_layer(rng: &mut Rng, tag: &str) -> Layer {
    let mut l = Layer::default();
    if rng.chance(1, 2) {
        l.output_stream = rng.pick(&["stdout", "stderr", "combined"]).to_string();
    }
    if rng.chance(1, 2) {
        l.keep_crlf = rng.pick(&["true", "false"]).to_string();
    }
    for name in ["VA", "VB", "VC"] {
        if rng.chance(2, 5) {
            l.env.insert(name.to_string(), format!("{tag}{}", name.to_lowercase()));
        }
    }
    l
}

fn first_set<'a>(layers: &[&'a str]) -> &'a str {
    layers.iter().find(|s| !s.is_empty()).copied().unwrap_or("")
}

impl Monitor for C16e {
    type Case = Case;

    fn id(&self) -> &'static str {
        "C16"
    }

    fn plan(&self, tier: Tier) -> Plan {
        let mut p = Plan::new(
            tier.pick(200, 5000),
            "e2e: Markdown (with and without --cram-compat) and Cram documents; command line flags {--combine-output, --no-combine-output, --keep-output-crlf, --no-keep-output-crlf, --timeout-seconds}, front-matter defaults and total_timeout, inline configuration per test, each key independently unset or set per layer, environment variables VA/VB/VC set in overlapping layers; every test prints its variables, writes O to stdout, E to stderr and a CR LF line and fails on purpose so that -r json shows the recorded output and the effective configuration; non-trivial = some key is set in >= 2 layers; distinct = per key the set of layers that set it x format",
        );
        p.chunk = 2;
        p.case_timeout_s = 120;
        p.floor_nontrivial = tier.pick(30, 300);
        p.floor_buckets = vec![("e2e:tests-judged".into(), tier.pick(200, 5000)), ("e2e:doc-limit-judged".into(), tier.pick(20, 500))];
        p
    }

    fn gen(&self, _env: &Env, _k: u64, rng: &mut Rng) -> Case {
        let format = if rng.chance(3, 4) { "md" } else { "cram" }.to_string();
        let md = format == "md";
        let n = 1 + rng.below(3);
        let cram_compat = md && rng.chance(1, 5);
        Case {
            cram_compat,
            cli_combine: rng.pick(&["", "", "combine", "no-combine"]).to_string(),
            cli_crlf: rng.pick(&["", "", "keep", "no-keep"]).to_string(),
            cli_timeout_s: if rng.chance(1, 3) { Some(*rng.pick(&[60u64, 120, 1000, 0, 0])) } else { None },
            doc_timeout_s: if md && rng.chance(1, 2) { Some(*rng.pick(&[90u64, 300, 2000, 0])) } else { None },
            defaults: if md && rng.chance(2, 3) { gen_layer(rng, "d") } else { Layer::default() },
            // --cram-compat runs the document as one script, which requires one configuration for all tests
            tests: (0..n).map(|i| if md && !cram_compat && rng.chance(2, 3) { gen_layer(rng, &format!("t{i}")) } else { Layer::default() }).collect(),
            format,
        }
    }

    fn check(&self, env: &Env, case: &Case) -> Checked {
        let md = case.format == "md";
        if !md && (!case.defaults.is_empty() || case.tests.iter().any(|t| !t.is_empty()) || case.doc_timeout_s.is_some() || case.cram_compat) {
            return Checked::out_of_scope("Cram documents carry no configuration");
        }
        if case.cram_compat && case.tests.iter().any(|t| !t.is_empty()) {
            return Checked::out_of_scope("--cram-compat needs one configuration for all tests of a document");
        }
        let sb = Sandbox::new(env, "c16e");
        let cmd = "echo \"A=${VA-unset} B=${VB-unset} C=${VC-unset}\"; echo O; echo E >&2; printf 'x\\r\\n'";
        let mut doc = String::new();
        if md {
            if !case.defaults.is_empty() || case.doc_timeout_s.is_some() {
                doc.push_str("---\n");
                if let Some(t) = case.doc_timeout_s {
                    doc.push_str(&format!("total_timeout: {t}s\n"));
                }
                if !case.defaults.is_empty() {
                    doc.push_str("defaults:\n");
                    doc.push_str(&case.defaults.yaml_block("  "));
                }
                doc.push_str("---\n\n");
            }
            for (i, t) in case.tests.iter().enumerate() {
                let cfg = if t.is_empty() { String::new() } else { format!(" {}", t.yaml_inline()) };
                doc.push_str(&format!("# test {i}\n\n```scrut{cfg}\n$ {cmd}\nNEVER-PRINTED-LINE\n```\n\n"));
            }
        } else {
            for (i, _) in case.tests.iter().enumerate() {
                doc.push_str(&format!("test {i}\n\n  $ {cmd}\n  NEVER-PRINTED-LINE\n\n"));
            }
        }
        let file = if md { "doc.md" } else { "doc.t" };
        sb.write_doc(file, doc.as_bytes());
        let mut c = ScrutCmd::new(&sb, &["test", "-r", "json"]);
        if case.cram_compat {
            c = c.arg("--cram-compat");
        }
        match case.cli_combine.as_str() {
            "combine" => c = c.arg("--combine-output"),
            "no-combine" => c = c.arg("--no-combine-output"),
            _ => {}
        }
        match case.cli_crlf.as_str() {
            "keep" => c = c.arg("--keep-output-crlf"),
            "no-keep" => c = c.arg("--no-keep-output-crlf"),
            _ => {}
        }
        if let Some(t) = case.cli_timeout_s {
            c = c.arg("--timeout-seconds").arg(t.to_string());
        }
        let run = c.arg(file).watchdog(Duration::from_secs(60)).run(env);
        if run.watchdog_fired {
            return Checked::inconclusive("watchdog");
        }
        let ctx = |what: String| format!("{what}\nargs: cram_compat={} cli_combine={:?} cli_crlf={:?} cli_timeout={:?}\n--- document ({file}) ---\n{doc}", case.cram_compat, case.cli_combine, case.cli_crlf, case.cli_timeout_s);
        if run.code != Some(50) {
            return Checked::inconclusive(ctx(format!("expected exit 50 (all tests fail on purpose), got {:?}: {}", run.code, run.stderr_str().lines().take(4).collect::<Vec<_>>().join(" | "))));
        }
        let outcomes = match run.json() {
            Ok(o) => o,
            Err(e) => return Checked::inconclusive(ctx(e)),
        };
        if outcomes.len() != case.tests.len() {
            return Checked::inconclusive(ctx(format!("{} outcomes for {} tests", outcomes.len(), case.tests.len())));
        }
        let cram_defaults = !md || case.cram_compat;
        let mut layers_per_key: Vec<String> = vec![];
        let mut multi_layer = false;
        let mut ck = Checked::held();
        for (i, (t, o)) in case.tests.iter().zip(outcomes.iter()).enumerate() {
            let cli_stream = match case.cli_combine.as_str() {
                "combine" => "combined",
                "no-combine" => "stdout",
                _ => "",
            };
            let cli_crlf = match case.cli_crlf.as_str() {
                "keep" => "true",
                "no-keep" => "false",
                _ => "",
            };
            let fmt_stream = if cram_defaults { "combined" } else { "stdout" };
            let fmt_crlf = if cram_defaults { "true" } else { "false" };
            let eff_stream = first_set(&[cli_stream, &t.output_stream, &case.defaults.output_stream, fmt_stream]);
            let eff_crlf = first_set(&[cli_crlf, &t.keep_crlf, &case.defaults.keep_crlf, fmt_crlf]);
            let setters = |a: &str, b: &str, c: &str| format!("{}{}{}", if a.is_empty() { "" } else { "C" }, if b.is_empty() { "" } else { "T" }, if c.is_empty() { "" } else { "D" });
            let s1 = setters(cli_stream, &t.output_stream, &case.defaults.output_stream);
            let s2 = setters(cli_crlf, &t.keep_crlf, &case.defaults.keep_crlf);
            if s1.len() >= 2 || s2.len() >= 2 {
                multi_layer = true;
            }
            layers_per_key.push(format!("s:{s1},c:{s2}"));
            let stdout = o["output"]["stdout"].as_str().unwrap_or("");
            let stderr = o["output"]["stderr"].as_str().unwrap_or("");
            if !stdout.contains("O\n") {
                return Checked::inconclusive(ctx(format!("test {i}: recorded stdout lacks the probe line: {stdout:?}")));
            }
            // (1) stream: `combined` merges E into the recorded stdout, otherwise E is on stderr
            let merged = stdout.contains("E\n");
            let want_merged = eff_stream == "combined";
            if merged != want_merged {
                return Checked::violated(
                    format!("C16/e2e/output_stream//set-by={s1}/{}", case.format),
                    ctx(format!("test {i}: effective output_stream should be {eff_stream} (cli={cli_stream:?} test={:?} defaults={:?} format={fmt_stream}), but stderr was {}merged into stdout: stdout={stdout:?} stderr={stderr:?}", t.output_stream, case.defaults.output_stream, if merged { "" } else { "not " })),
                );
            }
            // (2) CR LF
            let kept = stdout.contains("x\r\n");
            let want_kept = eff_crlf == "true";
            if kept != want_kept {
                return Checked::violated(
                    format!("C16/e2e/keep_crlf//set-by={s2}/{}", case.format),
                    ctx(format!("test {i}: effective keep_crlf should be {eff_crlf} (cli={cli_crlf:?} test={:?} defaults={:?} format={fmt_crlf}), recorded stdout={stdout:?}", t.keep_crlf, case.defaults.keep_crlf)),
                );
            }
            // (3) environment variables, each individually. Only the first test is judged: later tests also
            // inherit what earlier tests exported (shell state carries over, property C12), which would
            // shadow the configured value.
            if i > 0 {
                ck = ck.bucket("e2e:tests-judged").bucket(format!("e2e:stream-set-by:{s1}")).bucket(format!("e2e:crlf-set-by:{s2}"));
                continue;
            }
            let mut want = String::new();
            for (name, letter) in [("VA", "A"), ("VB", "B"), ("VC", "C")] {
                let v = t.env.get(name).or_else(|| case.defaults.env.get(name)).map(|s| s.as_str()).unwrap_or("unset");
                if t.env.contains_key(name) && case.defaults.env.contains_key(name) {
                    multi_layer = true;
                }
                want.push_str(&format!("{letter}={v} "));
            }
            let want = want.trim_end().to_string();
            let got = stdout.lines().next().unwrap_or("").to_string();
            if got != want {
                let both: Vec<&str> = ["VA", "VB", "VC"].iter().filter(|n| t.env.contains_key(**n) && case.defaults.env.contains_key(**n)).copied().collect();
                return Checked::violated(
                    format!("C16/e2e/environment//{}", if both.is_empty() { "single-layer" } else { "test-and-defaults" }),
                    ctx(format!("test {i}: variables seen by the command: {got:?}, expected {want:?} (test {:?}, defaults {:?})", t.env, case.defaults.env)),
                );
            }
            // (4) the configuration printed by -r json, where present, must agree
            let cfg = &o["testcase"]["config"];
            if let Some(s) = cfg["output_stream"].as_str() {
                if s != eff_stream {
                    return Checked::violated(format!("C16/e2e/json-config/output_stream//set-by={s1}"), ctx(format!("test {i}: reported output_stream {s}, effective {eff_stream}")));
                }
            }
            if let Some(b) = cfg["keep_crlf"].as_bool() {
                if b.to_string() != eff_crlf {
                    return Checked::violated(format!("C16/e2e/json-config/keep_crlf//set-by={s2}"), ctx(format!("test {i}: reported keep_crlf {b}, effective {eff_crlf}")));
                }
            }
            ck = ck.bucket("e2e:tests-judged").bucket(format!("e2e:stream-set-by:{s1}")).bucket(format!("e2e:crlf-set-by:{s2}"));
        }
        // (5) document time limit: command line > front-matter > default 900 s (hook event; Markdown executor only)
        if md && !case.cram_compat {
            let events = sb.trace_events();
            let limits: Vec<u64> = events.iter().filter(|e| e["kind"] == json!("timeout_decision")).filter_map(|e| e["data"]["doc_limit_ms"].as_u64()).collect();
            if limits.is_empty() {
                return Checked::inconclusive("no timeout_decision events in the trace");
            }
            let want = case.cli_timeout_s.or(case.doc_timeout_s).unwrap_or(900) * 1000;
            if limits.iter().any(|l| *l != want) {
                let by = format!("{}{}", if case.cli_timeout_s.is_some() { "C" } else { "" }, if case.doc_timeout_s.is_some() { "D" } else { "" });
                return Checked::violated(
                    format!("C16/e2e/total_timeout//set-by={by}"),
                    ctx(format!("document time limit in effect {limits:?} ms, expected {want} ms (cli {:?}, front-matter {:?}, default 900 s)", case.cli_timeout_s, case.doc_timeout_s)),
                );
            }
            if case.cli_timeout_s.is_some() && case.doc_timeout_s.is_some() {
                multi_layer = true;
            }
            ck = ck.bucket("e2e:doc-limit-judged");
        }
        let shape = hash_str(&format!("{}|{}|{}|{:?}|{:?}", case.format, case.cram_compat, layers_per_key.join(";"), case.cli_timeout_s.is_some(), case.doc_timeout_s.is_some()));
        ck.shape(multi_layer, shape)
    }

    fn shrink(&self, case: &Case) -> Vec<Case> {
        let mut v = vec![];
        for i in 0..case.tests.len() {
            if case.tests.len() > 1 {
                let mut c = case.clone();
                c.tests.remove(i);
                v.push(c);
            }
        }
        macro_rules! clear {
            ($field:ident, $empty:expr) => {
                if case.$field != $empty {
                    let mut c = case.clone();
                    c.$field = $empty;
                    v.push(c);
                }
            };
        }
        clear!(cli_combine, String::new());
        clear!(cli_crlf, String::new());
        clear!(cli_timeout_s, None);
        clear!(doc_timeout_s, None);
        clear!(cram_compat, false);
        for which in 0..=case.tests.len() {
            let layer = if which == 0 { &case.defaults } else { &case.tests[which - 1] };
            let mut variants: Vec<Layer> = vec![];
            if !layer.output_stream.is_empty() {
                let mut l = layer.clone();
                l.output_stream.clear();
                variants.push(l);
            }
            if !layer.keep_crlf.is_empty() {
                let mut l = layer.clone();
                l.keep_crlf.clear();
                variants.push(l);
            }
            for k in layer.env.keys() {
                let mut l = layer.clone();
                l.env.remove(k);
                variants.push(l);
            }
            for l in variants {
                let mut c = case.clone();
                if which == 0 {
                    c.defaults = l;
                } else {
                    c.tests[which - 1] = l;
                }
                v.push(c);
            }
        }
        v
    }

    fn sample(&self, case: &Case) -> Value {
        json!({"format": case.format, "cram_compat": case.cram_compat, "cli": [case.cli_combine, case.cli_crlf, case.cli_timeout_s], "front_matter_total_timeout_s": case.doc_timeout_s,
               "defaults": case.defaults.yaml_inline(), "tests": case.tests.iter().map(|t| t.yaml_inline()).collect::<Vec<_>>()})
    }
}
