//! C16 (end-to-end part): command line > test case > document defaults > format default,
//! observed on the behaviour of `scrut test` (which stream is recorded, whether CR LF survives,
//! what `$VAR` expands to, which document time limit is in effect) and on the effective
//! configuration that `-r json` prints for failing tests. Documents may include other documents
//! (front-matter `prepend:` / `append:`, command line `-P` / `-A`): the command-line layer holds for
//! the included tests exactly as for the document's own tests. `scrut create` is probed as well: the
//! stream(s) and the CR LF handling recorded in the created document follow the command-line flag when
//! one is given, the default of the output format otherwise.

use std::collections::BTreeMap;
use std::time::Duration;

use serde::Deserialize;
use serde::Serialize;
use serde_json::json;
use serde_json::Value;

use crate::core::*;
use crate::e2e::Sandbox;
use crate::e2e::ScrutCmd;
use crate::rng::hash_str;
use crate::rng::Rng;

pub struct C16e;

#[derive(Clone, Debug, Default, Serialize, Deserialize, PartialEq)]
pub struct Layer {
    /// "" | stdout | stderr | combined
    pub output_stream: String,
    /// "" | true | false
    pub keep_crlf: String,
    /// environment variables VA / VB / VC -> value
    pub env: BTreeMap<String, String>,
}

impl Layer {
    fn is_empty(&self) -> bool {
        self.output_stream.is_empty() && self.keep_crlf.is_empty() && self.env.is_empty()
    }
    fn yaml_inline(&self) -> String {
        let mut parts = vec![];
        if !self.output_stream.is_empty() {
            parts.push(format!("output_stream: {}", self.output_stream));
        }
        if !self.keep_crlf.is_empty() {
            parts.push(format!("keep_crlf: {}", self.keep_crlf));
        }
        if !self.env.is_empty() {
            let e: Vec<String> = self.env.iter().map(|(k, v)| format!("{k}: {v}")).collect();
            parts.push(format!("environment: {{{}}}", e.join(", ")));
        }
        format!("{{{}}}", parts.join(", "))
    }
    fn yaml_block(&self, indent: &str) -> String {
        let mut s = String::new();
        if !self.output_stream.is_empty() {
            s.push_str(&format!("{indent}output_stream: {}\n", self.output_stream));
        }
        if !self.keep_crlf.is_empty() {
            s.push_str(&format!("{indent}keep_crlf: {}\n", self.keep_crlf));
        }
        if !self.env.is_empty() {
            s.push_str(&format!("{indent}environment:\n"));
            for (k, v) in &self.env {
                s.push_str(&format!("{indent}  {k}: {v}\n"));
            }
        }
        s
    }
}

/// a document that is run before / after the tests of the main document
#[derive(Clone, Debug, Default, Serialize, Deserialize, PartialEq)]
pub struct Include {
    /// prepend-doc | append-doc (front-matter of the main document) | prepend-cli | append-cli (-P / -A)
    pub how: String,
    /// front-matter defaults of the included document itself (Markdown)
    #[serde(default)]
    pub defaults: Layer,
    pub tests: Vec<Layer>,
}

#[derive(Clone, Debug, Serialize, Deserialize)]
pub struct Case {
    /// "" = `scrut test` on generated documents; "create" = `scrut create` (uses format, cli_combine, cli_crlf only)
    #[serde(default)]
    pub mode: String,
    /// md | cram
    pub format: String,
    pub cram_compat: bool,
    /// "" | combine | no-combine
    pub cli_combine: String,
    /// "" | keep | no-keep
    pub cli_crlf: String,
    /// --timeout-seconds
    pub cli_timeout_s: Option<u64>,
    /// front-matter total_timeout (seconds)
    pub doc_timeout_s: Option<u64>,
    pub defaults: Layer,
    pub tests: Vec<Layer>,
    /// included documents (same format as the main document)
    #[serde(default)]
    pub includes: Vec<Include>,
}

/// one executed test: where it comes from and the layers below the command line
struct Rec<'a> {
    id: String,
    /// "" for the document's own tests, else `included-{prepend,append}-{cli,doc}`
    origin: String,
    inline: &'a Layer,
    defaults: &'a Layer,
}

fn gen_layer(rng: &mut Rng, tag: &str) -> Layer {
    let mut l = Layer::default();
    if rng.chance(1, 2) {
        l.output_stream = rng.pick(&["stdout", "stderr", "combined"]).to_string();
    }
    if rng.chance(1, 2) {
        l.keep_crlf = rng.pick(&["true", "false"]).to_string();
    }
    for name in ["VA", "VB", "VC"] {
        if rng.chance(2, 5) {
            l.env.insert(name.to_string(), format!("{tag}{}", name.to_lowercase()));
        }
    }
    l
}

fn first_set<'a>(layers: &[&'a str]) -> &'a str {
    layers.iter().find(|s| !s.is_empty()).copied().unwrap_or("")
}

/// `scrut create [--format F] [flags] -- <command>`: the created document is written to stdout; its
/// expectation lines show which stream(s) were recorded and whether CR LF survived
fn check_create(env: &Env, case: &Case) -> Checked {
    let md = case.format == "md";
    let sb = Sandbox::new(env, "c16e");
    let command = "echo MARK-OUT; echo MARK-ERR >&2; printf 'x\\r\\n'";
    let mut c = ScrutCmd::new(&sb, &["create", "--format", if md { "markdown" } else { "cram" }]);
    match case.cli_combine.as_str() {
        "combine" => c = c.arg("--combine-output"),
        "no-combine" => c = c.arg("--no-combine-output"),
        _ => {}
    }
    match case.cli_crlf.as_str() {
        "keep" => c = c.arg("--keep-output-crlf"),
        "no-keep" => c = c.arg("--no-keep-output-crlf"),
        _ => {}
    }
    let run = c.arg("--output").arg("-").arg("--").arg(command).watchdog(Duration::from_secs(60)).run(env);
    if run.watchdog_fired {
        return Checked::inconclusive("watchdog");
    }
    let doc = run.stdout_str();
    let ctx = |what: String| format!("{what}\nscrut create --format {} {:?} {:?} -- {command}\n--- created document ---\n{doc}", case.format, case.cli_combine, case.cli_crlf);
    if run.code != Some(0) {
        return Checked::inconclusive(ctx(format!("scrut create exits with {:?}: {}", run.code, run.stderr_str().lines().take(4).collect::<Vec<_>>().join(" | "))));
    }
    // expectation lines: what follows the command line, up to the end of the block
    let (cmd_prefix, indent) = if md { ("$ ", "") } else { ("  $ ", "  ") };
    let mut lines = doc.lines().skip_while(|l| !l.starts_with(cmd_prefix)).skip(1);
    let mut exps: Vec<&str> = vec![];
    for l in &mut lines {
        if md && l.starts_with("```") {
            break;
        }
        if let Some(e) = l.strip_prefix(indent) {
            exps.push(e);
        }
    }
    if !exps.iter().any(|e| *e == "MARK-OUT") {
        return Checked::inconclusive(ctx("the created document lacks the stdout marker among its expectations".into()));
    }
    let cli_stream = match case.cli_combine.as_str() {
        "combine" => "combined",
        "no-combine" => "stdout",
        _ => "",
    };
    let cli_crlf = match case.cli_crlf.as_str() {
        "keep" => "true",
        "no-keep" => "false",
        _ => "",
    };
    let eff_stream = first_set(&[cli_stream, if md { "stdout" } else { "combined" }]);
    let eff_crlf = first_set(&[cli_crlf, if md { "false" } else { "true" }]);
    let merged = exps.iter().any(|e| *e == "MARK-ERR");
    if merged != (eff_stream == "combined") {
        return Checked::violated(
            format!("C16/e2e/create/output_stream//set-by={}/{}", if cli_stream.is_empty() { "" } else { "C" }, case.format),
            ctx(format!("effective output_stream should be {eff_stream} (cli={cli_stream:?}, format default otherwise), but the stderr marker is {}among the recorded expectations", if merged { "" } else { "not " })),
        );
    }
    let kept = exps.iter().any(|e| e.starts_with("x\\r"));
    let translated = exps.iter().any(|e| *e == "x");
    if kept == translated {
        return Checked::inconclusive(ctx("cannot tell from the created document whether CR LF was kept".into()));
    }
    if kept != (eff_crlf == "true") {
        return Checked::violated(
            format!("C16/e2e/create/keep_crlf//set-by={}/{}", if cli_crlf.is_empty() { "" } else { "C" }, case.format),
            ctx(format!("effective keep_crlf should be {eff_crlf} (cli={cli_crlf:?}, format default otherwise), but CR LF was {}", if kept { "kept" } else { "translated" })),
        );
    }
    let flag = |s: &str, none: &str| if s.is_empty() { none.to_string() } else { s.to_string() };
    let fs = flag(&case.cli_combine, "stream-default");
    let fc = flag(&case.cli_crlf, "crlf-default");
    Checked::held()
        .bucket("e2e:create:judged")
        .bucket(format!("e2e:create:{}:{fs}", case.format))
        .bucket(format!("e2e:create:{}:{fc}", case.format))
        .shape(!cli_stream.is_empty() || !cli_crlf.is_empty(), hash_str(&format!("create|{}|{fs}|{fc}", case.format)))
}

impl Monitor for C16e {
    type Case = Case;

    fn id(&self) -> &'static str {
        "C16"
    }

    fn plan(&self, tier: Tier) -> Plan {
        let mut p = Plan::new(
            tier.pick(250, 6250),
            "e2e: Markdown (with and without --cram-compat) and Cram documents; command line flags {--combine-output, --no-combine-output, --keep-output-crlf, --no-keep-output-crlf, --timeout-seconds}, front-matter defaults and total_timeout, inline configuration per test, documents included through front-matter prepend/append and through -P/-A (with their own front-matter defaults and inline configuration) whose tests are probed like the document's own, each key independently unset or set per layer; every fifth case runs `scrut create` for output format x {--combine-output, --no-combine-output, none} x {--keep-output-crlf, --no-keep-output-crlf, none} (enumerated) and reads the created document; environment variables VA/VB/VC set in overlapping layers; every test prints its variables, writes O to stdout, E to stderr and a CR LF line and fails on purpose so that -r json shows the recorded output and the effective configuration; non-trivial = some key is set in >= 2 layers; distinct = per key the set of layers that set it x format",
        );
        p.chunk = 2;
        p.case_timeout_s = 120;
        p.floor_nontrivial = tier.pick(30, 300);
        p.floor_buckets = vec![
            ("e2e:tests-judged".into(), tier.pick(200, 5000)),
            ("e2e:doc-limit-judged".into(), tier.pick(20, 500)),
            ("e2e:included-tests-judged".into(), tier.pick(40, 1000)),
            ("e2e:included:output_stream:cli-set".into(), tier.pick(20, 500)),
            ("e2e:included:keep_crlf:cli-set".into(), tier.pick(20, 500)),
            ("e2e:create:judged".into(), tier.pick(10, 250)),
            ("e2e:create:md:combine".into(), tier.pick(1, 30)),
            ("e2e:create:md:no-combine".into(), tier.pick(1, 30)),
            ("e2e:create:md:keep".into(), tier.pick(1, 30)),
            ("e2e:create:md:no-keep".into(), tier.pick(1, 30)),
            ("e2e:create:cram:combine".into(), tier.pick(1, 30)),
            ("e2e:create:cram:no-combine".into(), tier.pick(1, 30)),
            ("e2e:create:cram:keep".into(), tier.pick(1, 30)),
            ("e2e:create:cram:no-keep".into(), tier.pick(1, 30)),
            ("e2e:included-prepend-doc".into(), tier.pick(6, 150)),
            ("e2e:included-append-doc".into(), tier.pick(6, 150)),
            ("e2e:included-prepend-cli".into(), tier.pick(6, 150)),
            ("e2e:included-append-cli".into(), tier.pick(6, 150)),
        ];
        p
    }

    fn gen(&self, _env: &Env, k: u64, rng: &mut Rng) -> Case {
        if k % 5 == 0 {
            // `scrut create`: the 2 x 3 x 3 combinations are enumerated, not drawn
            let i = k / 5;
            return Case {
                mode: "create".into(),
                format: ["md", "cram"][(i % 2) as usize].into(),
                cram_compat: false,
                cli_combine: ["combine", "no-combine", ""][((i / 2) % 3) as usize].into(),
                cli_crlf: ["keep", "no-keep", ""][((i / 6) % 3) as usize].into(),
                cli_timeout_s: None,
                doc_timeout_s: None,
                defaults: Layer::default(),
                tests: vec![],
                includes: vec![],
            };
        }
        let format = if rng.chance(3, 4) { "md" } else { "cram" }.to_string();
        let md = format == "md";
        let n = 1 + rng.below(3);
        let cram_compat = md && rng.chance(1, 5);
        // per-test configuration only where every test runs on its own (Markdown executor)
        let layered = md && !cram_compat;
        let mut includes = vec![];
        if rng.chance(1, 2) {
            for _ in 0..1 + rng.below(2) {
                includes.push(Include {
                    // Cram documents have no front-matter: only -P / -A can include there
                    how: if md { rng.pick(&["prepend-doc", "append-doc", "prepend-cli", "append-cli"]).to_string() } else { rng.pick(&["prepend-cli", "append-cli"]).to_string() },
                    defaults: if layered && rng.chance(1, 2) { gen_layer(rng, "i") } else { Layer::default() },
                    tests: (0..1 + rng.below(2)).map(|i| if layered && rng.chance(1, 2) { gen_layer(rng, &format!("it{i}")) } else { Layer::default() }).collect(),
                });
            }
        }
        // the command-line layer is what included tests are probed for: set it more often then
        let flag = |rng: &mut Rng, on: &str, off: &str, often: bool| -> String {
            if often {
                rng.pick(&["", on, on, off, off]).to_string()
            } else {
                rng.pick(&["", "", on, off]).to_string()
            }
        };
        let often = !includes.is_empty();
        Case {
            cram_compat,
            cli_combine: flag(rng, "combine", "no-combine", often),
            cli_crlf: flag(rng, "keep", "no-keep", often),
            cli_timeout_s: if rng.chance(1, 3) { Some(*rng.pick(&[60u64, 120, 1000, 0, 0])) } else { None },
            doc_timeout_s: if md && rng.chance(1, 2) { Some(*rng.pick(&[90u64, 300, 2000, 0])) } else { None },
            defaults: if md && rng.chance(2, 3) { gen_layer(rng, "d") } else { Layer::default() },
            // --cram-compat runs the document as one script, which requires one configuration for all tests
            tests: (0..n).map(|i| if layered && rng.chance(2, 3) { gen_layer(rng, &format!("t{i}")) } else { Layer::default() }).collect(),
            includes,
            format,
            mode: String::new(),
        }
    }

    fn check(&self, env: &Env, case: &Case) -> Checked {
        if case.mode == "create" {
            return check_create(env, case);
        }
        let md = case.format == "md";
        let inc_layers = case.includes.iter().any(|i| !i.defaults.is_empty() || i.tests.iter().any(|t| !t.is_empty()));
        if !md && (!case.defaults.is_empty() || case.tests.iter().any(|t| !t.is_empty()) || case.doc_timeout_s.is_some() || case.cram_compat || inc_layers) {
            return Checked::out_of_scope("Cram documents carry no configuration");
        }
        if case.cram_compat && (case.tests.iter().any(|t| !t.is_empty()) || inc_layers) {
            return Checked::out_of_scope("--cram-compat needs one configuration for all tests of a document");
        }
        if case.cram_compat && !case.includes.is_empty() && !case.defaults.is_empty() {
            // the defaults of the main document do not reach included tests: the single script would be refused
            return Checked::out_of_scope("--cram-compat needs one configuration for all tests, included ones too");
        }
        if case.includes.iter().any(|i| !matches!(i.how.as_str(), "prepend-doc" | "append-doc" | "prepend-cli" | "append-cli")) {
            return Checked::out_of_scope("unknown kind of include");
        }
        let sb = Sandbox::new(env, "c16e");
        let ext = if md { "md" } else { "t" };
        let command = |id: &str| format!(": {id}; echo \"A=${{VA-unset}} B=${{VB-unset}} C=${{VC-unset}}\"; echo O; echo E >&2; printf 'x\\r\\n'");
        // renders one document; `doc_includes` = (prepend paths, append paths) named in its front-matter
        let render = |defaults: &Layer, total_timeout: Option<u64>, tests: &[Layer], ids: &[String], prepend: &[String], append: &[String]| -> String {
            let mut doc = String::new();
            if md {
                if !defaults.is_empty() || total_timeout.is_some() || !prepend.is_empty() || !append.is_empty() {
                    doc.push_str("---\n");
                    if let Some(t) = total_timeout {
                        doc.push_str(&format!("total_timeout: {t}s\n"));
                    }
                    for (key, list) in [("prepend", prepend), ("append", append)] {
                        if !list.is_empty() {
                            doc.push_str(&format!("{key}:\n"));
                            for p in list {
                                doc.push_str(&format!("  - {p}\n"));
                            }
                        }
                    }
                    if !defaults.is_empty() {
                        doc.push_str("defaults:\n");
                        doc.push_str(&defaults.yaml_block("  "));
                    }
                    doc.push_str("---\n\n");
                }
                for (t, id) in tests.iter().zip(ids) {
                    let cfg = if t.is_empty() { String::new() } else { format!(" {}", t.yaml_inline()) };
                    doc.push_str(&format!("# test {id}\n\n```scrut{cfg}\n$ {}\nNEVER-PRINTED-LINE\n```\n\n", command(id)));
                }
            } else {
                for id in ids {
                    doc.push_str(&format!("test {id}\n\n  $ {}\n  NEVER-PRINTED-LINE\n\n", command(id)));
                }
            }
            doc
        };
        // the executed tests
        let mut recs: Vec<Rec> = vec![];
        let mut all_docs = String::new();
        let (mut doc_prepend, mut doc_append, mut cli_prepend, mut cli_append) = (vec![], vec![], vec![], vec![]);
        for (j, inc) in case.includes.iter().enumerate() {
            let rel = format!("inc/i{j}.{ext}");
            let ids: Vec<String> = (0..inc.tests.len()).map(|k| format!("i{j}t{k}")).collect();
            let text = render(&inc.defaults, None, &inc.tests, &ids, &[], &[]);
            sb.write_doc(&rel, text.as_bytes());
            all_docs.push_str(&format!("--- {rel} ({}) ---\n{text}", inc.how));
            match inc.how.as_str() {
                "prepend-doc" => doc_prepend.push(rel),
                "append-doc" => doc_append.push(rel),
                "prepend-cli" => cli_prepend.push(rel),
                _ => cli_append.push(rel),
            }
            let (place, by) = inc.how.split_once('-').unwrap_or(("prepend", "doc"));
            for (k, t) in inc.tests.iter().enumerate() {
                recs.push(Rec {
                    id: ids[k].clone(),
                    origin: format!("included-{place}-{by}"),
                    inline: t,
                    defaults: &inc.defaults,
                });
            }
        }
        if !md && (!doc_prepend.is_empty() || !doc_append.is_empty()) {
            return Checked::out_of_scope("Cram documents have no front-matter to name includes");
        }
        let own_ids: Vec<String> = (0..case.tests.len()).map(|i| format!("m{i}")).collect();
        for (i, t) in case.tests.iter().enumerate() {
            recs.push(Rec {
                id: own_ids[i].clone(),
                origin: String::new(),
                inline: t,
                defaults: &case.defaults,
            });
        }
        let doc = render(&case.defaults, case.doc_timeout_s, &case.tests, &own_ids, &doc_prepend, &doc_append);
        let file = format!("doc.{ext}");
        sb.write_doc(&file, doc.as_bytes());
        all_docs.push_str(&format!("--- {file} ---\n{doc}"));
        let mut c = ScrutCmd::new(&sb, &["test", "-r", "json"]);
        if case.cram_compat {
            c = c.arg("--cram-compat");
        }
        match case.cli_combine.as_str() {
            "combine" => c = c.arg("--combine-output"),
            "no-combine" => c = c.arg("--no-combine-output"),
            _ => {}
        }
        match case.cli_crlf.as_str() {
            "keep" => c = c.arg("--keep-output-crlf"),
            "no-keep" => c = c.arg("--no-keep-output-crlf"),
            _ => {}
        }
        if let Some(t) = case.cli_timeout_s {
            c = c.arg("--timeout-seconds").arg(t.to_string());
        }
        // -P / -A take any number of values: the document comes first
        c = c.arg(file.clone());
        if !cli_prepend.is_empty() {
            c = c.arg("-P");
            for p in &cli_prepend {
                c = c.arg(p.clone());
            }
        }
        if !cli_append.is_empty() {
            c = c.arg("-A");
            for p in &cli_append {
                c = c.arg(p.clone());
            }
        }
        let run = c.watchdog(Duration::from_secs(60)).run(env);
        if run.watchdog_fired {
            return Checked::inconclusive("watchdog");
        }
        let ctx = |what: String| format!("{what}\nargs: cram_compat={} cli_combine={:?} cli_crlf={:?} cli_timeout={:?} -P {cli_prepend:?} -A {cli_append:?}\n{all_docs}", case.cram_compat, case.cli_combine, case.cli_crlf, case.cli_timeout_s);
        let cli_stream = match case.cli_combine.as_str() {
            "combine" => "combined",
            "no-combine" => "stdout",
            _ => "",
        };
        let cli_crlf = match case.cli_crlf.as_str() {
            "keep" => "true",
            "no-keep" => "false",
            _ => "",
        };
        if run.code != Some(50) {
            // one script for all tests (Cram, --cram-compat): included tests that miss the command-line
            // layer make the configuration inconsistent and the run is refused
            let err = run.stderr_str();
            if !case.includes.is_empty() && (!md || case.cram_compat) {
                for (key, cli) in [("output_stream", cli_stream), ("keep_crlf", cli_crlf)] {
                    if !cli.is_empty() && err.contains(&format!("inconsistent configuration value for {key}")) {
                        return Checked::violated(
                            format!("C16/e2e/{key}//set-by=C/included-script-refused"),
                            ctx(format!("the command line sets {key}={cli} for every test of the run, yet scrut reports differing values: {}", err.lines().rev().take(4).collect::<Vec<_>>().join(" | "))),
                        );
                    }
                }
            }
            return Checked::inconclusive(ctx(format!("expected exit 50 (all tests fail on purpose), got {:?}: {}", run.code, err.lines().take(4).collect::<Vec<_>>().join(" | "))));
        }
        let outcomes = match run.json() {
            Ok(o) => o,
            Err(e) => return Checked::inconclusive(ctx(e)),
        };
        if outcomes.len() != recs.len() {
            return Checked::inconclusive(ctx(format!("{} outcomes for {} tests", outcomes.len(), recs.len())));
        }
        let cram_defaults = !md || case.cram_compat;
        let first_is_own = cli_prepend.is_empty() && doc_prepend.is_empty();
        let mut layers_per_key: Vec<String> = vec![];
        let mut multi_layer = false;
        let mut ck = Checked::held();
        for r in &recs {
            let (i, t) = (&r.id, r.inline);
            let marker = format!(": {}; ", r.id);
            let Some(o) = outcomes.iter().find(|o| o["testcase"]["shell_expression"].as_str().is_some_and(|s| s.starts_with(&marker))) else {
                return Checked::inconclusive(ctx(format!("no outcome for test {i}")));
            };
            let included = !r.origin.is_empty();
            let place = if included { r.origin.clone() } else { case.format.clone() };
            let fmt_stream = if cram_defaults { "combined" } else { "stdout" };
            let fmt_crlf = if cram_defaults { "true" } else { "false" };
            let eff_stream = first_set(&[cli_stream, &t.output_stream, &r.defaults.output_stream, fmt_stream]);
            let eff_crlf = first_set(&[cli_crlf, &t.keep_crlf, &r.defaults.keep_crlf, fmt_crlf]);
            let setters = |a: &str, b: &str, c: &str| format!("{}{}{}", if a.is_empty() { "" } else { "C" }, if b.is_empty() { "" } else { "T" }, if c.is_empty() { "" } else { "D" });
            let s1 = setters(cli_stream, &t.output_stream, &r.defaults.output_stream);
            let s2 = setters(cli_crlf, &t.keep_crlf, &r.defaults.keep_crlf);
            if s1.len() >= 2 || s2.len() >= 2 {
                multi_layer = true;
            }
            layers_per_key.push(format!("{}s:{s1},c:{s2}", if included { "i" } else { "" }));
            let stdout = o["output"]["stdout"].as_str().unwrap_or("");
            let stderr = o["output"]["stderr"].as_str().unwrap_or("");
            if !stdout.contains("O\n") {
                return Checked::inconclusive(ctx(format!("test {i}: recorded stdout lacks the probe line: {stdout:?}")));
            }
            // Guard: which document's `defaults` govern an included test is not settled by the statement
            // (scrut applies the included document's defaults when parsing, and the including document's
            // defaults again in the executor for keys that are still unset). A key of an included test
            // that only the including document's defaults set is therefore not judged.
            let only_main = |s: &str, main: &str| included && s.is_empty() && !main.is_empty();
            let skip_stream = only_main(&s1, &case.defaults.output_stream);
            let skip_crlf = only_main(&s2, &case.defaults.keep_crlf);
            if skip_stream {
                ck = ck.bucket("e2e:included:unjudged:output_stream-only-in-including-defaults");
            }
            if skip_crlf {
                ck = ck.bucket("e2e:included:unjudged:keep_crlf-only-in-including-defaults");
            }
            // (1) stream: `combined` merges E into the recorded stdout, otherwise E is on stderr
            let merged = stdout.contains("E\n");
            let want_merged = eff_stream == "combined";
            if !skip_stream && merged != want_merged {
                return Checked::violated(
                    format!("C16/e2e/output_stream//set-by={s1}/{place}"),
                    ctx(format!("test {i}: effective output_stream should be {eff_stream} (cli={cli_stream:?} test={:?} defaults of its document={:?} format={fmt_stream}), but stderr was {}merged into stdout: stdout={stdout:?} stderr={stderr:?}", t.output_stream, r.defaults.output_stream, if merged { "" } else { "not " })),
                );
            }
            // (2) CR LF
            let kept = stdout.contains("x\r\n");
            let want_kept = eff_crlf == "true";
            if !skip_crlf && kept != want_kept {
                return Checked::violated(
                    format!("C16/e2e/keep_crlf//set-by={s2}/{place}"),
                    ctx(format!("test {i}: effective keep_crlf should be {eff_crlf} (cli={cli_crlf:?} test={:?} defaults of its document={:?} format={fmt_crlf}), recorded stdout={stdout:?}", t.keep_crlf, r.defaults.keep_crlf)),
                );
            }
            // (4) the configuration printed by -r json, where present, must agree
            let cfg = &o["testcase"]["config"];
            if let Some(s) = cfg["output_stream"].as_str() {
                if !skip_stream && s != eff_stream {
                    return Checked::violated(format!("C16/e2e/json-config/output_stream//set-by={s1}/{place}"), ctx(format!("test {i}: reported output_stream {s}, effective {eff_stream}")));
                }
            }
            if let Some(b) = cfg["keep_crlf"].as_bool() {
                if !skip_crlf && b.to_string() != eff_crlf {
                    return Checked::violated(format!("C16/e2e/json-config/keep_crlf//set-by={s2}/{place}"), ctx(format!("test {i}: reported keep_crlf {b}, effective {eff_crlf}")));
                }
            }
            ck = ck.bucket("e2e:tests-judged").bucket(format!("e2e:stream-set-by:{s1}")).bucket(format!("e2e:crlf-set-by:{s2}"));
            if included {
                ck = ck.bucket("e2e:included-tests-judged").bucket(format!("e2e:{}", r.origin));
                if !cli_stream.is_empty() {
                    ck = ck.bucket("e2e:included:output_stream:cli-set");
                }
                if !cli_crlf.is_empty() {
                    ck = ck.bucket("e2e:included:keep_crlf:cli-set");
                }
            }
            // (3) environment variables, each individually. Only the first executed test is judged, and only
            // when it is the document's own first test: later tests also inherit what earlier tests exported
            // (shell state carries over, property C12), which would shadow the configured value.
            if !(first_is_own && r.id == "m0") {
                continue;
            }
            let mut want = String::new();
            for (name, letter) in [("VA", "A"), ("VB", "B"), ("VC", "C")] {
                let v = t.env.get(name).or_else(|| case.defaults.env.get(name)).map(|s| s.as_str()).unwrap_or("unset");
                if t.env.contains_key(name) && case.defaults.env.contains_key(name) {
                    multi_layer = true;
                }
                want.push_str(&format!("{letter}={v} "));
            }
            let want = want.trim_end().to_string();
            let got = stdout.lines().next().unwrap_or("").to_string();
            if got != want {
                let both: Vec<&str> = ["VA", "VB", "VC"].iter().filter(|n| t.env.contains_key(**n) && case.defaults.env.contains_key(**n)).copied().collect();
                return Checked::violated(
                    format!("C16/e2e/environment//{}", if both.is_empty() { "single-layer" } else { "test-and-defaults" }),
                    ctx(format!("test {i}: variables seen by the command: {got:?}, expected {want:?} (test {:?}, defaults {:?})", t.env, case.defaults.env)),
                );
            }
            ck = ck.bucket("e2e:environment-judged");
        }
        // (5) document time limit: command line > front-matter > default 900 s (hook event; Markdown executor only)
        if md && !case.cram_compat {
            let events = sb.trace_events();
            let limits: Vec<u64> = events.iter().filter(|e| e["kind"] == json!("timeout_decision")).filter_map(|e| e["data"]["doc_limit_ms"].as_u64()).collect();
            if limits.is_empty() {
                return Checked::inconclusive("no timeout_decision events in the trace");
            }
            let want = case.cli_timeout_s.or(case.doc_timeout_s).unwrap_or(900) * 1000;
            if limits.iter().any(|l| *l != want) {
                let by = format!("{}{}", if case.cli_timeout_s.is_some() { "C" } else { "" }, if case.doc_timeout_s.is_some() { "D" } else { "" });
                return Checked::violated(
                    format!("C16/e2e/total_timeout//set-by={by}"),
                    ctx(format!("document time limit in effect {limits:?} ms, expected {want} ms (cli {:?}, front-matter {:?}, default 900 s)", case.cli_timeout_s, case.doc_timeout_s)),
                );
            }
            if case.cli_timeout_s.is_some() && case.doc_timeout_s.is_some() {
                multi_layer = true;
            }
            ck = ck.bucket("e2e:doc-limit-judged");
        }
        let hows: Vec<&str> = case.includes.iter().map(|i| i.how.as_str()).collect();
        let shape = hash_str(&format!("{}|{}|{}|{:?}|{:?}|{hows:?}", case.format, case.cram_compat, layers_per_key.join(";"), case.cli_timeout_s.is_some(), case.doc_timeout_s.is_some()));
        ck.shape(multi_layer, shape)
    }

    fn shrink(&self, case: &Case) -> Vec<Case> {
        let mut v = vec![];
        for i in 0..case.tests.len() {
            if case.tests.len() > 1 {
                let mut c = case.clone();
                c.tests.remove(i);
                v.push(c);
            }
        }
        macro_rules! clear {
            ($field:ident, $empty:expr) => {
                if case.$field != $empty {
                    let mut c = case.clone();
                    c.$field = $empty;
                    v.push(c);
                }
            };
        }
        for j in 0..case.includes.len() {
            let mut c = case.clone();
            c.includes.remove(j);
            v.push(c);
            if case.includes[j].tests.len() > 1 {
                for k in 0..case.includes[j].tests.len() {
                    let mut c = case.clone();
                    c.includes[j].tests.remove(k);
                    v.push(c);
                }
            }
            if !case.includes[j].defaults.is_empty() {
                let mut c = case.clone();
                c.includes[j].defaults = Layer::default();
                v.push(c);
            }
            for k in 0..case.includes[j].tests.len() {
                if !case.includes[j].tests[k].is_empty() {
                    let mut c = case.clone();
                    c.includes[j].tests[k] = Layer::default();
                    v.push(c);
                }
            }
        }
        clear!(cli_combine, String::new());
        clear!(cli_crlf, String::new());
        clear!(cli_timeout_s, None);
        clear!(doc_timeout_s, None);
        clear!(cram_compat, false);
        for which in 0..=case.tests.len() {
            let layer = if which == 0 { &case.defaults } else { &case.tests[which - 1] };
            let mut variants: Vec<Layer> = vec![];
            if !layer.output_stream.is_empty() {
                let mut l = layer.clone();
                l.output_stream.clear();
                variants.push(l);
            }
            if !layer.keep_crlf.is_empty() {
                let mut l = layer.clone();
                l.keep_crlf.clear();
                variants.push(l);
            }
            for k in layer.env.keys() {
                let mut l = layer.clone();
                l.env.remove(k);
                variants.push(l);
            }
            for l in variants {
                let mut c = case.clone();
                if which == 0 {
                    c.defaults = l;
                } else {
                    c.tests[which - 1] = l;
                }
                v.push(c);
            }
        }
        v
    }

    fn sample(&self, case: &Case) -> Value {
        if case.mode == "create" {
            return json!({"mode": "create", "format": case.format, "cli": [case.cli_combine, case.cli_crlf]});
        }
        json!({"format": case.format, "cram_compat": case.cram_compat, "cli": [case.cli_combine, case.cli_crlf, case.cli_timeout_s], "front_matter_total_timeout_s": case.doc_timeout_s,
               "defaults": case.defaults.yaml_inline(), "tests": case.tests.iter().map(|t| t.yaml_inline()).collect::<Vec<_>>(),
               "includes": case.includes.iter().map(|i| json!({"how": i.how, "defaults": i.defaults.yaml_inline(), "tests": i.tests.iter().map(|t| t.yaml_inline()).collect::<Vec<_>>()})).collect::<Vec<_>>()})
    }
}
